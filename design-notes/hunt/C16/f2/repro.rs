//! C16 / f2: with the async lock, `Subscriber::next()` / `next_ref()` commit
//! `observed_version` under a first lock acquisition, release the lock, and
//! only then lock again to fetch the value. If the future is dropped while it
//! waits for that second acquisition (timeout / `select!`), the update is
//! marked as observed although it was never delivered: the following `next()`
//! is Pending until some *further* update. The default flavour's `Next` does
//! both steps under one guard and cannot lose an update this way (and the
//! async flavour's own `Stream::poll_next` cannot either).
#![allow(missing_docs)]
#![cfg(feature = "async-lock")]

use std::{
    future::Future,
    pin::pin,
    sync::Arc,
    task::{Context, Poll, Wake, Waker},
};

use eyeball::{ObservableWriteGuard, SharedObservable};

struct Noop;
impl Wake for Noop {
    fn wake(self: Arc<Self>) {}
}

#[test]
fn cancelled_next_loses_an_update() {
    let w = Waker::from(Arc::new(Noop));
    let cx = &mut Context::from_waker(&w);

    let ob = SharedObservable::new_async(0u32);
    let mut sub = {
        let Poll::Ready(sub) = pin!(ob.subscribe()).as_mut().poll(cx) else { unreachable!() };
        sub
    };
    let mut guard = {
        let Poll::Ready(g) = pin!(ob.write()).as_mut().poll(cx) else { unreachable!() };
        g
    };
    {
        // the subscriber waits for the lock ...
        let mut next = pin!(sub.next());
        assert!(next.as_mut().poll(cx).is_pending());
        // ... a second writer queues behind it
        let mut write2 = pin!(ob.write());
        assert!(write2.as_mut().poll(cx).is_pending());

        ObservableWriteGuard::set(&mut guard, 1);
        drop(guard);

        // The subscriber gets the lock, sees version 2 and records it as
        // observed, releases the lock (the queued writer gets it), and now
        // waits for the lock a second time to read the value.
        assert!(next.as_mut().poll(cx).is_pending());

        // The second writer runs and changes nothing.
        let Poll::Ready(g2) = write2.as_mut().poll(cx) else { unreachable!() };
        drop(g2);
        // `next` is dropped here without having produced anything
        // (e.g. it sat inside a `timeout` or lost a `select!`).
    }
    // The value 1 was never handed to `sub`. Default flavour: Ready(Some(1)).
    let got = pin!(sub.next()).as_mut().poll(cx);
    assert_eq!(got, Poll::Ready(Some(1)), "the update to 1 was lost");
}
