//! C16 / f1: an async-lock `Subscriber` that was polled while the lock was
//! taken keeps its lock-acquisition future queued inside itself. When the
//! lock is released the read permit is handed to that (unpolled) future, so
//! the observable stays read-locked although no guard exists anywhere: every
//! setter / `write()` / `try_write()` fails or waits until the subscriber
//! happens to be polled again or is dropped. In sequential code (`timeout`,
//! `select!`, `now_or_never` on `sub.next()` followed by `ob.set(..).await`
//! in the same task) this is a self-deadlock. The default flavour has no such
//! state: after the write guard is gone, `set` succeeds.
#![allow(missing_docs)]
#![cfg(feature = "async-lock")]

use std::{
    future::Future,
    pin::{pin, Pin},
    sync::{
        atomic::{AtomicUsize, Ordering},
        Arc,
    },
    task::{Context, Poll, Wake, Waker},
};

use eyeball::{Observable, SharedObservable};
use futures_core::Stream;

struct CountWaker(AtomicUsize);
impl Wake for CountWaker {
    fn wake(self: Arc<Self>) {
        self.0.fetch_add(1, Ordering::SeqCst);
    }
}
fn counting_waker() -> (Arc<CountWaker>, Waker) {
    let c = Arc::new(CountWaker(AtomicUsize::new(0)));
    (c.clone(), Waker::from(c))
}
fn poll_once<F: Future>(f: F, w: &Waker) -> Poll<F::Output> {
    pin!(f).as_mut().poll(&mut Context::from_waker(w))
}

/// `sub.next()` is cancelled (timeout) while a write guard is held; afterwards
/// nobody can write any more.
#[test]
fn shared_cancelled_next_keeps_the_observable_locked() {
    let (wakes, w) = counting_waker();
    let ob = SharedObservable::new_async(0u32);
    let Poll::Ready(mut sub) = poll_once(ob.subscribe(), &w) else { unreachable!() };

    let Poll::Ready(guard) = poll_once(ob.write(), &w) else { unreachable!() };
    // e.g. `timeout(.., sub.next()).await` elapsing: polled once, then dropped
    assert!(poll_once(sub.next(), &w).is_pending());
    drop(guard);
    assert_eq!(wakes.0.load(Ordering::SeqCst), 1); // the wake-up itself is fine

    // No guard and no pending future exists now. Default flavour: `set` succeeds.
    assert!(ob.try_write().is_some(), "try_write fails although nothing holds the lock");
    assert!(poll_once(ob.set(1), &w).is_ready(), "set() waits forever (self-deadlock)");
}

/// Same through `Stream::poll_next`, no cancellation involved, unique flavour.
#[test]
fn unique_setter_blocked_by_unpolled_subscriber() {
    let (_wakes, w) = counting_waker();
    let mut ob = Observable::new_async(0u32);
    let mut holder = Observable::subscribe_async(&ob);
    let mut sub = Observable::subscribe_async(&ob);

    let Poll::Ready(read_guard) = poll_once(holder.next_ref_now(), &w) else { unreachable!() };
    {
        // a setter waits for the read guard ...
        let mut set1 = pin!(Observable::set_async(&mut ob, 1));
        assert!(set1.as_mut().poll(&mut Context::from_waker(&w)).is_pending());
        // ... and the subscriber, polled meanwhile, queues behind it
        assert!(Pin::new(&mut sub).poll_next(&mut Context::from_waker(&w)).is_pending());
        drop(read_guard);
        assert_eq!(set1.as_mut().poll(&mut Context::from_waker(&w)), Poll::Ready(0));
    }
    // set1 is complete, no guard is alive. The next setter must get the lock
    // (default flavour: `Observable::set` just works here).
    assert_eq!(
        poll_once(Observable::set_async(&mut ob, 2), &w),
        Poll::Ready(1),
        "set_async waits for a subscriber that is merely idle"
    );
}
