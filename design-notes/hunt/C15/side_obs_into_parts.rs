#![allow(missing_docs)]
use eyeball_im::{ObservableVector, VectorDiff};
use eyeball_im_util::vector::VectorObserverExt;
use futures_util::{stream, StreamExt, FutureExt};

#[test]
fn into_parts_after_partial_poll() {
    let mut ob = ObservableVector::<u32>::new();
    ob.append([10, 11, 12].into_iter().collect());
    let mut inner = Box::pin(ob.subscribe().dynamic_head(stream::iter([2usize]).chain(stream::pending())));
    assert_eq!(inner.next().now_or_never().unwrap(), Some(VectorDiff::Append { values: [10, 11].into_iter().collect() }));
    ob.pop_front();
    assert_eq!(inner.next().now_or_never().unwrap(), Some(VectorDiff::PopFront));
    // PushBack(12) is still buffered inside `inner`.
    let inner = std::pin::Pin::into_inner(inner);
    let (values, mut outer) = (*inner).tail(2);
    let mut view: Vec<u32> = values.iter().copied().collect();
    eprintln!("initial {view:?}");
    while let Some(Some(d)) = outer.next().now_or_never() {
        eprintln!("{d:?}");
        let mut v: imbl::Vector<u32> = view.iter().copied().collect();
        d.apply(&mut v);
        view = v.iter().copied().collect();
        assert!(view.len() <= 2);
    }
    assert_eq!(view, vec![11, 12]);
}
