//! C01: an update that a subscriber has not observed yet is lost (never handed out by
//! `next` / `next_ref` / the stream) when the observable is dropped before the
//! subscriber is polled.
#![allow(missing_docs)]

use eyeball::{Observable, SharedObservable};
use futures_executor::block_on;

#[test]
fn unique_final_update_is_not_delivered() {
    let mut ob = Observable::new(0);
    let mut sub = Observable::subscribe(&ob);

    Observable::set(&mut ob, 1); // notifying update, not observed by `sub`
    drop(ob);

    // The subscriber has an unobserved update, so the stream must hand it out first ...
    assert_eq!(block_on(sub.next()), Some(1)); // FAILS: left is None
    // ... and only then end.
    assert_eq!(block_on(sub.next()), None);
}

#[test]
fn shared_final_update_and_reset_are_not_delivered() {
    let ob = SharedObservable::new(0);
    let mut sub = ob.subscribe();
    let mut fresh = ob.subscribe_reset(); // documented: "immediately yields"

    ob.set(1);
    drop(ob);

    assert_eq!(sub.get(), 1); // the value is there ...
    assert_eq!(block_on(fresh.next()), Some(1)); // FAILS: None
    assert_eq!(block_on(sub.next()), Some(1)); // FAILS: None
}
