//! C04 / f2: with the async lock, a subscriber that was polled once while the
//! value was write-locked keeps a queued read-lock request inside itself
//! (`AsyncSubscriberState::get_lock`). When the writer unlocks, tokio's fair
//! semaphore hands the read permit to that request. If the subscriber is not
//! polled again (the `next()` future was dropped / lost a `select!`), the
//! value stays read-locked although no guard exists anywhere: every writer
//! blocks until the subscriber is polled or dropped.
#![allow(missing_docs)]
#![cfg(feature = "async-lock")]

use std::{future::Future, pin::pin, task::Context};

use eyeball::SharedObservable;
use futures_executor::block_on;
use futures_util::task::noop_waker;

#[test]
fn idle_subscriber_keeps_the_value_read_locked() {
    let waker = noop_waker();
    let mut cx = Context::from_waker(&waker);

    let ob = SharedObservable::new_async(0u64);
    let mut sub = block_on(ob.subscribe());

    let w1 = block_on(ob.write());
    {
        let mut next = pin!(sub.next());
        assert!(next.as_mut().poll(&mut cx).is_pending());
        // `next` dropped: cancelled.
    }
    drop(w1);

    // No read guard, no write guard and no pending future exists now.
    assert!(
        ob.try_write().is_some(),
        "no guard is alive, yet the value is locked (by the idle subscriber); `ob.set(..).await` would hang"
    );
}
