//! C04 / f3 (side finding, outside the literal C04 statement): after an update
//! closure panicked (poisoning the std lock), dropping the last
//! `SharedObservable` clone panics inside `Drop`. When that drop happens during
//! the unwinding of the very same panic - `let ob = ..; ob.update(|_| panic!())`
//! - the process aborts. Subscribers are never told that the observable is gone.
#![allow(missing_docs)]

use std::panic::{catch_unwind, AssertUnwindSafe};

use eyeball::SharedObservable;

#[test]
fn dropping_a_poisoned_observable_panics() {
    let ob = SharedObservable::new(0u64);
    let _ = catch_unwind(AssertUnwindSafe(|| ob.update(|_| panic!("closure panics"))));
    let res = catch_unwind(AssertUnwindSafe(move || drop(ob)));
    assert!(res.is_ok(), "Drop for SharedObservable panicked (lock.rs read_noblock: try_read().unwrap())");
}
