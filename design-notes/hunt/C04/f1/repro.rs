//! C04 / f1: with the async lock, a cancelled `Subscriber::next()` (or
//! `next_ref()`) future can mark an update as observed without ever yielding
//! it. The subscriber then never ends on the final value.
#![allow(missing_docs)]
#![cfg(feature = "async-lock")]

use std::{
    future::Future,
    pin::pin,
    task::{Context, Poll},
};

use eyeball::{ObservableWriteGuard, SharedObservable};
use futures_executor::block_on;
use futures_util::task::noop_waker;

#[test]
fn cancelled_next_swallows_the_final_value() {
    let waker = noop_waker();
    let mut cx = Context::from_waker(&waker);

    let ob = SharedObservable::new_async(0u64);
    let mut sub = block_on(ob.subscribe());

    let mut w1 = block_on(ob.write());
    {
        // e.g. one arm of a `select!`
        let mut next = pin!(sub.next());
        // The subscriber queues for the read lock ...
        assert!(next.as_mut().poll(&mut cx).is_pending());
        // ... and a second writer queues behind it.
        let mut w2 = pin!(ob.write());
        assert!(w2.as_mut().poll(&mut cx).is_pending());

        // The first writer stores 1 and unlocks.
        ObservableWriteGuard::set(&mut w1, 1);
        drop(w1);

        // The subscriber gets the lock, sees the new version, records it as
        // observed, unlocks (the lock goes to w2) and then tries to lock a
        // second time to fetch the value: Pending.
        assert!(next.as_mut().poll(&mut cx).is_pending());

        // The second writer gets the lock and changes nothing.
        let Poll::Ready(guard) = w2.as_mut().poll(&mut cx) else { panic!("w2 still pending") };
        drop(guard);

        // The `next()` future is dropped here (the other `select!` arm won).
    }

    // The writers are finished, the value is 1, the subscriber never saw it ...
    assert_eq!(block_on(ob.get()), 1);
    // ... so a fresh `next()` has to yield it.
    let mut next = pin!(sub.next());
    assert_eq!(
        next.as_mut().poll(&mut cx),
        Poll::Ready(Some(1)),
        "the subscriber marked the final value as observed without ever yielding it"
    );
}
