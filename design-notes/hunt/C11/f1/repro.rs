//! C11 / f1: `Sort*` overflows the stack when many items tie under the
//! comparison (recursion depth of `imbl::Vector::sort_by` is linear in the
//! size of the largest group of tied items).
#![allow(missing_docs)]

use std::{
    pin::Pin,
    task::{Context, Poll, Wake, Waker},
};

use eyeball_im::{ObservableVector, VectorDiff};
use eyeball_im_util::vector::VectorObserverExt;
use futures_core::Stream;
use imbl::Vector;
use std::sync::Arc;

struct Noop;
impl Wake for Noop {
    fn wake(self: Arc<Self>) {}
}

fn n_items() -> usize {
    std::env::var("C11_N").ok().and_then(|s| s.parse().ok()).unwrap_or(6000)
}

/// Run `f` on a thread with the default stack size of Rust threads (2 MiB,
/// also the default of tokio worker threads).
fn on_default_stack(f: impl FnOnce() + Send + 'static) {
    std::thread::Builder::new().stack_size(2 * 1024 * 1024).spawn(f).unwrap().join().unwrap();
}

/// 6000 rooms, sorted by a boolean key: initial values.
#[test]
fn initial_values_with_ties() {
    on_default_stack(|| {
        let n = n_items();
        let mut ob = ObservableVector::<(bool, usize)>::new();
        ob.append((0..n).map(|i| (i % 7 == 0, i)).collect());

        let (values, _sub) = ob.subscribe().sort_by_key(|item| item.0);

        assert_eq!(values.len(), n);
        assert!(values.iter().zip(values.iter().skip(1)).all(|(a, b)| a.0 <= b.0));
    });
}

/// Same, but the items arrive through one `Append` diff.
#[test]
fn append_with_ties() {
    on_default_stack(|| {
        let n = n_items();
        let mut ob = ObservableVector::<(bool, usize)>::new();
        let (values, mut sub) = ob.subscribe().sort_by(|a, b| a.0.cmp(&b.0));
        assert!(values.is_empty());

        ob.append((0..n).map(|i| (i % 7 == 0, i)).collect());

        let waker = Waker::from(Arc::new(Noop));
        let mut cx = Context::from_waker(&waker);
        let mut view = Vector::new();
        while let Poll::Ready(Some(diff)) = Pin::new(&mut sub).poll_next(&mut cx) {
            VectorDiff::apply(diff, &mut view);
        }
        assert_eq!(view.len(), n);
        assert!(view.iter().zip(view.iter().skip(1)).all(|(a, b)| a.0 <= b.0));
    });
}
