//! C03: after a panic inside an update closure (which poisons the std RwLock of the default
//! `SyncLock` flavour) dropping the last owner panics itself instead of ending the stream; when
//! the owner is dropped by the unwinding of that very panic the process aborts.
#![allow(missing_docs)]
use std::panic::{catch_unwind, AssertUnwindSafe};

use eyeball::{Observable, SharedObservable};
use futures_util::FutureExt;

#[test]
fn shared_last_owner_drop_after_panicking_update() {
    let ob = SharedObservable::new(0u32);
    let mut sub = ob.subscribe();
    assert!(catch_unwind(AssertUnwindSafe(|| ob.update(|_| panic!("boom")))).is_err());
    let dropped = catch_unwind(AssertUnwindSafe(move || drop(ob)));
    assert!(dropped.is_ok(), "dropping the last SharedObservable clone panicked");
    let next = catch_unwind(AssertUnwindSafe(|| sub.next().now_or_never()));
    assert_eq!(next.ok(), Some(Some(None)), "the stream did not end after the last owner was dropped");
}

#[test]
fn unique_owner_drop_after_panicking_update() {
    let mut ob = Observable::new(0u32);
    let mut sub = Observable::subscribe(&ob);
    assert!(catch_unwind(AssertUnwindSafe(|| Observable::update(&mut ob, |_| panic!("boom"))))
        .is_err());
    let dropped = catch_unwind(AssertUnwindSafe(move || drop(ob)));
    assert!(dropped.is_ok(), "dropping the Observable panicked");
    let next = catch_unwind(AssertUnwindSafe(|| sub.next().now_or_never()));
    assert_eq!(next.ok(), Some(Some(None)), "the stream did not end after the owner was dropped");
}

/// The common shape: the owner lives in the frame the panic unwinds through. The destructor
/// panics during cleanup, so the whole process aborts (SIGABRT) instead of the panic being
/// catchable. Ignored by default because it kills the test binary; run with `-- --ignored`.
#[test]
#[ignore]
fn unwinding_through_the_owner_aborts_the_process() {
    let r = catch_unwind(|| {
        let ob = SharedObservable::new(0u32);
        ob.update(|_| panic!("boom"));
    });
    assert!(r.is_err());
}
