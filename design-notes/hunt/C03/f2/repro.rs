#![allow(missing_docs)]
use std::{
    sync::atomic::{AtomicBool, Ordering::Relaxed},
    thread,
};

use eyeball::SharedObservable;

/// `subscriber_count()` is documented as "the number of subscribers". With no subscriber at all
/// it must be 0 (or at worst a stale small number), never a panic / usize::MAX.
#[test]
fn subscriber_count_while_another_thread_clones() {
    let ob = SharedObservable::new(0u32);
    let stop = AtomicBool::new(false);
    thread::scope(|s| {
        s.spawn(|| {
            while !stop.load(Relaxed) {
                drop(ob.clone());
            }
        });
        let mut worst = 0usize;
        let r = std::panic::catch_unwind(std::panic::AssertUnwindSafe(|| {
            for _ in 0..5_000_000 {
                let n = ob.subscriber_count();
                worst = worst.max(n);
                if n > 1 {
                    break;
                }
            }
        }));
        stop.store(true, Relaxed);
        assert!(r.is_ok(), "subscriber_count() panicked (subtraction overflow)");
        assert!(worst <= 1, "subscriber_count() returned {worst} with no subscribers");
    });
}
