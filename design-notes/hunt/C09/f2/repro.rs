//! C09 / f2: `VectorObserver::into_parts` of a Head / Tail / Skip that has
//! already been polled returns the view computed from the internal replica
//! (which already contains the effect of the diffs still waiting in
//! `ready_values`) and then hands out a stream that still emits those
//! buffered diffs. Initial values + diffs therefore do not rebuild the
//! first / last / remaining items (an item shows up twice, or a diff is not
//! applicable).

use eyeball::Observable;
use eyeball_im::{ObservableVector, Vector, VectorDiff};
use eyeball_im_util::vector::{VectorObserver, VectorObserverExt};
use futures_util::{FutureExt, StreamExt};
use imbl::vector;

fn drain<S>(view: &mut Vector<u32>, stream: &mut S)
where
    S: futures_core::Stream<Item = VectorDiff<u32>> + Unpin,
{
    while let Some(Some(diff)) = stream.next().now_or_never() {
        diff.apply(view);
    }
}

#[test]
fn head_into_parts_after_a_poll() {
    let mut ob = ObservableVector::<u32>::from(vector![10, 11, 12]);
    let mut limit = Observable::new(0usize);
    let mut head = ob.subscribe().dynamic_head(Observable::subscribe(&limit));

    Observable::set(&mut limit, 2);
    assert_eq!(
        head.next().now_or_never(),
        Some(Some(VectorDiff::Append { values: vector![10, 11] }))
    );
    assert_eq!(head.next().now_or_never(), None); // pending

    // One source change = two diffs for the view; take only the first one.
    ob.pop_front();
    assert_eq!(head.next().now_or_never(), Some(Some(VectorDiff::PopFront)));

    // Hand the adapter on (what `.tail(..)`, `.skip(..)`, ... do internally).
    let (mut view, mut stream) = head.into_parts();
    drain(&mut view, &mut stream);

    // The first 2 items of [11, 12].
    assert_eq!(view, vector![11, 12]); // pristine tree: [11, 12, 12]
}

#[test]
fn tail_into_parts_after_a_poll() {
    let ob = ObservableVector::<u32>::from(vector![10, 11, 12, 13]);
    let mut limit = Observable::new(0usize);
    let mut tail = ob.subscribe().dynamic_tail(Observable::subscribe(&limit));

    Observable::set(&mut limit, 1);
    assert_eq!(
        tail.next().now_or_never(),
        Some(Some(VectorDiff::Append { values: vector![13] }))
    );
    assert_eq!(tail.next().now_or_never(), None); // pending

    // The limit grows by 2 = two PushFront diffs; take only the first one.
    Observable::set(&mut limit, 3);
    assert_eq!(tail.next().now_or_never(), Some(Some(VectorDiff::PushFront { value: 12 })));

    let (mut view, mut stream) = tail.into_parts();
    drain(&mut view, &mut stream);

    // The last 3 items of [10, 11, 12, 13].
    assert_eq!(view, vector![11, 12, 13]); // pristine tree: [11, 11, 12, 13]
}

#[test]
fn skip_into_parts_after_a_poll() {
    let ob = ObservableVector::<u32>::from(vector![10, 11, 12, 13]);
    let mut count = Observable::new(0usize);
    let mut skip = ob.subscribe().dynamic_skip(Observable::subscribe(&count));

    Observable::set(&mut count, 3);
    assert_eq!(
        skip.next().now_or_never(),
        Some(Some(VectorDiff::Append { values: vector![13] }))
    );
    assert_eq!(skip.next().now_or_never(), None); // pending

    // The count shrinks by 2 = two PushFront diffs; take only the first one.
    Observable::set(&mut count, 1);
    assert_eq!(skip.next().now_or_never(), Some(Some(VectorDiff::PushFront { value: 12 })));

    // Chain another adapter on top, as the API invites to.
    let (mut view, mut stream) = skip.head(10);
    drain(&mut view, &mut stream);

    // All but the first item of [10, 11, 12, 13] (and at most 10 of them).
    assert_eq!(view, vector![11, 12, 13]); // pristine tree: [11, 11, 12, 13]
}
