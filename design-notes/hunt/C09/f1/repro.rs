//! C09 / f1: Head, Tail and Skip keep polling their limit / count stream
//! after it has returned `Poll::Ready(None)`.
//!
//! The `Stream` contract says that polling a stream again after it has
//! terminated "may panic, block forever, or cause other kinds of problems".
//! `futures_util::stream::unfold` is such a (non-fused) stream: it panics.
//! So a *finite* sequence of limits delivered through it kills the adapter
//! on the next source change, although the source is alive and the view
//! should simply keep following it with the latest limit announced.

use eyeball_im::{ObservableVector, VectorDiff};
use eyeball_im_util::vector::VectorObserverExt;
use futures_util::stream;
use imbl::vector;
use stream_assert::{assert_closed, assert_next_eq, assert_pending};

/// A finite, non-fused limit stream: yields 2, then ends.
fn limits() -> impl futures_core::Stream<Item = usize> {
    stream::unfold(0u8, |n| async move {
        if n == 0 {
            Some((2usize, 1u8))
        } else {
            None
        }
    })
}

#[test]
fn head_polls_finished_limit_stream_again() {
    let mut ob = ObservableVector::<u32>::from(vector![1, 2, 3]);
    let mut sub = Box::pin(ob.subscribe().dynamic_head(limits()));

    // The one and only limit arrives: the view becomes [1, 2].
    assert_next_eq!(sub, VectorDiff::Append { values: vector![1, 2] });
    // The limit stream has now reported its end; the source is pending.
    assert_pending!(sub);

    // The source changes; the view (first 2 items) must become [0, 1].
    ob.push_front(0);
    // On the pristine tree this poll panics inside `Unfold`:
    // "Unfold must not be polled after it returned `Poll::Ready(None)`".
    assert_next_eq!(sub, VectorDiff::PopBack);
    assert_next_eq!(sub, VectorDiff::PushFront { value: 0 });
    assert_pending!(sub);

    drop(ob);
    assert_closed!(sub);
}

#[test]
fn tail_polls_finished_limit_stream_again() {
    let mut ob = ObservableVector::<u32>::from(vector![1, 2, 3]);
    let mut sub = Box::pin(ob.subscribe().dynamic_tail(limits()));

    assert_next_eq!(sub, VectorDiff::Append { values: vector![2, 3] });
    assert_pending!(sub);

    ob.push_back(4);
    assert_next_eq!(sub, VectorDiff::PopFront);
    assert_next_eq!(sub, VectorDiff::PushBack { value: 4 });
    assert_pending!(sub);

    drop(ob);
    assert_closed!(sub);
}

#[test]
fn skip_polls_finished_count_stream_again() {
    let mut ob = ObservableVector::<u32>::from(vector![1, 2, 3]);
    let mut sub = Box::pin(ob.subscribe().dynamic_skip(limits()));

    assert_next_eq!(sub, VectorDiff::Append { values: vector![3] });
    assert_pending!(sub);

    ob.push_back(4);
    assert_next_eq!(sub, VectorDiff::PushBack { value: 4 });
    assert_pending!(sub);

    drop(ob);
    assert_closed!(sub);
}
