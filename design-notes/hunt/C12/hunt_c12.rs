//! Model-based hunt for property C12: adapters compose.
#![allow(missing_docs, missing_debug_implementations, unreachable_pub, dead_code)]
#![allow(clippy::all)]

use std::{
    cell::RefCell,
    collections::VecDeque,
    pin::Pin,
    rc::Rc,
    sync::{
        atomic::{AtomicUsize, Ordering as AO},
        Arc,
    },
    task::{Context, Poll, Wake, Waker},
};

use eyeball_im::{ObservableVector, Vector, VectorDiff};
use eyeball_im_util::vector::{
    Head, Skip, Tail, VectorObserver, VectorObserverExt, VectorSubscriberExt,
};
use futures_core::Stream;

// ---------------------------------------------------------------- rng

#[derive(Clone)]
pub struct Rng(u64);
impl Rng {
    pub fn new(seed: u64) -> Self {
        Rng(seed.wrapping_mul(0x9E37_79B9_7F4A_7C15) ^ 0xD1B5_4A32_D192_ED03)
    }
    pub fn next(&mut self) -> u64 {
        let mut x = self.0;
        x ^= x << 13;
        x ^= x >> 7;
        x ^= x << 17;
        self.0 = x;
        x.wrapping_mul(0x2545_F491_4F6C_DD1D)
    }
    pub fn below(&mut self, n: usize) -> usize {
        if n == 0 {
            0
        } else {
            (self.next() >> 33) as usize % n
        }
    }
    pub fn chance(&mut self, num: usize, den: usize) -> bool {
        self.below(den) < num
    }
}

// ---------------------------------------------------------------- diffs

pub type D = VectorDiff<u32>;

/// Bounds-checked application of a diff to a plain Vec.
pub fn apply(v: &mut Vec<u32>, d: &D) -> Result<(), String> {
    match d {
        VectorDiff::Append { values } => v.extend(values.iter().copied()),
        VectorDiff::Clear => v.clear(),
        VectorDiff::PushFront { value } => v.insert(0, *value),
        VectorDiff::PushBack { value } => v.push(*value),
        VectorDiff::PopFront => {
            if v.is_empty() {
                return Err("PopFront on empty".into());
            }
            v.remove(0);
        }
        VectorDiff::PopBack => {
            if v.pop().is_none() {
                return Err("PopBack on empty".into());
            }
        }
        VectorDiff::Insert { index, value } => {
            if *index > v.len() {
                return Err(format!("Insert {index} > len {}", v.len()));
            }
            v.insert(*index, *value);
        }
        VectorDiff::Set { index, value } => {
            if *index >= v.len() {
                return Err(format!("Set {index} >= len {}", v.len()));
            }
            v[*index] = *value;
        }
        VectorDiff::Remove { index } => {
            if *index >= v.len() {
                return Err(format!("Remove {index} >= len {}", v.len()));
            }
            v.remove(*index);
        }
        VectorDiff::Truncate { length } => {
            if *length > v.len() {
                return Err(format!("Truncate {length} > len {}", v.len()));
            }
            v.truncate(*length);
        }
        VectorDiff::Reset { values } => {
            *v = values.iter().copied().collect();
        }
    }
    Ok(())
}

pub trait Flat: 'static {
    fn diffs(&self) -> Vec<D>;
}
impl Flat for D {
    fn diffs(&self) -> Vec<D> {
        vec![self.clone()]
    }
}
impl Flat for Vec<D> {
    fn diffs(&self) -> Vec<D> {
        self.clone()
    }
}

// ---------------------------------------------------------------- taps

#[derive(Default)]
pub struct TapLog {
    pub init: Option<Vec<u32>>,
    pub view: Vec<u32>,
    pub err: Option<String>,
    pub saw_truncate: bool,
    pub hist: Vec<String>,
    pub empty_batch: bool,
}
pub type Log = Rc<RefCell<TapLog>>;

impl TapLog {
    pub fn feed(&mut self, ds: Vec<D>) {
        if ds.is_empty() {
            self.empty_batch = true;
        }
        for d in ds {
            if matches!(d, VectorDiff::Truncate { .. }) {
                self.saw_truncate = true;
            }
            self.hist.push(format!("{d:?}"));
            if self.err.is_none() {
                if let Err(e) = apply(&mut self.view, &d) {
                    self.err = Some(format!("{e} (diff {d:?})"));
                }
            }
        }
    }
}

pub struct Tap<S> {
    inner: S,
    log: Log,
}
impl<S: Stream + Unpin> Stream for Tap<S>
where
    S::Item: Flat,
{
    type Item = S::Item;
    fn poll_next(mut self: Pin<&mut Self>, cx: &mut Context<'_>) -> Poll<Option<S::Item>> {
        let r = Pin::new(&mut self.inner).poll_next(cx);
        if let Poll::Ready(Some(item)) = &r {
            self.log.borrow_mut().feed(item.diffs());
        }
        r
    }
}

/// A transparent observer wrapper: records what `into_parts` hands over.
pub struct Tapped<O> {
    pub inner: O,
    pub log: Log,
}
impl<O> VectorObserver<u32> for Tapped<O>
where
    O: VectorObserver<u32>,
    O::Stream: Unpin,
    <O::Stream as Stream>::Item: Flat,
{
    type Stream = Tap<O::Stream>;
    fn into_parts(self) -> (Vector<u32>, Self::Stream) {
        let (v, s) = self.inner.into_parts();
        {
            let mut l = self.log.borrow_mut();
            let vv: Vec<u32> = v.iter().copied().collect();
            l.init = Some(vv.clone());
            l.view = vv;
        }
        (v, Tap { inner: s, log: self.log })
    }
}

// ---------------------------------------------------------------- limit queue

#[derive(Default)]
pub struct QueueInner {
    q: VecDeque<usize>,
    waker: Option<Waker>,
}
#[derive(Clone, Default)]
pub struct Queue(Rc<RefCell<QueueInner>>);
impl Queue {
    pub fn push(&self, v: usize) {
        let mut i = self.0.borrow_mut();
        i.q.push_back(v);
        if let Some(w) = i.waker.take() {
            w.wake();
        }
    }
}
impl Stream for Queue {
    type Item = usize;
    fn poll_next(self: Pin<&mut Self>, cx: &mut Context<'_>) -> Poll<Option<usize>> {
        let mut i = self.0.borrow_mut();
        match i.q.pop_front() {
            Some(v) => Poll::Ready(Some(v)),
            None => {
                i.waker = Some(cx.waker().clone());
                Poll::Pending
            }
        }
    }
}

// ---------------------------------------------------------------- waker

pub struct CountWaker(pub AtomicUsize);
impl Wake for CountWaker {
    fn wake(self: Arc<Self>) {
        self.0.fetch_add(1, AO::SeqCst);
    }
    fn wake_by_ref(self: &Arc<Self>) {
        self.0.fetch_add(1, AO::SeqCst);
    }
}

// ---------------------------------------------------------------- specs + model

#[derive(Clone, Debug, PartialEq)]
pub enum Spec {
    Head(usize),
    DynHead,
    DynHeadInit(usize),
    Tail(usize),
    DynTail,
    DynTailInit(usize),
    Skip(usize),
    DynSkip,
    DynSkipInit(usize),
    Filter,
    FilterMap,
    Sort,
    SortBy,
    SortByKey,
}

impl Spec {
    pub fn is_dynamic(&self) -> bool {
        use Spec::*;
        matches!(self, DynHead | DynHeadInit(_) | DynTail | DynTailInit(_) | DynSkip | DynSkipInit(_))
    }
    pub fn is_sort(&self) -> bool {
        matches!(self, Spec::Sort | Spec::SortBy | Spec::SortByKey)
    }
    pub fn is_tail(&self) -> bool {
        matches!(self, Spec::Tail(_) | Spec::DynTail | Spec::DynTailInit(_))
    }
    pub fn initial_param(&self) -> Option<usize> {
        use Spec::*;
        match *self {
            Head(n) | DynHeadInit(n) | Tail(n) | DynTailInit(n) | Skip(n) | DynSkipInit(n) => Some(n),
            DynHead | DynTail => Some(0),
            _ => None,
        }
    }
}

pub fn pred(x: &u32) -> bool {
    x % 3 != 0
}
pub fn fmap(x: u32) -> Option<u32> {
    if x % 4 != 1 {
        Some(x / 2 + 1)
    } else {
        None
    }
}
pub fn cmp_by(a: &u32, b: &u32) -> std::cmp::Ordering {
    (b / 3).cmp(&(a / 3))
}
pub fn key_of(x: &u32) -> u32 {
    x % 5
}

/// Check `out` is the correct view of `inp` for the stage.
pub fn check_stage(spec: &Spec, param: Option<usize>, inp: &[u32], out: &[u32]) -> Result<(), String> {
    use Spec::*;
    let exact = |exp: Vec<u32>| {
        if exp == out {
            Ok(())
        } else {
            Err(format!("expected {exp:?}, got {out:?} (input {inp:?}, param {param:?})"))
        }
    };
    match spec {
        Head(_) | DynHead | DynHeadInit(_) => {
            let l = param.unwrap();
            exact(inp.iter().copied().take(l).collect())
        }
        Tail(_) | DynTail | DynTailInit(_) => {
            let l = param.unwrap();
            exact(inp[inp.len().saturating_sub(l)..].to_vec())
        }
        Skip(_) | DynSkip | DynSkipInit(_) => match param {
            None => exact(vec![]),
            Some(c) => exact(inp.iter().copied().skip(c).collect()),
        },
        Filter => exact(inp.iter().copied().filter(pred).collect()),
        FilterMap => exact(inp.iter().copied().filter_map(fmap).collect()),
        Sort => {
            let mut e = inp.to_vec();
            e.sort();
            exact(e)
        }
        SortBy | SortByKey => {
            let mut a = inp.to_vec();
            let mut b = out.to_vec();
            a.sort();
            b.sort();
            if a != b {
                return Err(format!("not a permutation: input {inp:?}, got {out:?}"));
            }
            let ok = out.windows(2).all(|w| {
                if *spec == SortBy {
                    cmp_by(&w[0], &w[1]).is_le()
                } else {
                    key_of(&w[0]) <= key_of(&w[1])
                }
            });
            if ok {
                Ok(())
            } else {
                Err(format!("not sorted: {out:?} (input {inp:?})"))
            }
        }
    }
}

// ---------------------------------------------------------------- type erasure

pub type BoxS<C> = Pin<Box<dyn Stream<Item = C>>>;

pub trait DynObs<C> {
    fn parts(self: Box<Self>) -> (Vector<u32>, BoxS<C>);
    fn poll(&mut self, cx: &mut Context<'_>) -> Poll<Option<C>>;
    fn set_values(&mut self, _v: Vector<u32>) {}
    fn is_pair(&self) -> bool {
        false
    }
}

pub struct Pair<C>(pub Vector<u32>, pub BoxS<C>);
impl<C> DynObs<C> for Pair<C> {
    fn parts(self: Box<Self>) -> (Vector<u32>, BoxS<C>) {
        (self.0, self.1)
    }
    fn poll(&mut self, cx: &mut Context<'_>) -> Poll<Option<C>> {
        self.1.as_mut().poll_next(cx)
    }
    fn set_values(&mut self, v: Vector<u32>) {
        self.0 = v;
    }
    fn is_pair(&self) -> bool {
        true
    }
}

macro_rules! dyn_obs_for {
    ($ty:ident) => {
        impl<C, S, L> DynObs<C> for $ty<S, L>
        where
            C: Kind,
            S: Stream<Item = C> + Unpin + 'static,
            L: Stream<Item = usize> + Unpin + 'static,
        {
            fn parts(self: Box<Self>) -> (Vector<u32>, BoxS<C>) {
                let (v, s) = VectorObserver::into_parts(*self);
                (v, Box::pin(s))
            }
            fn poll(&mut self, cx: &mut Context<'_>) -> Poll<Option<C>> {
                Pin::new(self).poll_next(cx)
            }
        }
    };
}
dyn_obs_for!(Head);
dyn_obs_for!(Tail);
dyn_obs_for!(Skip);

pub struct End<C>(pub Box<dyn DynObs<C>>);
impl<C: Kind> VectorObserver<u32> for End<C> {
    type Stream = BoxS<C>;
    fn into_parts(self) -> (Vector<u32>, BoxS<C>) {
        self.0.parts()
    }
}

pub trait Kind:
    eyeball_im_util::vector::VectorDiffContainer<Element = u32> + Flat + Sized + 'static
{
    const BATCHED: bool;
    fn source(ob: &ObservableVector<u32>, log: Log) -> End<Self>;
    fn filter_map_stage(obs: Tapped<End<Self>>) -> (Vector<u32>, BoxS<Self>);
}
impl Kind for D {
    const BATCHED: bool = false;
    fn source(ob: &ObservableVector<u32>, log: Log) -> End<Self> {
        let (v, s) = Tapped { inner: ob.subscribe(), log }.into_parts();
        End(Box::new(Pair(v, Box::pin(s))))
    }
    fn filter_map_stage(obs: Tapped<End<Self>>) -> (Vector<u32>, BoxS<Self>) {
        let (v, s) = obs.filter_map(fmap);
        (v, Box::pin(s))
    }
}
impl Kind for Vec<D> {
    const BATCHED: bool = true;
    fn source(ob: &ObservableVector<u32>, log: Log) -> End<Self> {
        let (v, s) = Tapped { inner: ob.subscribe().batched(), log }.into_parts();
        End(Box::new(Pair(v, Box::pin(s))))
    }
    fn filter_map_stage(obs: Tapped<End<Self>>) -> (Vector<u32>, BoxS<Self>) {
        let (v, s) = obs.filter_map(fmap);
        (v, Box::pin(s))
    }
}

pub struct Stage {
    pub spec: Spec,
    pub param: Option<usize>,
    pub queue: Queue,
    pub as_adapter: bool,
}

fn to_vec(v: &Vector<u32>) -> Vec<u32> {
    v.iter().copied().collect()
}

/// Attach `stage` on top of `end` with a tap in between.  Returns the
/// initial view of the new stage and the new end.
pub fn attach<C: Kind>(end: End<C>, log: Log, stage: &Stage) -> (Vec<u32>, End<C>) {
    let obs = Tapped { inner: end, log };
    let q = stage.queue.clone();
    let ad = stage.as_adapter;
    fn pair<C: Kind, S: Stream<Item = C> + 'static>(v: Vector<u32>, s: S) -> (Vec<u32>, End<C>) {
        (to_vec(&v), End(Box::new(Pair(v, Box::pin(s)))))
    }
    match stage.spec {
        Spec::Head(n) => {
            let (v, s) = obs.head(n);
            pair(v, s)
        }
        Spec::Tail(n) => {
            let (v, s) = obs.tail(n);
            pair(v, s)
        }
        Spec::Skip(n) => {
            let (v, s) = obs.skip(n);
            pair(v, s)
        }
        Spec::DynHead => (vec![], End(Box::new(obs.dynamic_head(q)))),
        Spec::DynTail => (vec![], End(Box::new(obs.dynamic_tail(q)))),
        Spec::DynSkip => (vec![], End(Box::new(obs.dynamic_skip(q)))),
        Spec::DynHeadInit(n) => {
            let (v, s) = obs.dynamic_head_with_initial_value(n, q);
            if ad {
                (to_vec(&v), End(Box::new(s)))
            } else {
                pair(v, s)
            }
        }
        Spec::DynTailInit(n) => {
            let (v, s) = obs.dynamic_tail_with_initial_value(n, q);
            if ad {
                (to_vec(&v), End(Box::new(s)))
            } else {
                pair(v, s)
            }
        }
        Spec::DynSkipInit(n) => {
            let (v, s) = obs.dynamic_skip_with_initial_count(n, q);
            if ad {
                (to_vec(&v), End(Box::new(s)))
            } else {
                pair(v, s)
            }
        }
        Spec::Filter => {
            let (v, s) = obs.filter(pred);
            pair(v, s)
        }
        Spec::FilterMap => {
            let (v, s) = C::filter_map_stage(obs);
            (to_vec(&v), End(Box::new(Pair(v, s))))
        }
        Spec::Sort => {
            let (v, s) = obs.sort();
            pair(v, s)
        }
        Spec::SortBy => {
            let (v, s) = obs.sort_by(cmp_by);
            pair(v, s)
        }
        Spec::SortByKey => {
            let (v, s) = obs.sort_by_key(key_of);
            pair(v, s)
        }
    }
}

// ---------------------------------------------------------------- driver

#[derive(Clone, Debug)]
pub struct Cfg {
    pub seed: u64,
    pub specs: Vec<Spec>,
    pub capacity: usize,
    pub init_len: usize,
    pub init_pops: usize,
    pub rounds: usize,
    pub max_ops: usize,
    pub late_attach: bool,
    pub partial: bool,
    pub val_range: u32,
    pub limits: bool,
    pub no_trunc: bool,
}

#[derive(Debug, PartialEq)]
pub enum Outcome {
    Ok,
    Taint,
    Fail(String),
}

pub struct Chain<C: Kind> {
    ob: Option<ObservableVector<u32>>,
    src: Vec<u32>,
    src_tap: Log,
    taps: Vec<Log>,
    stages: Vec<Stage>,
    end: Option<End<C>>,
    end_view: Vec<u32>,
    end_err: Option<String>,
    end_done: bool,
    polled: bool,
    wk: Arc<CountWaker>,
    pending_at: Option<usize>,
    no_trunc: bool,
    pub trace: Vec<String>,
}

macro_rules! do_op {
    ($t:expr, $rng:expr, $range:expr, $trace:expr, $notrunc:expr) => {{
        let len = $t.len();
        let val = $rng.below($range as usize) as u32;
        let k = $rng.below(100);
        if k < 18 {
            $trace.push(format!("push_back({val})"));
            $t.push_back(val);
        } else if k < 32 {
            $trace.push(format!("push_front({val})"));
            $t.push_front(val);
        } else if k < 42 {
            $trace.push("pop_back".to_string());
            $t.pop_back();
        } else if k < 52 {
            $trace.push("pop_front".to_string());
            $t.pop_front();
        } else if k < 64 {
            let i = $rng.below(len + 1);
            $trace.push(format!("insert({i},{val})"));
            $t.insert(i, val);
        } else if k < 76 {
            if len > 0 {
                let i = $rng.below(len);
                $trace.push(format!("set({i},{val})"));
                $t.set(i, val);
            }
        } else if k < 87 {
            if len > 0 {
                let i = $rng.below(len);
                $trace.push(format!("remove({i})"));
                $t.remove(i);
            }
        } else if k < 92 && !$notrunc {
            let l = $rng.below(len + 2);
            $trace.push(format!("truncate({l})"));
            $t.truncate(l);
        } else if k < 94 {
            $trace.push("clear".to_string());
            $t.clear();
        } else {
            let n = $rng.below(5);
            let vals: Vector<u32> =
                (0..n).map(|_| $rng.below($range as usize) as u32).collect();
            $trace.push(format!("append({:?})", vals.iter().collect::<Vec<_>>()));
            $t.append(vals);
        }
    }};
}

impl<C: Kind> Chain<C> {
    pub fn new(cfg: &Cfg, rng: &mut Rng) -> Self {
        let mut ob = ObservableVector::with_capacity(cfg.capacity);
        for _ in 0..cfg.init_len {
            ob.push_back(rng.below(cfg.val_range as usize) as u32);
        }
        for _ in 0..cfg.init_pops {
            ob.pop_front();
        }
        let log = Log::default();
        let end = C::source(&ob, log.clone());
        let src = to_vec(&ob);
        Chain {
            src: src.clone(),
            ob: Some(ob),
            src_tap: log,
            taps: vec![],
            stages: vec![],
            end: Some(end),
            end_view: src,
            end_err: None,
            end_done: false,
            polled: false,
            wk: Arc::new(CountWaker(AtomicUsize::new(0))),
            pending_at: None,
            no_trunc: cfg.no_trunc,
            trace: vec![],
        }
    }

    pub fn drain(&mut self, max: Option<usize>) -> Result<usize, String> {
        let waker = Waker::from(self.wk.clone());
        let mut cx = Context::from_waker(&waker);
        let mut n = 0;
        loop {
            if let Some(m) = max {
                if n >= m {
                    self.pending_at = None;
                    break;
                }
            }
            if n > 100_000 {
                return Err("stream does not quiesce".into());
            }
            let woken = self.wk.0.load(AO::SeqCst);
            match self.end.as_mut().unwrap().0.poll(&mut cx) {
                Poll::Ready(Some(item)) => {
                    if n == 0 && self.pending_at == Some(woken) {
                        return Err(format!("item {:?} without a wake-up", item.diffs()));
                    }
                    n += 1;
                    self.polled = true;
                    let ds = item.diffs();
                    if ds.is_empty() {
                        return Err("empty batch at the end".into());
                    }
                    for d in ds {
                        self.trace.push(format!("  end <- {d:?}"));
                        if self.end_err.is_none() {
                            if let Err(e) = apply(&mut self.end_view, &d) {
                                self.end_err = Some(format!("{e} (diff {d:?})"));
                            }
                        }
                    }
                }
                Poll::Ready(None) => {
                    self.end_done = true;
                    self.pending_at = None;
                    break;
                }
                Poll::Pending => {
                    self.pending_at = Some(self.wk.0.load(AO::SeqCst));
                    break;
                }
            }
        }
        Ok(n)
    }

    pub fn attach_next(&mut self, spec: Spec, as_adapter: bool, check_handed: bool) -> Result<(), String> {
        let mut end = self.end.take().unwrap();
        if end.0.is_pair() && self.polled {
            end.0.set_values(self.end_view.iter().copied().collect());
        }
        let log = Log::default();
        let stage = Stage { param: spec.initial_param(), spec, queue: Queue::default(), as_adapter };
        self.trace.push(format!("attach {:?} adapter={}", stage.spec, as_adapter));
        let (init, new_end) = attach(end, log.clone(), &stage);
        let handed = log.borrow().init.clone().unwrap();
        if check_handed && handed != self.end_view {
            return Err(format!(
                "stage {} handed {:?} to the next stage but its current view is {:?}",
                self.stages.len(),
                handed,
                self.end_view
            ));
        }
        self.taps.push(log);
        self.stages.push(stage);
        self.end_view = init;
        self.end = Some(new_end);
        self.polled = false;
        self.pending_at = None;
        Ok(())
    }

    pub fn check(&self) -> Outcome {
        for (k, st) in self.stages.iter().enumerate() {
            if st.spec.is_sort() && self.taps[k].borrow().saw_truncate {
                return Outcome::Taint;
            }
        }
        for (k, t) in self.taps.iter().enumerate() {
            let t = t.borrow();
            if let Some(e) = &t.err {
                return Outcome::Fail(format!("tap {k}: {e}"));
            }
            if t.empty_batch {
                return Outcome::Fail(format!("tap {k}: empty batch"));
            }
        }
        if let Some(e) = &self.end_err {
            return Outcome::Fail(format!("end: {e}"));
        }
        if let Some(e) = &self.src_tap.borrow().err {
            return Outcome::Fail(format!("source tap: {e}"));
        }
        if self.src_tap.borrow().view != self.src {
            return Outcome::Fail(format!(
                "source tap {:?} != source {:?}",
                self.src_tap.borrow().view,
                self.src
            ));
        }
        for (k, st) in self.stages.iter().enumerate() {
            let inp = self.taps[k].borrow().view.clone();
            let out =
                if k + 1 < self.taps.len() { self.taps[k + 1].borrow().view.clone() } else { self.end_view.clone() };
            if let Err(e) = check_stage(&st.spec, st.param, &inp, &out) {
                return Outcome::Fail(format!("stage {k} {:?}: {e}", st.spec));
            }
        }
        Outcome::Ok
    }

    pub fn source_ops(&mut self, rng: &mut Rng, n: usize, range: u32) {
        let ob = self.ob.as_mut().unwrap();
        let mut left = n;
        while left > 0 {
            if rng.chance(1, 4) {
                let m = 1 + rng.below(left.min(4));
                self.trace.push(format!("txn begin ({m})"));
                let mut txn = ob.transaction();
                for _ in 0..m {
                    do_op!(txn, rng, range, self.trace, self.no_trunc);
                }
                if rng.chance(1, 8) {
                    self.trace.push("txn rollback".into());
                    drop(txn);
                } else {
                    self.trace.push("txn commit".into());
                    txn.commit();
                }
                left -= m;
            } else {
                do_op!(ob, rng, range, self.trace, self.no_trunc);
                left -= 1;
            }
        }
        self.src = to_vec(ob);
    }

    pub fn push_limits(&mut self, rng: &mut Rng) {
        for k in 0..self.stages.len() {
            if !self.stages[k].spec.is_dynamic() || !rng.chance(1, 3) {
                continue;
            }
            let len = self.taps[k].borrow().view.len();
            let count = if rng.chance(1, 4) { 2 } else { 1 };
            for _ in 0..count {
                let mut new = match rng.below(10) {
                    9 => usize::MAX,
                    0 => 0,
                    1 => 1,
                    2 => 2,
                    3 => len.saturating_sub(1),
                    4 => len,
                    5 => len + 1,
                    6 => len + 5,
                    7 => 1000,
                    _ => rng.below(len + 3),
                };
                let st = &mut self.stages[k];
                let is_head = matches!(st.spec, Spec::DynHead | Spec::DynHeadInit(_));
                if self.no_trunc && is_head && new < st.param.unwrap() {
                    new = st.param.unwrap();
                }
                if st.spec.is_tail() {
                    // keep away from the known Tail::update_limit defect
                    let old = st.param.unwrap();
                    if old > len && len > new && new > 0 && std::env::var("NO_AVOID").is_err() {
                        new = 0;
                    }
                }
                self.trace.push(format!("stage {k} param := {new}"));
                st.param = Some(new);
                st.queue.push(new);
            }
        }
    }
}

pub fn run<C: Kind>(cfg: &Cfg) -> (Outcome, Vec<String>) {
    let mut rng = Rng::new(cfg.seed);
    let mut ch = Chain::<C>::new(cfg, &mut rng);
    let mut todo: VecDeque<Spec> = cfg.specs.iter().cloned().collect();
    macro_rules! bail {
        ($e:expr) => {
            return (Outcome::Fail($e), ch.trace)
        };
    }
    macro_rules! attach_one {
        ($check:expr) => {
            if let Some(spec) = todo.pop_front() {
                let ad = rng.chance(1, 2);
                if let Err(e) = ch.attach_next(spec, ad, $check) {
                    bail!(e);
                }
            }
        };
    }
    if !cfg.late_attach {
        while !todo.is_empty() {
            attach_one!(true);
        }
    }
    match ch.check() {
        Outcome::Ok => {}
        o => return (o, ch.trace),
    }
    for round in 0..cfg.rounds {
        ch.trace.push(format!("-- round {round}"));
        let mode = if cfg.late_attach && rng.chance(1, 3) { 1 + rng.below(3) } else { 0 };
        if mode == 1 {
            attach_one!(true);
        }
        if cfg.limits {
            ch.push_limits(&mut rng);
        }
        let n = 1 + rng.below(cfg.max_ops);
        ch.source_ops(&mut rng, n, cfg.val_range);
        if mode == 2 {
            attach_one!(true);
        }
        if mode == 3 {
            let pair_only = std::env::var("PARTIAL_PAIR_ONLY").is_ok();
            let is_pair = ch.end.as_ref().unwrap().0.is_pair();
            if cfg.partial && !C::BATCHED && (is_pair || !pair_only) {
                if let Err(e) = ch.drain(Some(1 + rng.below(2))) {
                    bail!(e);
                }
                attach_one!(false);
            } else {
                if let Err(e) = ch.drain(None) {
                    bail!(e);
                }
                attach_one!(true);
            }
        }
        if let Err(e) = ch.drain(None) {
            bail!(e);
        }
        match ch.check() {
            Outcome::Ok => {}
            o => return (o, ch.trace),
        }
    }
    while !todo.is_empty() {
        attach_one!(true);
    }
    if let Err(e) = ch.drain(None) {
        bail!(e);
    }
    match ch.check() {
        Outcome::Ok => {}
        o => return (o, ch.trace),
    }
    // close the source
    ch.trace.push("-- drop source".into());
    if rng.chance(1, 2) {
        // undrained updates (possibly lagging) followed by the close
        let n = 1 + rng.below(cfg.max_ops + 2);
        ch.source_ops(&mut rng, n, cfg.val_range);
    }
    ch.ob = None;
    if let Err(e) = ch.drain(None) {
        bail!(e);
    }
    if !ch.end_done {
        bail!("end stream not closed after the source was dropped".into());
    }
    (ch.check(), ch.trace)
}

// ---------------------------------------------------------------- campaigns

pub fn all_specs(rng: &mut Rng) -> Vec<Spec> {
    let n = |rng: &mut Rng| match rng.below(8) {
        0 => 0,
        1 => 1,
        2 => 2,
        3 => 3,
        4 => 5,
        5 => 64,
        6 => 70,
        _ => rng.below(12),
    };
    vec![
        Spec::Head(n(rng)),
        Spec::DynHead,
        Spec::DynHeadInit(n(rng)),
        Spec::Tail(n(rng)),
        Spec::DynTail,
        Spec::DynTailInit(n(rng)),
        Spec::Skip(n(rng)),
        Spec::DynSkip,
        Spec::DynSkipInit(n(rng)),
        Spec::Filter,
        Spec::FilterMap,
        Spec::Sort,
        Spec::SortBy,
        Spec::SortByKey,
    ]
}

pub fn random_cfg(seed: u64, partial: bool) -> Cfg {
    let mut rng = Rng::new(seed ^ 0xABCD_EF01);
    let depth = 1 + rng.below(3);
    let specs = (0..depth)
        .map(|_| {
            let all = all_specs(&mut rng);
            all[rng.below(all.len())].clone()
        })
        .collect();
    let specs: Vec<Spec> = specs;
    let no_trunc = specs.iter().any(|s| s.is_sort()) && rng.chance(3, 4);
    let (init_len, init_pops) = match rng.below(6) {
        0 => (0, 0),
        1 => (rng.below(6), 0),
        2 => (rng.below(12), 0),
        3 => (60 + rng.below(90), 0),
        4 => {
            let l = 70 + rng.below(130);
            (l, rng.below(l))
        }
        _ => (rng.below(20), rng.below(5)),
    };
    Cfg {
        seed,
        specs,
        capacity: [1, 2, 3, 4, 8, 16, 64][rng.below(7)],
        init_len,
        init_pops: init_pops.min(init_len),
        rounds: 4 + rng.below(30),
        max_ops: [1, 1, 2, 3, 6, 12][rng.below(6)],
        late_attach: rng.chance(1, 2),
        partial,
        val_range: [4, 8, 16, 40][rng.below(4)],
        limits: rng.chance(4, 5),
        no_trunc,
    }
}

pub struct Stats {
    pub ok: usize,
    pub taint: usize,
    pub fail: Vec<(Cfg, bool, String)>,
}

pub fn campaign(from: u64, to: u64, partial: bool) -> Stats {
    let mut st = Stats { ok: 0, taint: 0, fail: vec![] };
    for seed in from..to {
        let cfg = random_cfg(seed, partial);
        for batched in [false, true] {
            let c2 = cfg.clone();
            let r = std::panic::catch_unwind(move || {
                if batched {
                    run::<Vec<D>>(&c2).0
                } else {
                    run::<D>(&c2).0
                }
            });
            match r {
                Ok(Outcome::Ok) => st.ok += 1,
                Ok(Outcome::Taint) => st.taint += 1,
                Ok(Outcome::Fail(e)) => st.fail.push((cfg.clone(), batched, e)),
                Err(p) => {
                    let msg = p
                        .downcast_ref::<String>()
                        .cloned()
                        .or_else(|| p.downcast_ref::<&str>().map(|s| s.to_string()))
                        .unwrap_or_default();
                    st.fail.push((cfg.clone(), batched, format!("PANIC: {msg}")));
                }
            }
        }
    }
    st
}

fn report(st: &Stats) {
    eprintln!("ok={} taint={} fail={}", st.ok, st.taint, st.fail.len());
    let mut seen = std::collections::BTreeMap::<String, usize>::new();
    for (cfg, b, e) in &st.fail {
        let key: String = format!("{:?}|{}", cfg.specs, e.chars().take(40).collect::<String>());
        *seen.entry(key).or_default() += 1;
    }
    for (k, n) in seen.iter().take(40) {
        eprintln!("{n:5} x {k}");
    }
    // smallest failing
    if let Some((cfg, b, e)) =
        st.fail.iter().min_by_key(|(c, _, _)| (c.specs.len(), c.rounds * c.max_ops, c.init_len))
    {
        eprintln!("smallest: batched={b} {cfg:?}\n  {e}");
    }
}

fn env_u64(name: &str, def: u64) -> u64 {
    std::env::var(name).ok().and_then(|s| s.parse().ok()).unwrap_or(def)
}

#[test]
fn quiescent_campaign() {
    let st = campaign(env_u64("FROM", 0), env_u64("TO", 3000), false);
    report(&st);
    assert!(st.fail.is_empty());
}

#[test]
fn partial_campaign() {
    let st = campaign(env_u64("FROM", 0), env_u64("TO", 3000), true);
    report(&st);
    assert!(st.fail.is_empty());
}

#[test]
fn replay() {
    let seed = env_u64("SEED", u64::MAX);
    if seed == u64::MAX {
        return;
    }
    let cfg = random_cfg(seed, env_u64("PARTIAL", 0) == 1);
    eprintln!("{cfg:?}");
    let (o, trace) =
        if env_u64("BATCHED", 0) == 1 { run::<Vec<D>>(&cfg) } else { run::<D>(&cfg) };
    for l in &trace {
        eprintln!("{l}");
    }
    eprintln!("{o:?}");
}

// ---------------------------------------------------------------- threads

struct ParkWaker(std::thread::Thread);
impl Wake for ParkWaker {
    fn wake(self: Arc<Self>) {
        self.0.unpark();
    }
}

/// The writer runs on its own thread, concurrently with the polling of the
/// chain; the final views (after the source is dropped) are checked.
pub fn run_threaded<C: Kind>(cfg: &Cfg) -> Outcome {
    let mut rng = Rng::new(cfg.seed);
    let mut ch = Chain::<C>::new(cfg, &mut rng);
    for spec in cfg.specs.iter().cloned() {
        let ad = rng.chance(1, 2);
        if let Err(e) = ch.attach_next(spec, ad, true) {
            return Outcome::Fail(e);
        }
    }
    let mut ob = ch.ob.take().unwrap();
    let n_ops = cfg.rounds * cfg.max_ops;
    let range = cfg.val_range;
    let no_trunc = cfg.no_trunc;
    let mut wrng = Rng::new(cfg.seed ^ 0x5555);
    let writer = std::thread::spawn(move || {
        let mut trace = Vec::new();
        for i in 0..n_ops {
            do_op!(ob, wrng, range, trace, no_trunc);
            if i % 7 == 3 {
                std::thread::yield_now();
            }
        }
        let fin = to_vec(&ob);
        drop(ob);
        fin
    });
    let waker = Waker::from(Arc::new(ParkWaker(std::thread::current())));
    let mut cx = Context::from_waker(&waker);
    loop {
        match ch.end.as_mut().unwrap().0.poll(&mut cx) {
            Poll::Ready(Some(item)) => {
                for d in item.diffs() {
                    if ch.end_err.is_none() {
                        if let Err(e) = apply(&mut ch.end_view, &d) {
                            ch.end_err = Some(e);
                        }
                    }
                }
            }
            Poll::Ready(None) => break,
            Poll::Pending => std::thread::park_timeout(std::time::Duration::from_secs(5)),
        }
    }
    ch.src = writer.join().unwrap();
    ch.check()
}

#[test]
fn threaded_campaign() {
    let (mut ok, mut taint) = (0, 0);
    for seed in env_u64("FROM", 0)..env_u64("TO", 1500) {
        let mut cfg = random_cfg(seed, false);
        cfg.limits = false;
        for batched in [false, true] {
            let o = if batched { run_threaded::<Vec<D>>(&cfg) } else { run_threaded::<D>(&cfg) };
            match o {
                Outcome::Ok => ok += 1,
                Outcome::Taint => taint += 1,
                Outcome::Fail(e) => panic!("seed {seed} batched={batched} {cfg:?}: {e}"),
            }
        }
    }
    eprintln!("threaded ok={ok} taint={taint}");
}
