//! C12: a dynamic Head/Tail/Skip that is handed to the next adapter (used as a
//! `VectorObserver` itself) while it still holds already-computed diffs in its
//! `ready_values` buffer hands over initial values that already contain those
//! diffs *and* then emits the diffs again: the next stage sees them twice.
#![allow(missing_docs)]

use eyeball_im::{ObservableVector, Vector, VectorDiff};
use eyeball_im_util::vector::VectorObserverExt;
use futures_util::{stream, FutureExt};
use imbl::vector;
use stream_assert::assert_next_eq;

/// Apply everything that is ready on `sub` to `view`.
fn drain<S>(view: &mut Vector<u32>, sub: &mut S)
where
    S: futures_util::Stream<Item = VectorDiff<u32>> + Unpin,
{
    use futures_util::StreamExt as _;
    while let Some(Some(diff)) = sub.next().now_or_never() {
        diff.apply(view);
    }
}

#[test]
fn head_handed_over_between_two_diffs_of_one_update() {
    let mut ob = ObservableVector::<u32>::new();
    ob.append(vector![1, 2, 3]);

    let (mut view, mut head) =
        ob.subscribe().dynamic_head_with_initial_value(2, stream::pending::<usize>());
    assert_eq!(view, vector![1, 2]);

    // One source update, two diffs out of `Head`.
    ob.push_front(0);
    assert_next_eq!(head, VectorDiff::PopBack);
    VectorDiff::PopBack.apply(&mut view);
    assert_eq!(view, vector![1]); // what the consumer has seen so far

    // Now stack another adapter (a no-op `head(10)`) on top of the adapter itself.
    let (mut view, mut sub) = head.head(10);
    drain(&mut view, &mut sub);

    // head(2) of [0, 1, 2, 3]
    assert_eq!(view, vector![0, 1]); // actual: [0, 0, 1]
}

#[test]
fn tail_handed_over_between_two_diffs_of_one_update() {
    let mut ob = ObservableVector::<u32>::new();
    ob.append(vector![1, 2, 3]);

    let (view, mut tail) =
        ob.subscribe().dynamic_tail_with_initial_value(2, stream::pending::<usize>());
    assert_eq!(view, vector![2, 3]);

    ob.push_back(4);
    assert_next_eq!(tail, VectorDiff::PopFront);

    let (mut view, mut sub) = tail.head(10);
    drain(&mut view, &mut sub);

    // tail(2) of [1, 2, 3, 4]
    assert_eq!(view, vector![3, 4]); // actual: [3, 4, 4]
}

#[test]
fn skip_handed_over_between_two_diffs_of_one_count_update() {
    let mut ob = ObservableVector::<u32>::new();
    ob.append(vector![1, 2, 3, 4]);

    let (view, mut skip) =
        ob.subscribe().dynamic_skip_with_initial_count(3, stream::iter([1usize]));
    assert_eq!(view, vector![4]);

    // The count goes from 3 to 1: two `PushFront`s.
    assert_next_eq!(skip, VectorDiff::PushFront { value: 3 });

    let (mut view, mut sub) = skip.head(10);
    drain(&mut view, &mut sub);

    // skip(1) of [1, 2, 3, 4]
    assert_eq!(view, vector![2, 3, 4]); // actual: [2, 2, 3, 4]
}
