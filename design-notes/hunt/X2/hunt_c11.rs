//! Model-based hunt harness for property C11 (Sort / SortBy / SortByKey).
#![allow(missing_docs, clippy::type_complexity)]

use std::{
    cell::RefCell,
    cmp::Ordering,
    panic::{catch_unwind, AssertUnwindSafe},
    pin::Pin,
    rc::Rc,
    sync::{
        atomic::{AtomicUsize, Ordering as AO},
        Arc,
    },
    task::{Context, Poll, Wake, Waker},
};

use eyeball_im::{ObservableVector, VectorDiff};
use eyeball_im_util::vector::{
    VectorDiffContainer, VectorObserver, VectorObserverExt, VectorSubscriberExt,
};
use futures_core::Stream;
use imbl::Vector;

type It = (u8, u32);

// ---------------------------------------------------------------- rng

struct Rng(u64);
impl Rng {
    fn next(&mut self) -> u64 {
        let mut x = self.0;
        x ^= x >> 12;
        x ^= x << 25;
        x ^= x >> 27;
        self.0 = x;
        x.wrapping_mul(0x2545F4914F6CDD1D)
    }
    fn below(&mut self, n: usize) -> usize {
        (self.next() % n as u64) as usize
    }
    fn chance(&mut self, num: usize, den: usize) -> bool {
        self.below(den) < num
    }
}

// ---------------------------------------------------------------- config

#[derive(Clone, Copy, Debug, PartialEq)]
enum Flavor {
    Sort,
    SortBy,
    SortByKey,
}

#[derive(Clone, Copy, Debug, PartialEq)]
enum Chain {
    None,
    Head(usize),
    Tail(usize),
    Skip(usize),
    Filter(u32),
    SortAgain,
}

#[derive(Clone, Copy, Debug)]
struct Cfg {
    flavor: Flavor,
    batched: bool,
    pre: Chain,
    chain: Chain,
    capacity: usize,
    drain_every: bool,
}

fn cmp1(flavor: Flavor, a: &It, b: &It) -> Ordering {
    match flavor {
        Flavor::Sort => a.cmp(b),
        Flavor::SortBy => b.0.cmp(&a.0),
        Flavor::SortByKey => a.0.cmp(&b.0),
    }
}

fn cmp2(a: &It, b: &It) -> Ordering {
    // second-level comparator for SortAgain: by id parity then reverse key
    (a.1 % 2).cmp(&(b.1 % 2)).then(b.0.cmp(&a.0))
}

fn chain_pred(m: u32, x: &It) -> bool {
    (x.0 as u32 + x.1) % m != 0
}

// ---------------------------------------------------------------- ops

#[derive(Clone, Debug)]
enum Op {
    Append(Vec<It>),
    Clear,
    PushFront(It),
    PushBack(It),
    PopFront,
    PopBack,
    Insert(usize, It),
    Set(usize, It),
    Remove(usize),
    Truncate(usize),
    Tx(Vec<Op>, bool),
    Drain,
}

static TAINTED: AtomicUsize = AtomicUsize::new(0);
static KINDS: [AtomicUsize; 11] = [const { AtomicUsize::new(0) }; 11];
const KIND_NAMES: [&str; 11] = [
    "Append", "Clear", "PushFront", "PushBack", "PopFront", "PopBack", "Insert", "Set", "Remove",
    "Truncate", "Reset",
];
fn kind(d: &VectorDiff<It>) -> usize {
    match d {
        VectorDiff::Append { .. } => 0,
        VectorDiff::Clear => 1,
        VectorDiff::PushFront { .. } => 2,
        VectorDiff::PushBack { .. } => 3,
        VectorDiff::PopFront => 4,
        VectorDiff::PopBack => 5,
        VectorDiff::Insert { .. } => 6,
        VectorDiff::Set { .. } => 7,
        VectorDiff::Remove { .. } => 8,
        VectorDiff::Truncate { .. } => 9,
        VectorDiff::Reset { .. } => 10,
    }
}
fn print_kinds() {
    let v: Vec<String> = KIND_NAMES
        .iter()
        .zip(&KINDS)
        .map(|(n, c)| format!("{n}={}", c.load(AO::Relaxed)))
        .collect();
    eprintln!("tainted (skipped) runs: {}", TAINTED.load(AO::Relaxed));
    eprintln!("diff kinds emitted by the sort stage so far: {}", v.join(" "));
}

fn trunc_ok(cfg: &Cfg, m: &[It], len: usize) -> bool {
    if len >= m.len() || std::env::var_os("HUNT_NO_TRUNC_GUARD").is_some() {
        return true;
    }
    let m_pre = match cfg.pre {
        Chain::None => 1,
        Chain::Filter(m) => m,
        // other upstream stages: rely on the taint detection in `PreTee`
        _ => return true,
    };
    let filt = |s: &[It]| -> Vec<It> {
        s.iter().copied().filter(|x| m_pre == 1 || chain_pred(m_pre, x)).collect()
    };
    let keep = filt(&m[..len]);
    let cut = filt(&m[len..]);
    if cut.is_empty() || keep.is_empty() {
        return true;
    }
    if cfg.chain == Chain::SortAgain {
        return false;
    }
    for k in &keep {
        for c in &cut {
            match cmp1(cfg.flavor, c, k) {
                Ordering::Greater => {}
                Ordering::Equal if c == k => {}
                _ => return false,
            }
        }
    }
    true
}

/// Returns true when the (simple) op is valid on the model; applies it.
fn model_apply(cfg: &Cfg, m: &mut Vec<It>, op: &Op) -> bool {
    match op {
        Op::Append(v) => {
            if v.is_empty() {
                return false;
            }
            m.extend_from_slice(v)
        }
        Op::Clear => m.clear(),
        Op::PushFront(x) => m.insert(0, *x),
        Op::PushBack(x) => m.push(*x),
        Op::PopFront => {
            if m.is_empty() {
                return false;
            }
            m.remove(0);
        }
        Op::PopBack => {
            if m.pop().is_none() {
                return false;
            }
        }
        Op::Insert(i, x) => {
            if *i > m.len() {
                return false;
            }
            m.insert(*i, *x)
        }
        Op::Set(i, x) => {
            if *i >= m.len() {
                return false;
            }
            m[*i] = *x
        }
        Op::Remove(i) => {
            if *i >= m.len() {
                return false;
            }
            m.remove(*i);
        }
        Op::Truncate(l) => {
            if !trunc_ok(cfg, m, *l) {
                return false;
            }
            m.truncate(*l)
        }
        Op::Tx(..) | Op::Drain => unreachable!(),
    }
    true
}

macro_rules! apply_real {
    ($t:expr, $op:expr) => {
        match $op {
            Op::Append(v) => $t.append(v.iter().copied().collect::<Vector<It>>()),
            Op::Clear => $t.clear(),
            Op::PushFront(x) => $t.push_front(*x),
            Op::PushBack(x) => $t.push_back(*x),
            Op::PopFront => {
                $t.pop_front();
            }
            Op::PopBack => {
                $t.pop_back();
            }
            Op::Insert(i, x) => $t.insert(*i, *x),
            Op::Set(i, x) => {
                $t.set(*i, *x);
            }
            Op::Remove(i) => {
                $t.remove(*i);
            }
            Op::Truncate(l) => $t.truncate(*l),
            Op::Tx(..) | Op::Drain => unreachable!(),
        }
    };
}

// ---------------------------------------------------------------- strict apply

fn apply_strict(v: &mut Vec<It>, d: VectorDiff<It>) -> Result<(), String> {
    let len = v.len();
    match d {
        VectorDiff::Append { values } => {
            if values.is_empty() {
                return Err("empty Append".into());
            }
            v.extend(values)
        }
        VectorDiff::Clear => v.clear(),
        VectorDiff::PushFront { value } => v.insert(0, value),
        VectorDiff::PushBack { value } => v.push(value),
        VectorDiff::PopFront => {
            if len == 0 {
                return Err("PopFront on empty view".into());
            }
            v.remove(0);
        }
        VectorDiff::PopBack => {
            if len == 0 {
                return Err("PopBack on empty view".into());
            }
            v.pop();
        }
        VectorDiff::Insert { index, value } => {
            if index > len {
                return Err(format!("Insert {index} > len {len}"));
            }
            v.insert(index, value)
        }
        VectorDiff::Set { index, value } => {
            if index >= len {
                return Err(format!("Set {index} >= len {len}"));
            }
            v[index] = value
        }
        VectorDiff::Remove { index } => {
            if index >= len {
                return Err(format!("Remove {index} >= len {len}"));
            }
            v.remove(index);
        }
        VectorDiff::Truncate { length } => {
            if length > len {
                return Err(format!("Truncate {length} > len {len}"));
            }
            v.truncate(length)
        }
        VectorDiff::Reset { values } => *v = values.into_iter().collect(),
    }
    Ok(())
}

// ---------------------------------------------------------------- plumbing

trait IntoDiffs {
    fn into_diffs(self) -> Vec<VectorDiff<It>>;
}
impl IntoDiffs for VectorDiff<It> {
    fn into_diffs(self) -> Vec<VectorDiff<It>> {
        vec![self]
    }
}
impl IntoDiffs for Vec<VectorDiff<It>> {
    fn into_diffs(self) -> Vec<VectorDiff<It>> {
        assert!(!self.is_empty(), "empty batch emitted");
        self
    }
}

struct CountWaker(AtomicUsize);
impl Wake for CountWaker {
    fn wake(self: Arc<Self>) {
        self.0.fetch_add(1, AO::SeqCst);
    }
}

type Poller = Box<dyn FnMut() -> Poll<Option<Vec<VectorDiff<It>>>>>;

struct Shadow {
    view: Vec<It>,
    err: Option<String>,
    /// A Truncate reached the sort stage that cuts items which are not the sorted tail (the
    /// known, excluded defect): the rest of this run is meaningless.
    tainted: bool,
}

/// Records what goes INTO the sort stage.
struct PreTee<S> {
    inner: Pin<Box<S>>,
    shadow: Rc<RefCell<Shadow>>,
    cfg: Cfg,
}

impl<S> Stream for PreTee<S>
where
    S: Stream,
    S::Item: IntoDiffs + Clone,
{
    type Item = S::Item;
    fn poll_next(mut self: Pin<&mut Self>, cx: &mut Context<'_>) -> Poll<Option<S::Item>> {
        let r = self.inner.as_mut().poll_next(cx);
        if let Poll::Ready(Some(item)) = &r {
            let mut sh = self.shadow.borrow_mut();
            for d in item.clone().into_diffs() {
                let dbg = format!("{d:?}");
                if let VectorDiff::Truncate { length } = &d {
                    let c = Cfg { pre: Chain::None, ..self.cfg };
                    if !trunc_ok(&c, &sh.view, *length) {
                        sh.tainted = true;
                    }
                }
                if let Err(e) = apply_strict(&mut sh.view, d) {
                    if sh.err.is_none() {
                        sh.err = Some(format!("upstream emitted inapplicable diff {dbg}: {e}"));
                    }
                }
            }
        }
        r
    }
}

struct Tee<S> {
    inner: Pin<Box<S>>,
    shadow: Rc<RefCell<Shadow>>,
}

impl<S> Stream for Tee<S>
where
    S: Stream,
    S::Item: IntoDiffs + Clone,
{
    type Item = S::Item;
    fn poll_next(mut self: Pin<&mut Self>, cx: &mut Context<'_>) -> Poll<Option<S::Item>> {
        let r = self.inner.as_mut().poll_next(cx);
        if let Poll::Ready(Some(item)) = &r {
            let mut sh = self.shadow.borrow_mut();
            for d in item.clone().into_diffs() {
                let dbg = format!("{d:?}");
                KINDS[kind(&d)].fetch_add(1, AO::Relaxed);
                if let Err(e) = apply_strict(&mut sh.view, d) {
                    if sh.err.is_none() {
                        sh.err = Some(format!("sort emitted inapplicable diff {dbg}: {e}"));
                    }
                }
            }
        }
        r
    }
}

struct Built {
    pre: Rc<RefCell<Shadow>>,
    shadow: Rc<RefCell<Shadow>>,
    fin: Vec<It>,
    poll: Poller,
    wakes: Arc<CountWaker>,
}

fn fin<S>(
    (init, s): (Vector<It>, S),
    shadow: Rc<RefCell<Shadow>>,
    pre: Rc<RefCell<Shadow>>,
) -> Built
where
    S: Stream + 'static,
    S::Item: IntoDiffs,
{
    let wakes = Arc::new(CountWaker(AtomicUsize::new(0)));
    let waker = Waker::from(wakes.clone());
    let mut s = Box::pin(s);
    let poll: Poller = Box::new(move || {
        let mut cx = Context::from_waker(&waker);
        s.as_mut().poll_next(&mut cx).map(|o| o.map(IntoDiffs::into_diffs))
    });
    Built { pre, shadow, fin: init.into_iter().collect(), poll, wakes }
}

fn build4<S>((init, stream): (Vector<It>, S), cfg: &Cfg, pre: Rc<RefCell<Shadow>>) -> Built
where
    S: Stream + 'static,
    S::Item: VectorDiffContainer<Element = It> + IntoDiffs + Clone,
{
    let shadow = Rc::new(RefCell::new(Shadow { view: init.iter().copied().collect(), err: None, tainted: false }));
    let tee = Tee { inner: Box::pin(stream), shadow: shadow.clone() };
    let o = (init, tee);
    match cfg.chain {
        Chain::None => fin(o, shadow, pre),
        Chain::Head(n) => fin(o.head(n), shadow, pre),
        Chain::Tail(n) => fin(o.tail(n), shadow, pre),
        Chain::Skip(n) => fin(o.skip(n), shadow, pre),
        Chain::Filter(m) => fin(o.filter(move |x| chain_pred(m, x)), shadow, pre),
        Chain::SortAgain => fin(o.sort_by(cmp2), shadow, pre),
    }
}

fn build3<O>(o: O, cfg: &Cfg) -> Built
where
    O: VectorObserver<It>,
    O::Stream: 'static,
    <O::Stream as Stream>::Item: VectorDiffContainer<Element = It> + IntoDiffs + Clone,
{
    let (init, stream) = o.into_parts();
    let pre = Rc::new(RefCell::new(Shadow {
        view: init.iter().copied().collect(),
        err: None,
        tainted: false,
    }));
    let o = (init, PreTee { inner: Box::pin(stream), shadow: pre.clone(), cfg: *cfg });
    match cfg.flavor {
        Flavor::Sort => build4(o.sort(), cfg, pre),
        Flavor::SortBy => build4(o.sort_by(|a: &It, b: &It| b.0.cmp(&a.0)), cfg, pre),
        Flavor::SortByKey => build4(o.sort_by_key(|a: &It| a.0), cfg, pre),
    }
}

fn build2<O>(o: O, cfg: &Cfg) -> Built
where
    O: VectorObserver<It>,
    O::Stream: 'static,
    <O::Stream as Stream>::Item: VectorDiffContainer<Element = It> + IntoDiffs + Clone,
{
    match cfg.pre {
        Chain::None => build3(o, cfg),
        Chain::Head(n) => build3(o.head(n), cfg),
        Chain::Tail(n) => build3(o.tail(n), cfg),
        Chain::Skip(n) => build3(o.skip(n), cfg),
        Chain::Filter(m) => build3(o.filter(move |x| chain_pred(m, x)), cfg),
        Chain::SortAgain => build3(o.sort_by(cmp2), cfg),
    }
}

fn build(ob: &ObservableVector<It>, cfg: &Cfg) -> Built {
    if cfg.batched {
        build2(ob.subscribe().batched(), cfg)
    } else {
        build2(ob.subscribe(), cfg)
    }
}

// ---------------------------------------------------------------- checking

fn sorted_multiset(v: &[It]) -> Vec<It> {
    let mut v = v.to_vec();
    v.sort();
    v
}

fn check(cfg: &Cfg, b: &Built, model: &[It]) -> Result<(), String> {
    let sh = b.shadow.borrow();
    if let Some(e) = &sh.err {
        return Err(e.clone());
    }
    let pre = b.pre.borrow();
    if let Some(e) = &pre.err {
        return Err(e.clone());
    }
    if pre.tainted {
        return Err("TAINTED".into());
    }
    {
        let n = model.len();
        let exp: Option<Vec<It>> = match cfg.pre {
            Chain::None => Some(model.to_vec()),
            Chain::Head(k) => Some(model[..k.min(n)].to_vec()),
            Chain::Tail(k) => Some(model[n - k.min(n)..].to_vec()),
            Chain::Skip(k) => Some(model[k.min(n)..].to_vec()),
            Chain::Filter(m) => Some(model.iter().copied().filter(|x| chain_pred(m, x)).collect()),
            Chain::SortAgain => None,
        };
        if let Some(exp) = exp {
            if exp != pre.view {
                return Err(format!("UPSTREAM stage view mismatch: {:?} expected {:?}", pre.view, exp));
            }
        }
    }
    let src: Vec<It> = pre.view.clone();
    if sorted_multiset(&sh.view) != sorted_multiset(&src) {
        return Err(format!("multiset mismatch: view {:?} source {:?}", sh.view, src));
    }
    for w in sh.view.windows(2) {
        if cmp1(cfg.flavor, &w[0], &w[1]) == Ordering::Greater {
            return Err(format!("view not sorted: {:?}", sh.view));
        }
    }
    let v = &sh.view;
    let n = v.len();
    let expected: Option<Vec<It>> = match cfg.chain {
        Chain::None => Some(v.clone()),
        Chain::Head(k) => Some(v[..k.min(n)].to_vec()),
        Chain::Tail(k) => Some(v[n - k.min(n)..].to_vec()),
        Chain::Skip(k) => Some(v[k.min(n)..].to_vec()),
        Chain::Filter(m) => Some(v.iter().copied().filter(|x| chain_pred(m, x)).collect()),
        Chain::SortAgain => None,
    };
    match expected {
        Some(e) => {
            if e != b.fin {
                return Err(format!(
                    "chained view mismatch: got {:?} expected {:?} (sort view {:?})",
                    b.fin, e, v
                ));
            }
        }
        None => {
            if sorted_multiset(&b.fin) != sorted_multiset(v) {
                return Err(format!("2nd sort multiset mismatch: {:?} vs {:?}", b.fin, v));
            }
            for w in b.fin.windows(2) {
                if cmp2(&w[0], &w[1]) == Ordering::Greater {
                    return Err(format!("2nd sort not sorted: {:?}", b.fin));
                }
            }
        }
    }
    Ok(())
}

fn drain(cfg: &Cfg, b: &mut Built, model: &[It], expect_end: bool) -> Result<(), String> {
    let mut n = 0;
    loop {
        n += 1;
        if n > 1_000_000 {
            return Err("drain does not terminate".into());
        }
        match (b.poll)() {
            Poll::Ready(Some(diffs)) => {
                for d in diffs {
                    let dbg = format!("{d:?}");
                    apply_strict(&mut b.fin, d)
                        .map_err(|e| format!("final stage emitted inapplicable {dbg}: {e}"))?;
                }
            }
            Poll::Ready(None) => {
                if !expect_end {
                    return Err("stream ended while source alive".into());
                }
                return check(cfg, b, model);
            }
            Poll::Pending => {
                if expect_end {
                    return Err("stream Pending after source dropped".into());
                }
                return check(cfg, b, model);
            }
        }
    }
}

fn run_inner(cfg: &Cfg, initial: &[It], pops: usize, ops: &[Op]) -> Result<(), String> {
    let mut ob = ObservableVector::<It>::with_capacity(cfg.capacity);
    for _ in 0..pops {
        ob.push_back((0, 0));
    }
    for x in initial {
        ob.push_back(*x);
    }
    for _ in 0..pops {
        ob.pop_front();
    }
    let mut model = initial.to_vec();
    let mut b = build(&ob, cfg);
    drain(cfg, &mut b, &model, false)?;

    for (i, op) in ops.iter().enumerate() {
        let wakes_before = b.wakes.0.load(AO::SeqCst);
        let _ = wakes_before;
        match op {
            Op::Drain => drain(cfg, &mut b, &model, false).map_err(|e| format!("op#{i}: {e}"))?,
            Op::Tx(inner, commit) => {
                let mut m2 = model.clone();
                let mut tx = ob.transaction();
                for o in inner {
                    if matches!(o, Op::Tx(..) | Op::Drain) {
                        continue;
                    }
                    if model_apply(cfg, &mut m2, o) {
                        apply_real!(tx, o);
                    }
                }
                if *commit {
                    tx.commit();
                    model = m2;
                } else {
                    drop(tx);
                }
            }
            o => {
                if model_apply(cfg, &mut model, o) {
                    apply_real!(ob, o);
                }
            }
        }
        assert_eq!(ob.iter().copied().collect::<Vec<_>>(), model, "harness model diverged");
        if cfg.drain_every {
            drain(cfg, &mut b, &model, false).map_err(|e| format!("op#{i} {op:?}: {e}"))?;
        }
    }
    drain(cfg, &mut b, &model, false).map_err(|e| format!("final: {e}"))?;
    drop(ob);
    drain(cfg, &mut b, &model, true).map_err(|e| format!("after drop: {e}"))?;
    // fused-ness is not required, but a second poll must not panic / yield items
    Ok(())
}

fn run(cfg: &Cfg, initial: &[It], pops: usize, ops: &[Op]) -> Result<(), String> {
    match catch_unwind(AssertUnwindSafe(|| run_inner(cfg, initial, pops, ops))) {
        Ok(Err(e)) if e.ends_with("TAINTED") => {
            TAINTED.fetch_add(1, AO::Relaxed);
            Ok(())
        }
        Ok(r) => r,
        Err(p) => {
            let msg = p
                .downcast_ref::<String>()
                .cloned()
                .or_else(|| p.downcast_ref::<&str>().map(|s| s.to_string()))
                .unwrap_or_else(|| "?".into());
            Err(format!("PANIC: {msg}"))
        }
    }
}

// ---------------------------------------------------------------- shrinking

fn shrink(cfg: &Cfg, initial: &mut Vec<It>, pops: &mut usize, ops: &mut Vec<Op>) {
    loop {
        let mut progress = false;
        if *pops > 0 && run(cfg, initial, 0, ops).is_err() {
            *pops = 0;
            progress = true;
        }
        let mut i = 0;
        while i < ops.len() {
            let mut c = ops.clone();
            c.remove(i);
            if run(cfg, initial, *pops, &c).is_err() {
                *ops = c;
                progress = true;
            } else {
                // try shrinking inside a tx
                if let Op::Tx(inner, commit) = ops[i].clone() {
                    let mut j = 0;
                    let mut inner = inner;
                    while j < inner.len() {
                        let mut ci = inner.clone();
                        ci.remove(j);
                        let mut c = ops.clone();
                        c[i] = Op::Tx(ci.clone(), commit);
                        if run(cfg, initial, *pops, &c).is_err() {
                            inner = ci;
                            *ops = c;
                            progress = true;
                        } else {
                            j += 1;
                        }
                    }
                }
                i += 1;
            }
        }
        let mut i = 0;
        while i < initial.len() {
            let mut c = initial.clone();
            c.remove(i);
            if run(cfg, &c, *pops, ops).is_err() {
                *initial = c;
                progress = true;
            } else {
                i += 1;
            }
        }
        if !progress {
            break;
        }
    }
}

// ---------------------------------------------------------------- generation

struct Gen {
    rng: Rng,
    next_id: u32,
    keys: usize,
    ids: bool,
}

impl Gen {
    fn item(&mut self) -> It {
        let k = self.rng.below(self.keys) as u8;
        self.item_k(k)
    }
    fn item_k(&mut self, k: u8) -> It {
        if self.ids {
            self.next_id += 1;
            (k, self.next_id)
        } else {
            (k, 0)
        }
    }
    fn extreme(&mut self) -> It {
        let k = if self.rng.chance(1, 2) { 0 } else { (self.keys - 1) as u8 };
        self.item_k(k)
    }

    fn simple_op(&mut self, cfg: &Cfg, m: &[It]) -> Op {
        let len = m.len();
        let r = self.rng.below(100);
        match r {
            0..=7 => {
                let big = self.rng.chance(1, 5);
                let n = 1 + self.rng.below(if big { 70 } else { 5 });
                Op::Append((0..n).map(|_| self.item()).collect())
            }
            8 => Op::Clear,
            9..=15 => Op::PushFront(self.item()),
            16..=22 => Op::PushBack(self.item()),
            23..=27 => Op::PopFront,
            28..=32 => Op::PopBack,
            33..=44 => Op::Insert(self.rng.below(len + 1), self.item()),
            45..=56 if len > 0 => Op::Set(self.rng.below(len), self.item()),
            57..=64 if len > 0 => {
                // far moves: set first/last/min/max position to an extreme key
                let idx = match self.rng.below(4) {
                    0 => 0,
                    1 => len - 1,
                    2 => {
                        (0..len).min_by(|&a, &b| cmp1(cfg.flavor, &m[a], &m[b])).unwrap()
                    }
                    _ => (0..len).max_by(|&a, &b| cmp1(cfg.flavor, &m[a], &m[b])).unwrap(),
                };
                Op::Set(idx, self.extreme())
            }
            65..=74 if len > 0 => Op::Remove(self.rng.below(len)),
            75..=82 if len > 0 => {
                // remove current min or max (consumes the sorted buffer from an end)
                let idx = if self.rng.chance(2, 3) {
                    (0..len).min_by(|&a, &b| cmp1(cfg.flavor, &m[a], &m[b])).unwrap()
                } else {
                    (0..len).max_by(|&a, &b| cmp1(cfg.flavor, &m[a], &m[b])).unwrap()
                };
                Op::Remove(idx)
            }
            83..=90 => {
                // truncate: try a few lengths for a consistent one
                for _ in 0..6 {
                    let l = self.rng.below(len + 2);
                    if trunc_ok(cfg, m, l) {
                        return Op::Truncate(l);
                    }
                }
                Op::Truncate(0)
            }
            _ => Op::PushBack(self.extreme()),
        }
    }

    fn history(&mut self, cfg: &Cfg, initial: &[It], nops: usize, drain_p: usize) -> Vec<Op> {
        let mut m = initial.to_vec();
        let mut ops = Vec::new();
        while ops.len() < nops {
            if self.rng.chance(drain_p, 100) {
                ops.push(Op::Drain);
                continue;
            }
            if self.rng.chance(12, 100) {
                let n = self.rng.below(7);
                let commit = self.rng.chance(4, 5);
                let mut m2 = m.clone();
                let mut inner = Vec::new();
                let same_idx = self.rng.chance(1, 3);
                let idx = if m2.is_empty() { 0 } else { self.rng.below(m2.len()) };
                for _ in 0..n {
                    let o = if same_idx && !m2.is_empty() {
                        let idx = idx.min(m2.len() - 1);
                        match self.rng.below(3) {
                            0 => Op::Set(idx, self.item()),
                            1 => Op::Remove(idx),
                            _ => Op::Insert(idx, self.item()),
                        }
                    } else {
                        self.simple_op(cfg, &m2)
                    };
                    model_apply(cfg, &mut m2, &o);
                    inner.push(o);
                }
                if commit {
                    m = m2;
                }
                ops.push(Op::Tx(inner, commit));
                continue;
            }
            let o = self.simple_op(cfg, &m);
            model_apply(cfg, &mut m, &o);
            ops.push(o);
        }
        ops
    }
}

fn report(cfg: &Cfg, initial: &[It], pops: usize, ops: &[Op], err: &str) -> String {
    let mut i = initial.to_vec();
    let mut p = pops;
    let mut o = ops.to_vec();
    shrink(cfg, &mut i, &mut p, &mut o);
    let e2 = run(cfg, &i, p, &o).err().unwrap_or_default();
    format!(
        "FAIL {cfg:?}\n original error: {err}\n shrunk initial: {i:?}\n pops: {p}\n ops: {o:#?}\n error: {e2}"
    )
}

fn random_cfg(rng: &mut Rng) -> Cfg {
    let flavor = [Flavor::Sort, Flavor::SortBy, Flavor::SortByKey][rng.below(3)];
    let chain = match rng.below(12) {
        0 => Chain::Head(rng.below(8)),
        1 => Chain::Head(rng.below(100)),
        2 => Chain::Tail(rng.below(8)),
        3 => Chain::Tail(rng.below(100)),
        4 => Chain::Skip(rng.below(8)),
        5 => Chain::Skip(rng.below(100)),
        6 => Chain::Filter(2 + rng.below(3) as u32),
        7 => Chain::SortAgain,
        _ => Chain::None,
    };
    Cfg {
        flavor,
        batched: rng.chance(1, 2),
        pre: match (rng.below(14), { let c = rng.chance(1, 2); rng.below(if c { 8 } else { 100 }) }) {
            (0, _) => Chain::Filter(2 + rng.below(3) as u32),
            (1, lim) => Chain::Head(lim),
            (2, lim) => Chain::Tail(lim),
            (3, lim) => Chain::Skip(lim),
            (4, _) => Chain::SortAgain,
            _ => Chain::None,
        },
        chain,
        capacity: [1, 2, 3, 4, 8, 32, 200][rng.below(7)],
        drain_every: rng.chance(1, 4),
    }
}

fn random_round(seed: u64, big: bool) -> Result<(), String> {
    let mut rng = Rng(seed.wrapping_mul(0x9E3779B97F4A7C15) | 1);
    for _ in 0..4 {
        rng.next();
    }
    let cfg = random_cfg(&mut rng);
    let keys = [1, 2, 3, 3, 8, 8, 200][rng.below(7)];
    let mut g = Gen { rng, next_id: 0, keys, ids: cfg.flavor != Flavor::Sort || false };
    // With the Sort flavour half of the runs use ids too (no ties at all, full Ord).
    if cfg.flavor == Flavor::Sort && g.rng.chance(1, 2) {
        g.ids = true;
    }
    let n0 = if big {
        match g.rng.below(4) {
            0 => 60 + g.rng.below(10),
            1 => 120 + g.rng.below(20),
            2 => 30 + g.rng.below(200),
            _ => 64,
        }
    } else {
        {
            let c = g.rng.chance(1, 2);
            g.rng.below(if c { 6 } else { 20 })
        }
    };
    let pops = if g.rng.chance(1, 2) {
        if big {
            1 + g.rng.below(130)
        } else {
            g.rng.below(5)
        }
    } else {
        0
    };
    let initial: Vec<It> = (0..n0).map(|_| g.item()).collect();
    let nops = if big { 20 + g.rng.below(150) } else { 3 + g.rng.below(50) };
    let drain_p = [0, 5, 20, 50][g.rng.below(4)];
    let ops = g.history(&cfg, &initial, nops, drain_p);
    match run(&cfg, &initial, pops, &ops) {
        Ok(()) => Ok(()),
        Err(e) => Err(format!("seed {seed} big {big}\n{}", report(&cfg, &initial, pops, &ops, &e))),
    }
}

fn env_usize(name: &str, default: usize) -> usize {
    std::env::var(name).ok().and_then(|s| s.parse().ok()).unwrap_or(default)
}

#[test]
fn random_small() {
    let n = env_usize("HUNT_N", 20_000);
    let base = env_usize("HUNT_SEED", 1);
    let mut fails = 0;
    for s in 0..n {
        if let Err(e) = random_round((base * 1_000_003 + s) as u64, false) {
            eprintln!("{e}\n");
            fails += 1;
            if fails >= 3 {
                break;
            }
        }
    }
    print_kinds();
    assert_eq!(fails, 0);
}

#[test]
fn random_big() {
    let n = env_usize("HUNT_N", 20_000) / 10;
    let base = env_usize("HUNT_SEED", 1);
    let mut fails = 0;
    for s in 0..n {
        if let Err(e) = random_round((base * 7_000_003 + s) as u64, true) {
            eprintln!("{e}\n");
            fails += 1;
            if fails >= 3 {
                break;
            }
        }
    }
    print_kinds();
    assert_eq!(fails, 0);
}

// ---------------------------------------------------------------- exhaustive small scope

fn all_simple_ops(len: usize, keys: u8, with_append: bool, out: &mut Vec<Op>) {
    out.clear();
    // ids are patched later
    for k in 0..keys {
        out.push(Op::PushFront((k, 0)));
        out.push(Op::PushBack((k, 0)));
        for i in 0..=len {
            out.push(Op::Insert(i, (k, 0)));
        }
        for i in 0..len {
            out.push(Op::Set(i, (k, 0)));
        }
    }
    for i in 0..len {
        out.push(Op::Remove(i));
        out.push(Op::Truncate(i));
    }
    if len > 0 {
        out.push(Op::PopFront);
        out.push(Op::PopBack);
    }
    out.push(Op::Clear);
    if with_append {
        for a in 0..keys {
            out.push(Op::Append(vec![(a, 0)]));
            for b in 0..keys {
                out.push(Op::Append(vec![(a, 0), (b, 0)]));
                if a != b {
                    out.push(Op::Append(vec![(a, 0), (b, 0), (a, 0)]));
                }
            }
        }
    }
}

fn patch_ids(op: &Op, ids: bool, next: &mut u32) -> Op {
    let mut f = |x: &It| {
        if ids {
            *next += 1;
            (x.0, *next)
        } else {
            (x.0, 0)
        }
    };
    match op {
        Op::Append(v) => Op::Append(v.iter().map(&mut f).collect()),
        Op::PushFront(x) => Op::PushFront(f(x)),
        Op::PushBack(x) => Op::PushBack(f(x)),
        Op::Insert(i, x) => Op::Insert(*i, f(x)),
        Op::Set(i, x) => Op::Set(*i, f(x)),
        o => o.clone(),
    }
}

struct Exh<'a> {
    cfgs: &'a [Cfg],
    count: u64,
    fails: Vec<String>,
    as_tx: bool,
    ids: bool,
}

impl Exh<'_> {
    fn rec(&mut self, initial: &[It], model: &[It], ops: &mut Vec<Op>, depth: usize, next: u32) {
        if depth == 0 {
            for cfg in self.cfgs {
                let ops2: Vec<Op> =
                    if self.as_tx { vec![Op::Tx(ops.clone(), true)] } else { ops.clone() };
                self.count += 1;
                if let Err(e) = run(cfg, initial, 0, &ops2) {
                    if self.fails.len() < 3 {
                        self.fails.push(report(cfg, initial, 0, &ops2, &e));
                    }
                }
            }
            return;
        }
        let mut cands = Vec::new();
        all_simple_ops(model.len(), 3, depth == 1 || ops.is_empty(), &mut cands);
        for c in cands {
            // cfg-independent truncate consistency: use the strictest cfg (ids, key compare).
            let mut nx = next;
            let o = patch_ids(&c, self.ids, &mut nx);
            let mut m2 = model.to_vec();
            let strict = Cfg {
                flavor: Flavor::SortByKey,
                batched: false,
                pre: Chain::None,
                chain: Chain::None,
                capacity: 16,
                drain_every: true,
            };
            if !model_apply(&strict, &mut m2, &o) {
                continue;
            }
            // SortBy is descending: truncate consistency differs; only keep truncates that
            // are consistent for both directions (i.e. only when cut or keep is empty) unless
            // ascending-only cfgs are in use.
            if let Op::Truncate(l) = &o {
                let desc = Cfg { flavor: Flavor::SortBy, ..strict };
                if self.cfgs.iter().any(|c| c.flavor == Flavor::SortBy)
                    && !trunc_ok(&desc, model, *l)
                {
                    continue;
                }
            }
            ops.push(o);
            self.rec(initial, &m2, ops, depth - 1, nx);
            ops.pop();
            if !self.fails.is_empty() {
                return;
            }
        }
    }
}

fn initials(max_len: usize) -> Vec<Vec<It>> {
    let mut out = vec![vec![]];
    let mut frontier: Vec<Vec<It>> = vec![vec![]];
    for _ in 0..max_len {
        let mut nf = Vec::new();
        for v in &frontier {
            for k in 0..3u8 {
                let mut w = v.clone();
                w.push((k, 1000 + w.len() as u32));
                nf.push(w);
            }
        }
        out.extend(nf.iter().cloned());
        frontier = nf;
    }
    out
}

fn exhaustive(max_len: usize, depth: usize, as_tx: bool, lag: bool) {
    exhaustive_ids(max_len, depth, as_tx, lag, true);
    exhaustive_ids(max_len, depth, as_tx, lag, false);
}

fn exhaustive_ids(max_len: usize, depth: usize, as_tx: bool, lag: bool, ids: bool) {
    let mut cfgs = Vec::new();
    for flavor in [Flavor::Sort, Flavor::SortBy, Flavor::SortByKey] {
        for batched in [false, true] {
            cfgs.push(Cfg {
                flavor,
                batched,
                pre: Chain::None,
                chain: Chain::None,
                capacity: if lag { 1 } else { 16 },
                drain_every: !lag,
            });
        }
    }
    // Note: items carry unique ids; for Flavor::Sort this means (key, id) tuples, full Ord.
    let mut e = Exh { cfgs: &cfgs, count: 0, fails: vec![], as_tx, ids };
    for mut init in initials(max_len) {
        if !ids {
            init.iter_mut().for_each(|x| x.1 = 0);
        }
        let mut ops = Vec::new();
        e.rec(&init, &init.clone(), &mut ops, depth, 0);
        if !e.fails.is_empty() {
            break;
        }
    }
    eprintln!(
        "exhaustive(max_len={max_len}, depth={depth}, tx={as_tx}, lag={lag}, ids={ids}): {} runs",
        e.count
    );
    for f in &e.fails {
        eprintln!("{f}\n");
    }
    assert!(e.fails.is_empty());
}

#[test]
fn exhaustive_len4_depth2() {
    exhaustive(4, 2, false, false);
}

#[test]
fn exhaustive_len4_depth2_tx() {
    exhaustive(4, 2, true, false);
}

#[test]
fn exhaustive_len4_depth2_lag() {
    exhaustive(4, 2, false, true);
}

#[test]
fn exhaustive_len3_depth3() {
    if env_usize("HUNT_DEEP", 0) == 0 {
        return;
    }
    exhaustive(3, 3, false, false);
}

#[test]
fn exhaustive_len3_depth3_tx() {
    if env_usize("HUNT_DEEP", 0) == 0 {
        return;
    }
    exhaustive(3, 3, true, false);
}

#[test]
fn huge_runs_of_equal_keys() {
    for flavor in [Flavor::Sort, Flavor::SortBy, Flavor::SortByKey] {
        for batched in [false, true] {
            for capacity in [1, 64] {
                let cfg = Cfg {
                    flavor,
                    batched,
                    pre: Chain::None,
                    chain: Chain::None,
                    capacity,
                    drain_every: false,
                };
                let ids = flavor != Flavor::Sort;
                let mut id = 0;
                let mut mk = |k: u8| {
                    id += 1;
                    (k, if ids { id } else { 0 })
                };
                let initial: Vec<It> = (0..100_000).map(|i| mk((i % 1000 == 0) as u8)).collect();
                let mut ops = vec![
                    Op::Append((0..50_000).map(|_| mk(0)).collect()),
                    Op::Drain,
                    Op::Set(0, mk(2)),
                    Op::Set(149_999, mk(0)),
                    Op::Insert(75_000, mk(1)),
                    Op::Remove(3),
                    Op::PopFront,
                    Op::PushFront(mk(0)),
                    Op::Drain,
                    Op::Append((0..50_000).map(|i| mk((i % 3) as u8)).collect()),
                    Op::Tx(vec![Op::Set(5, mk(1)), Op::Remove(5), Op::Insert(5, mk(0))], true),
                ];
                ops.push(Op::Drain);
                let h = std::thread::Builder::new().stack_size(2 << 20).spawn(move || {
                    run(&cfg, &initial, 10, &ops)
                });
                let r = h.unwrap().join().expect("thread died (stack overflow?)");
                assert_eq!(r, Ok(()), "{cfg:?}");
            }
        }
    }
}
