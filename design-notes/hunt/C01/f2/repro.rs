//! `Subscriber<T, AsyncLock>::next()` / `next_ref()` mark an update as observed
//! *before* they have the read lock they need to hand the value out. If the
//! future is dropped at its second await point (`select!`, timeout), the update
//! is lost: the subscriber never handed the value out, yet it is pending
//! afterwards.
#![cfg(feature = "async-lock")]

use std::{
    future::Future,
    pin::pin,
    sync::Arc,
    task::{Context, Poll, Wake, Waker},
};

use eyeball::{ObservableWriteGuard, SharedObservable};

struct NoopWaker;
impl Wake for NoopWaker {
    fn wake(self: Arc<Self>) {}
}

fn poll_once<F: Future>(fut: F, cx: &mut Context<'_>) -> Poll<F::Output> {
    let fut = pin!(fut);
    fut.poll(cx)
}

#[test]
fn cancelled_next_does_not_swallow_the_update() {
    let waker = Waker::from(Arc::new(NoopWaker));
    let cx = &mut Context::from_waker(&waker);

    let ob = SharedObservable::new_async(0u32);
    let Poll::Ready(mut sub) = poll_once(ob.subscribe(), cx) else { panic!() };

    // Writer 1 holds the lock; the subscriber and then writer 2 queue up.
    let Poll::Ready(mut guard1) = poll_once(ob.write(), cx) else { panic!() };
    assert!(poll_once(sub.next(), cx).is_pending());
    let mut write2 = pin!(ob.write());
    assert!(write2.as_mut().poll(cx).is_pending());

    // Writer 1 stores 1 and notifies.
    ObservableWriteGuard::set(&mut guard1, 1);
    drop(guard1);

    // The subscriber is polled: it sees the new version, but has to wait for
    // writer 2 before it can read the value. The caller gives up (select! /
    // timeout) and drops the future. No value was handed out.
    assert!(poll_once(sub.next(), cx).is_pending());

    // Writer 2 gets the lock and releases it without notifying anybody.
    let Poll::Ready(mut guard2) = write2.as_mut().poll(cx) else { panic!() };
    ObservableWriteGuard::update_if(&mut guard2, |_| false);
    drop(guard2);

    // The update to 1 was never observed by `sub`, so it must be ready.
    assert_eq!(
        poll_once(sub.next(), cx),
        Poll::Ready(Some(1)),
        "the update to 1 was never handed out, but the subscriber is pending"
    );
}
