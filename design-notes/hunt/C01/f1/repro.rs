//! A `Subscriber<T, AsyncLock>` that was polled once while a write guard was
//! alive keeps a *queued read-lock request* inside itself (field `get_lock`),
//! even after the `Next` future / stream poll that created it is long gone.
//! As soon as the writer releases the lock, tokio hands the read permit to that
//! parked request. Nobody polls it, so the permit is never released:
//! every later `set` / `write` on the observable blocks forever although no
//! guard is alive anywhere in the program.
#![cfg(feature = "async-lock")]

use std::{
    future::Future,
    pin::pin,
    sync::{
        atomic::{AtomicUsize, Ordering},
        Arc,
    },
    task::{Context, Poll, Wake, Waker},
};

use eyeball::{ObservableWriteGuard, SharedObservable};

struct CountingWaker(AtomicUsize);
impl Wake for CountingWaker {
    fn wake(self: Arc<Self>) {
        self.0.fetch_add(1, Ordering::SeqCst);
    }
}

fn poll_once<F: Future>(fut: F, waker: &Waker) -> Poll<F::Output> {
    let fut = pin!(fut);
    fut.poll(&mut Context::from_waker(waker))
}

#[test]
fn set_completes_when_no_guard_is_alive() {
    let wk = Arc::new(CountingWaker(AtomicUsize::new(0)));
    let waker = Waker::from(wk.clone());

    let ob = SharedObservable::new_async(0u32);
    let Poll::Ready(mut sub) = poll_once(ob.subscribe(), &waker) else { panic!() };

    // A writer holds the lock while the subscriber is polled once.
    let Poll::Ready(mut guard) = poll_once(ob.write(), &waker) else { panic!() };
    // `next()` future is created, polled once, and dropped (what `select!` or a
    // timeout does).
    assert!(poll_once(sub.next(), &waker).is_pending());
    ObservableWriteGuard::set(&mut guard, 1);
    drop(guard);

    // No read guard, no write guard and no pending future exists any more, so
    // the observable must be writable: `set` has to store, notify and return
    // the previous value.
    let mut set = pin!(ob.set(2));
    for _ in 0..1000 {
        if let Poll::Ready(prev) = set.as_mut().poll(&mut Context::from_waker(&waker)) {
            assert_eq!(prev, 1);
            return;
        }
    }
    panic!(
        "set() never completes (try_write().is_some() = {}): the idle subscriber owns a read \
         permit",
        ob.try_write().is_some()
    );
}
