#![allow(missing_docs)]
//! A plain (unbatched) Head/Tail/Skip that still holds surplus diffs in its
//! single-diff buffer hands an already-updated view to the next adapter and then
//! replays the buffered diffs on top of it. The batched flavour is consistent.

use eyeball_im::{ObservableVector, VectorDiff};
use eyeball_im_util::vector::{VectorObserverExt, VectorSubscriberExt};
use imbl::{vector, Vector};
use stream_assert::{assert_next_eq, assert_pending};

#[test]
fn batched_reference_behaviour() {
    let mut ob = ObservableVector::<u32>::new();
    ob.append(vector![10, 11, 12]);
    let (values, mut head) = ob.subscribe().batched().head(2);
    assert_eq!(values, vector![10, 11]);

    ob.pop_front();
    assert_next_eq!(head, vec![VectorDiff::PopFront, VectorDiff::PushBack { value: 12 }]);

    // Chain another adapter onto the (already polled) head.
    let (values, mut chained) = head.filter(|_| true);
    assert_eq!(values, vector![11, 12]);
    assert_pending!(chained);
}

#[test]
fn plain_head_replays_buffered_diff_onto_updated_view() {
    let mut ob = ObservableVector::<u32>::new();
    ob.append(vector![10, 11, 12]);
    let (values, mut head) = ob.subscribe().head(2);
    assert_eq!(values, vector![10, 11]);

    ob.pop_front();
    // First of the two diffs; `PushBack { 12 }` stays in the single-diff buffer.
    assert_next_eq!(head, VectorDiff::PopFront);

    // Chain another adapter onto the head: it is handed `[11, 12]`, i.e. the
    // view with the buffered `PushBack` already applied ...
    let (values, mut chained) = head.filter(|_| true);
    let mut view: Vector<u32> = values;
    // ... and then the buffered diff is replayed on top of it.
    while let Some(Some(diff)) = futures_util::FutureExt::now_or_never(
        futures_util::StreamExt::next(&mut chained),
    ) {
        diff.apply(&mut view);
    }
    // The head(2) view of the source `[11, 12]`.
    assert_eq!(view, vector![11, 12]);
}

#[test]
fn plain_tail_replays_buffered_diffs_onto_updated_view() {
    let mut ob = ObservableVector::<u32>::new();
    ob.append(vector![1, 2, 3, 4, 5]);
    let (values, mut tail) = ob.subscribe().tail(3);
    assert_eq!(values, vector![3, 4, 5]);

    ob.truncate(3);
    // PopBack, PopBack, PushFront(2), PushFront(1): take only the first.
    assert_next_eq!(tail, VectorDiff::PopBack);

    let (values, mut chained) = tail.skip(0);
    let mut view: Vector<u32> = values;
    while let Some(Some(diff)) = futures_util::FutureExt::now_or_never(
        futures_util::StreamExt::next(&mut chained),
    ) {
        diff.apply(&mut view);
    }
    assert_eq!(view, vector![1, 2, 3]);
}
