#![cfg(feature = "async-lock")]
#![allow(missing_docs)]
use std::{future::Future, pin::pin, sync::Arc, task::{Context, Poll, Wake, Waker}};
use eyeball::{ObservableWriteGuard, SharedObservable};
struct N; impl Wake for N { fn wake(self: Arc<Self>) {} }
#[test]
fn cancelled_next_keeps_a_read_permit() {
    let waker = Waker::from(Arc::new(N));
    let mut cx = Context::from_waker(&waker);
    let ob = SharedObservable::new_async(0u32);
    let mut sub = ob.subscribe_reset();
    let Poll::Ready(mut g) = pin!(ob.write()).poll(&mut cx) else { panic!() };
    ObservableWriteGuard::set(&mut g, 1);
    assert!(pin!(sub.next()).poll(&mut cx).is_pending()); // cancelled
    drop(g);
    // nobody holds any guard now, yet:
    assert!(ob.try_write().is_some(), "write lock unavailable although no guard is alive");
}
