//! C02 (async-lock flavour): a subscriber must not stay suspended while an
//! update it has not observed is available.
//!
//! `Subscriber<T, AsyncLock>::next()` / `next_ref()` first mark the current
//! version as observed (`poll_update`) and only afterwards acquire the read
//! lock a second time to hand out the value (`next_ref_now`). If that second
//! acquisition has to wait (a writer is queued) and the future is dropped at
//! that point (`select!`, timeout, ...), the update is consumed without ever
//! having been delivered: the next `next()` waits for *another* update and no
//! waker is registered for the one that was lost.
#![cfg(feature = "async-lock")]

use std::{
    future::Future,
    pin::pin,
    sync::{
        atomic::{AtomicUsize, Ordering},
        Arc,
    },
    task::{Context, Poll, Wake, Waker},
};

use eyeball::{ObservableWriteGuard, SharedObservable};

struct CountingWaker(AtomicUsize);

impl Wake for CountingWaker {
    fn wake(self: Arc<Self>) {
        self.0.fetch_add(1, Ordering::SeqCst);
    }
}

#[test]
fn cancelled_next_loses_the_update() {
    let counter = Arc::new(CountingWaker(AtomicUsize::new(0)));
    let waker = Waker::from(counter.clone());
    let mut cx = Context::from_waker(&waker);

    let ob = SharedObservable::new_async(0u32);
    let mut sub = ob.subscribe_reset();
    // Consume the initial value, the subscriber is now up to date.
    assert_eq!(pin!(sub.next()).poll(&mut cx), Poll::Ready(Some(0)));

    // Writer 1 holds the write lock and updates the value.
    let Poll::Ready(mut guard) = pin!(ob.write()).poll(&mut cx) else { panic!() };
    ObservableWriteGuard::set(&mut guard, 1);

    // The subscriber waits for the lock (first attempt, e.g. in a `select!`).
    assert_eq!(pin!(sub.next()).poll(&mut cx), Poll::Pending);

    // Writer 2 queues up behind the subscriber. It only looks at the value.
    let mut writer2 = pin!(ob.write());
    assert!(writer2.as_mut().poll(&mut cx).is_pending());

    // Writer 1 is done.
    drop(guard);

    // Second attempt: sees the new version, but has to wait for writer 2 before
    // it can hand out the value; the future is dropped (cancelled) meanwhile.
    assert_eq!(pin!(sub.next()).poll(&mut cx), Poll::Pending);

    // Writer 2 gets the lock and releases it without any update.
    let Poll::Ready(guard2) = writer2.as_mut().poll(&mut cx) else { panic!() };
    assert_eq!(*guard2, 1);
    drop(guard2);

    // The value 1 was never delivered to the subscriber, so it must be now.
    let wakes_before = counter.0.load(Ordering::SeqCst);
    let mut next = pin!(sub.next());
    let res = next.as_mut().poll(&mut cx);
    assert_eq!(
        res,
        Poll::Ready(Some(1)),
        "update 1 was never delivered, yet the subscriber is suspended \
         (wakes since: {})",
        counter.0.load(Ordering::SeqCst) - wakes_before
    );
}
