//! C02: a pending subscriber must be woken by the closing of the observable.
//!
//! If user code panics while the value is write-locked (a panicking
//! `update` closure, a panicking `PartialEq` / `Hash` in `set_if_*`, or a panic
//! while an `ObservableWriteGuard` is alive), the std `RwLock` around the state
//! is poisoned. Dropping the (last) observable afterwards is supposed to close
//! the state and wake every pending subscriber, but both `Drop` impls unwrap a
//! lock result first (`SharedObservable`: `try_read().unwrap()`, `Observable`:
//! `Shared::deref` -> `read().unwrap()`), so the drop panics *before*
//! `ObservableState::close` runs: the registered wakers are never woken and the
//! subscribers never learn that their stream has ended.

use std::{
    future::Future,
    panic::{catch_unwind, AssertUnwindSafe},
    pin::pin,
    sync::{
        atomic::{AtomicUsize, Ordering},
        Arc,
    },
    task::{Context, Poll, Wake, Waker},
};

use eyeball::{Observable, SharedObservable};

struct CountingWaker(AtomicUsize);

impl Wake for CountingWaker {
    fn wake(self: Arc<Self>) {
        self.0.fetch_add(1, Ordering::SeqCst);
    }
}

#[test]
fn shared_close_after_panicking_update_wakes_pending_subscriber() {
    let ob = SharedObservable::new(0u32);
    let mut sub = ob.subscribe();

    let counter = Arc::new(CountingWaker(AtomicUsize::new(0)));
    let waker = Waker::from(counter.clone());
    let mut cx = Context::from_waker(&waker);

    // The subscriber is pending, its waker is registered.
    assert_eq!(pin!(sub.next()).as_mut().poll(&mut cx), Poll::Pending);

    // A writer panics inside its update closure (e.g. on another task whose
    // panic is caught by the executor).
    let res = catch_unwind(AssertUnwindSafe(|| ob.update(|_| panic!("user bug"))));
    assert!(res.is_err());
    assert_eq!(counter.0.load(Ordering::SeqCst), 0);

    // The last observable goes away => the stream has ended.
    let dropped = catch_unwind(AssertUnwindSafe(move || drop(ob)));

    assert_eq!(
        counter.0.load(Ordering::SeqCst),
        1,
        "pending subscriber was not woken by the closing of the observable \
         (drop panicked: {})",
        dropped.is_err()
    );
}

#[test]
fn unique_close_after_panicking_update_wakes_pending_subscriber() {
    let mut ob = Observable::new(0u32);
    let mut sub = Observable::subscribe(&ob);

    let counter = Arc::new(CountingWaker(AtomicUsize::new(0)));
    let waker = Waker::from(counter.clone());
    let mut cx = Context::from_waker(&waker);

    assert_eq!(pin!(sub.next()).as_mut().poll(&mut cx), Poll::Pending);

    let res = catch_unwind(AssertUnwindSafe(|| Observable::update(&mut ob, |_| panic!("user bug"))));
    assert!(res.is_err());
    assert_eq!(counter.0.load(Ordering::SeqCst), 0);

    let dropped = catch_unwind(AssertUnwindSafe(move || drop(ob)));

    assert_eq!(
        counter.0.load(Ordering::SeqCst),
        1,
        "pending subscriber was not woken by the closing of the observable \
         (drop panicked: {})",
        dropped.is_err()
    );
}
