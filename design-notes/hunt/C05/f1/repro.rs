//! C05: a documented no-op (`clear` on an already-empty vector) must not contribute a diff.
//! `ObservableVector::clear` honours this (changelog 0.4.3, test `clear` in tests/it/main.rs),
//! `ObservableVectorTransaction::clear` does not: committing it broadcasts a `Clear`.
#![allow(missing_docs)]

use eyeball_im::{ObservableVector, VectorDiff};
use stream_assert::{assert_next_eq, assert_pending};

#[test]
fn transaction_clear_on_empty_vector_emits_no_diff() {
    let mut ob: ObservableVector<u32> = ObservableVector::new();
    let mut plain = ob.subscribe().into_stream();
    let mut batched = ob.subscribe().into_batched_stream();

    // the direct call is a no-op, as documented
    ob.clear();
    assert_pending!(plain);
    assert_pending!(batched);

    // the same call inside a committed transaction changes nothing either ...
    let mut txn = ob.transaction();
    txn.clear();
    txn.commit();
    assert!(ob.is_empty());

    // ... and so must contribute no diff (FAILS: both streams deliver `Clear`)
    assert_pending!(plain);
    assert_pending!(batched);

    // sanity: a real change still arrives
    ob.push_back(1);
    assert_next_eq!(plain, VectorDiff::PushBack { value: 1 });
    assert_next_eq!(batched, vec![VectorDiff::PushBack { value: 1 }]);
}
