#!/usr/bin/env python3
"""gen_wave_log.py <wave> -> prints the markdown table of a seed wave: first-try result (design-notes/wave<N>-first-try.json) next to
the result of the last full self-test (selftest/last_run.json).  The narrative around the table is written by hand."""
import json, os, sys
V = "/verif"
w = sys.argv[1]
ft = {x["id"]: x for x in json.load(open(os.path.join(V, "design-notes", "wave%s-first-try.json" % w)))}
now = {x["id"]: x for x in json.load(open(os.path.join(V, "selftest", "last_run.json")))}


def rules(x, n=110):
    s = "; ".join(sorted({"%s[%s]" % (f["rule"], f.get("instance", "")) if f.get("instance") else f["rule"] for f in x.get("fired", [])}))
    return s[:n]


print("| seed | first try | now | rule instances that fire now |")
print("|---|---|---|---|")
c1 = c2 = 0
for i in sorted(ft):
    d = i[len("seed-"):]
    meta = os.path.join(V, "seeded", d, "meta.json")
    summ = json.load(open(meta)).get("summary", "") if os.path.exists(meta) else ""
    notes = os.path.join(V, "seeded", d, "notes.md")
    if not summ and os.path.exists(notes):
        summ = open(notes).readline().strip()
    a, b = ft[i], now.get(i, {"status": "?"})
    c1 += a["status"] == "caught"
    c2 += b["status"] == "caught"
    print("| %s %s | %s%s | %s | %s |" % (d, summ[:170].replace("|", "/").replace("\n", " "), a["status"], (" (" + rules(a, 100) + ")") if a["status"] == "caught" else "", b["status"], rules(b)))
print()
print("first try %d / %d, now %d / %d" % (c1, len(ft), c2, len(ft)))
