#!/usr/bin/env python3
"""Verify a seeded change delivered by a sub-agent and store it under /verif/seeded/<id>/.

usage: verify_seed.py C07 a      (reads /tmp/wt-C07/seeded/a)
Checks, in a fresh scratch worktree of /repo HEAD: patch applies; cargo check ok; existing suite passes with the
change; demo fails with the change; demo passes without it. Removes the scratch worktree afterwards.
"""
import json, os, shutil, subprocess, sys, time

def sh(cmd, cwd, timeout=1800):
    env = dict(os.environ); env["CARGO_NET_OFFLINE"] = "true"
    r = subprocess.run(cmd, cwd=cwd, shell=True, stdout=subprocess.PIPE, stderr=subprocess.STDOUT, text=True, timeout=timeout, env=env)
    return r.returncode, r.stdout

def main():
    prop, ab = sys.argv[1], sys.argv[2]
    wave = sys.argv[3] if len(sys.argv) > 3 else "1"
    src = ("/tmp/wt-%s/seeded/%s" if wave == "1" else "/tmp/wt" + wave + "-%s/seeded/%s") % (prop, ab)
    sid = "%s%s" % (prop, ab) + ("" if wave == "1" else "-w" + wave)
    wt = "/tmp/vs-%s" % sid
    out = {"id": sid, "property": prop, "source": "sub-agent (given only the property text and a scratch worktree)"}
    if not os.path.exists(os.path.join(src, "patch.diff")):
        print(sid, "NO PATCH"); return 1
    subprocess.run(["git", "-C", "/repo", "worktree", "remove", "--force", wt], stdout=subprocess.DEVNULL, stderr=subprocess.DEVNULL)
    shutil.rmtree(wt, ignore_errors=True)
    subprocess.check_call(["git", "-C", "/repo", "worktree", "add", "-q", "--detach", wt, "HEAD"])
    try:
        demo_path = open(os.path.join(src, "demo_path.txt")).read().strip()
        demo_cmd = open(os.path.join(src, "demo_cmd.txt")).read().strip().splitlines()[-1].strip()
        demo_file = None
        for f in os.listdir(src):
            if f.endswith(".rs"):
                demo_file = os.path.join(src, f)
        if "--offline" not in demo_cmd:
            demo_cmd += " --offline"
        os.makedirs(os.path.dirname(os.path.join(wt, demo_path)), exist_ok=True)
        shutil.copy(demo_file, os.path.join(wt, demo_path))
        # demo without the change
        c0, o0 = sh(demo_cmd, wt)
        out["demo_without_change"] = "pass" if c0 == 0 else "FAIL"
        c, o = sh("git apply %s/patch.diff" % src, wt)
        out["applies"] = c == 0
        if c != 0:
            out["error"] = o[-500:]
        else:
            c1, o1 = sh("cargo check --workspace --offline && cargo check -p eyeball --all-features --offline", wt)
            out["compiles"] = c1 == 0
            os.remove(os.path.join(wt, demo_path))
            c2, o2 = sh("cargo test --workspace --offline 2>&1 | grep -E '^test result|FAILED|panicked' ", wt)
            passed = sum(int(l.split("ok. ")[1].split(" passed")[0]) for l in o2.splitlines() if l.startswith("test result: ok."))
            failed = "FAILED" in o2 or "failed;" in o2 and any(" 0 failed" not in l for l in o2.splitlines() if l.startswith("test result"))
            out["suite_with_change"] = "pass (%d tests incl. doctests)" % passed if not failed else "FAIL"
            shutil.copy(demo_file, os.path.join(wt, demo_path))
            c3, o3 = sh(demo_cmd, wt)
            out["demo_with_change"] = "fail" if c3 != 0 else "PASSES (not a demonstration)"
            out["demo_failure_excerpt"] = "\n".join([l for l in o3.splitlines() if "panicked" in l or "assert" in l or "left:" in l or "right:" in l][:6])
        ok = out.get("applies") and out.get("compiles") and out["demo_without_change"] == "pass" and out.get("demo_with_change") == "fail" and out.get("suite_with_change", "").startswith("pass")
        out["confirmed"] = bool(ok)
        out["ran"] = ["git apply patch.diff", "cargo check --workspace --offline; cargo check -p eyeball --all-features --offline",
                      "cargo test --workspace --offline (unmodified suite, with the change)", demo_cmd + " (with the change: must fail)", demo_cmd + " (without the change: must pass)"]
        out["demo_path"] = demo_path
        out["demo_cmd"] = demo_cmd
        dst = "/verif/seeded/%s" % sid
        if ok:
            os.makedirs(dst, exist_ok=True)
            shutil.copy(os.path.join(src, "patch.diff"), dst)
            shutil.copy(demo_file, os.path.join(dst, os.path.basename(demo_path)))
            if os.path.exists(os.path.join(src, "notes.md")):
                shutil.copy(os.path.join(src, "notes.md"), dst)
            meta_p = os.path.join(dst, "meta.json")
            old = json.load(open(meta_p)) if os.path.exists(meta_p) else {}
            old.update(out)
            json.dump(old, open(meta_p, "w"), indent=1)
        print(sid, "CONFIRMED" if ok else "REJECTED", json.dumps({k: v for k, v in out.items() if k not in ("ran", "source")})[:600])
        return 0 if ok else 1
    finally:
        subprocess.run(["git", "-C", "/repo", "worktree", "remove", "--force", wt], stdout=subprocess.DEVNULL, stderr=subprocess.DEVNULL)
        shutil.rmtree(wt, ignore_errors=True)

if __name__ == "__main__":
    sys.exit(main())
