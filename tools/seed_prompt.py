#!/usr/bin/env python3
"""Print the brief given to a seeding sub-agent (wave N) for one property. Nothing from /verif except the property text
and one-line descriptions of ideas other agents already delivered (to push the agent towards new ground)."""
import json, os, sys
prop, wave = sys.argv[1], sys.argv[2]
P = {json.loads(l)["id"]: json.loads(l) for l in open("/verif/properties.jsonl")}[prop]
wt = "/tmp/wt%s-%s" % (wave, prop)
avoid = []
for d in sorted(os.listdir("/verif/seeded")):
    if d.startswith(prop):
        m = json.load(open("/verif/seeded/%s/meta.json" % d))
        t = m.get("title") or m.get("short") or ""
        n = "/verif/seeded/%s/notes.md" % d
        if not t and os.path.exists(n):
            for l in open(n):
                l = l.strip().lstrip("# ").strip()
                if l and not l.startswith("```"):
                    t = l; break
        avoid.append("- " + t[:220])
print(f"""You are helping to evaluate a verification effort for the Rust library jplatte/eyeball (crates `eyeball`, `eyeball-im`, `eyeball-im-util`). Your job is to act as a realistic source of *bugs*: produce TWO independent changes to the library, each of which breaks the property below while the code still compiles and the existing test suite still passes.

Your private scratch git worktree of the repository is {wt} . Work ONLY inside it (never touch /repo or /verif, do not read /verif). No network; always pass --offline to cargo (e.g. `cargo test --workspace --offline`, `cargo check -p eyeball --all-features --offline`). The suite must be run with `cargo test --workspace --offline` from the worktree root (137 tests + doctests).

PROPERTY {P['id']}: {P['title']}
Statement: {P['statement']}
Quantified over: {P['quantifier']['text']}
Why the existing tests cannot settle it: {P['why_tests_cant']}
Anchors (where the mechanism lives): {json.dumps(P['anchors'])}

What makes a good change:
* It is the kind of edit a maintainer could plausibly make (an optimisation, a refactoring, a "simplification", a new fast path, moving code into a helper, a cfg(feature) branch, changing a type or a container, reordering statements), not sabotage that ordinary use would expose at once.
* It needs something SPECIFIC to manifest: a particular interleaving of threads or polls, a drop or panic/unwind at a particular point, a multi-step sequence of operations, an unusual input (empty vector, limit larger than length, index at the boundary, lagging subscriber, zero capacity...), a particular feature flag, or two cooperating sites that each look fine alone.
* It compiles for the whole workspace (`cargo check --workspace --offline` AND `cargo check -p eyeball --all-features --offline`) and the UNMODIFIED existing suite passes with it.
* The two changes must be different in kind and location from each other (call them `a` and `b`), each a separate patch against the pristine worktree HEAD, each touching only library source under `*/src/`.
* Prefer subtle over blunt; prefer changes whose wrongness is not visible as "a check was deleted" (e.g. wrong operand, stale value, wrong order of two effects, an early return on a rare path, a helper that is right for one caller but wrong for another, state kept in a new field that one path forgets to update, an off-by-one at a boundary that tests do not touch).

Ideas that other people already delivered for this property - do NOT repeat these (nor close variants of them), find something else. Prefer functions, code paths and feature configurations that none of these ideas touched, and kinds of mistakes that differ from them (if they are mostly about one mechanism, break the property through another mechanism it also relies on):
{chr(10).join(avoid) if avoid else '- (none)'}

Deliverables, for each of a and b, in directory {wt}/seeded/a/ and {wt}/seeded/b/ :
1. `patch.diff` - `git diff` of the library change alone (against HEAD, applies with `git apply` at the worktree root; must not include the demo file).
2. A demonstration: ONE new integration test file (e.g. `eyeball-im-util/tests/seeded{wave}_{prop}_a.rs`, or under `eyeball/tests/it/` is NOT allowed - use a new top-level file in the crate's `tests/` directory so that it is its own test target) that FAILS with the change applied and PASSES on the pristine tree. It must be deterministic or, for races, loop enough to fail reliably (> 99%) within 60 s. It may only use crates that are already dependencies/dev-dependencies of that crate. Copy the file into the seeded/<a|b>/ directory as well.
3. `demo_path.txt` - the path of the test file relative to the worktree root (one line).
4. `demo_cmd.txt` - the exact cargo command, run from the worktree root, that runs only this demonstration (one line, e.g. `cargo test -p eyeball-im-util --offline --test seeded{wave}_{prop}_a`; add `--features async-lock` if needed).
5. `notes.md` - first line: a one-sentence summary of the change; then: why it breaks the property, what exactly it needs in order to manifest, why the existing suite does not notice, and the cover story (why a maintainer might write it).

Before you finish, verify for each of a and b, starting from a clean tree (`git checkout -- . && git clean -fd -e seeded -e target`): (i) demo passes without the patch; (ii) with the patch: cargo check of both configurations succeeds, `cargo test --workspace --offline` passes completely (with the demo file removed), and the demo fails. Leave the worktree clean (patches not applied) with only the `seeded/` directory (and `target/`) as extra content. Report in your final message a two-line summary per change plus the verification results. If after real effort you can only find one valid change, deliver one and say so.""")
