#!/usr/bin/env python3
"""Print the brief for a defect-hunting sub-agent: find an input / history for which the PRISTINE library violates the property."""
import json, sys
pid = sys.argv[1]
focus = sys.argv[2] if len(sys.argv) > 2 else ""
tag = sys.argv[3] if len(sys.argv) > 3 else pid
wt = "/tmp/wtH-%s" % tag
p = [json.loads(l) for l in open("/verif/properties.jsonl") if json.loads(l)["id"] == pid][0]
print(f"""You are testing the Rust library jplatte/eyeball (crates `eyeball`, `eyeball-im`, `eyeball-im-util`) against a stated property. Your job: find a concrete input, history or schedule for which the library AS IT IS (no modification) violates the property - a genuine defect - or report, after real effort, that you found none.

Your private scratch git worktree of the repository is {wt} . Work ONLY inside it (never touch /repo or /verif, do not read /verif). No network; always pass --offline to cargo. Do not change library source under */src/ (you may add test files and scratch crates inside the worktree).

PROPERTY {p['id']}: {p['title']}
Statement: {p['statement']}
Quantified over: {p['quantifier']['text']}
Anchors (where the mechanism lives): {json.dumps(p['anchors'])}

Already known and NOT interesting (do not report these again; keep your harness away from them):
* `Tail::update_limit` on a limit decrease emits `old_limit - new_limit` PopFront diffs even when the old limit exceeded the number of buffered items (pinned by the existing test `tail::increase_and_decrease_the_limit_only`).
* The Sort adapters forward `Truncate {{ length }}` unchanged, which cuts the end of the *sorted* view (pinned by `sort::truncate`).
* With the `async-lock` feature every subscriber holds two references to the state, so `subscriber_count()` / `strong_count()` count two per subscriber.
* imbl 5.0.0's `Vector::retain` / `FocusMut::swap` are broken for vectors consumed from the front; the library no longer calls them.
* Head / Tail / Skip poll their limit / count stream again after it has ended (a non-fused finite limit stream such as `unfold` panics).
* With `async-lock`, a subscriber that was polled while a writer held / was queued on the lock and is then neither polled again nor dropped keeps a queued (later: granted) read permit, so later writers wait (also after a cancelled `next()`).
* A panic inside an update closure poisons the std lock; every later call panics and dropping the last handle panics in Drop (abort during unwinding).
* `SharedObservable::subscriber_count()` can overflow when handles are cloned / dropped concurrently with the call.
* The poll leaf pushes the waker on every Pending poll without de-duplication.
{('FOCUS of this hunt (other people covered the rest; spend your effort here): ' + focus) if focus else ''}

How to work: build a differential / model-based harness as an integration test file in the relevant crate's `tests/` directory (its own test target): drive the real API with many generated histories (all diff kinds incl. transactions, Truncate, Reset through lag with small capacities, empty vectors, limits / counts of 0, equal to and beyond the length, ties under the comparison, large vectors above imbl's 64-element chunk size built by pushes AND by pops from the front, both stream flavours (plain and `.batched()`), chains of adapters, hand-rolled executors with counting wakers where wake-ups matter, threads where schedules matter) and compare against an obviously correct model (a plain Vec, a sequential specification). Shrink any failure to a small deterministic reproduction. For the `eyeball` crate (observables, subscribers, locks, unsafe code) schedules and memory matter: `cargo +nightly miri test --offline` works here (data races, leaks, UB), the crates `loom`, `shuttle` and `proptest` are in the offline cargo cache (add them as dev-dependencies of a scratch crate inside the worktree), and both lock flavours (default and `--features async-lock`) as well as `SharedObservable`, weak handles, `subscribe_reset`, `Subscriber::clone`, `next_ref` guards held across calls, and drops in unusual orders deserve attention. Also read the code around the anchors looking for boundary cases the existing tests do not touch, and try them.

Deliverables in {wt}/found/ : for each genuine violation a directory `f1`, `f2`, ... with (1) `repro.rs` - a minimal deterministic integration test that FAILS on the pristine tree, (2) `repro_path.txt` (path relative to the worktree root where the file must be placed, e.g. `eyeball-im-util/tests/found_{pid}_1.rs`), (3) `repro_cmd.txt` (the exact cargo command), (4) `notes.md` - what is violated, the smallest input, which source lines are responsible, and a suggested minimal fix. If you found nothing, write {wt}/found/none.md describing exactly what your harness covered (operations, sizes, number of histories, flavours) so that the negative result is meaningful. Leave library sources untouched. In your final message give a short summary (3-10 lines).""")
