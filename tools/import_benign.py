#!/usr/bin/env python3
"""Import refactoring patches delivered by a sub-agent: /tmp/wtR-<TAG>/refactors/r*.diff -> selftest/benign/<TAG>-rN.diff
and register them in selftest/mutants.json as benign (must stay silent). usage: import_benign.py R9 [R10 ...]"""
import json, os, re, shutil, sys
V = "/verif"
mj = json.load(open(V + "/selftest/mutants.json"))
ids = {m["id"] for m in mj["mutants"]}
for tag in sys.argv[1:]:
    src = "/tmp/wtR-%s/refactors" % tag
    notes = open(os.path.join(src, "notes.md")).read() if os.path.exists(os.path.join(src, "notes.md")) else ""
    paras = re.split(r"\n(?=#+ *r?\d|\*\*r\d|r\d[ .:)])", notes)
    for n in range(1, 20):
        p = os.path.join(src, "r%d.diff" % n)
        if not os.path.exists(p):
            continue
        dst = "selftest/benign/%s-r%d.diff" % (tag, n)
        shutil.copy(p, os.path.join(V, dst))
        mid = "%s-%d" % (tag.lower(), n)
        desc = ""
        for para in paras:
            if re.match(r"\W*r%d\b" % n, para.strip()):
                desc = " ".join(para.split())[:400]
        if mid not in ids:
            mj["mutants"].append({"id": mid, "property": "*", "benign": True, "patch": dst,
                                  "desc": "(sub-agent refactoring, wave 3, all 137 tests pass) " + desc})
            ids.add(mid)
        print("imported", mid, desc[:80])
    if notes:
        open(os.path.join(V, "selftest/benign/%s-notes.md" % tag), "w").write(notes)
json.dump(mj, open(V + "/selftest/mutants.json", "w"), indent=1)
