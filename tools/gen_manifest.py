#!/usr/bin/env python3
"""Regenerate /verif/MANIFEST.json from the rule modules that exist (claimed) and NOT_APPLICABLE (declined)."""
import importlib, json, os, sys
sys.path.insert(0, "/verif")
PROPS = ["C%02d" % i for i in range(1, 21)]
PENDING_REASON = "rules for this property are not part of this revision of the checker yet (see DESIGN.md section 4 for the planned static rules); not claimed until they are"
NOT_APPLICABLE = {}  # id -> reason, for properties deliberately declined

checks, na = [], []
served_mir, served_w = [], []
for p in PROPS:
    try:
        m = importlib.import_module("engine.rules." + p.lower())
    except ModuleNotFoundError:
        m = None
    if p in NOT_APPLICABLE:
        na.append({"property_id": p, "reason": NOT_APPLICABLE[p]}); continue
    if m is None:
        na.append({"property_id": p, "reason": PENDING_REASON}); continue
    meta = m.META
    w = getattr(m, "WITNESSES", None)
    served_mir.append(p)
    if w: served_w.append(p)
    checks.append({
        "property_id": p,
        "quick_cmd": "./check %s --tier quick" % p,
        "thorough_cmd": "./check %s --tier thorough" % p,
        "evidence_file": "/verif/evidence/%s.json" % p,
        "replay_cmd_template": "./check %s --replay {path}" % p,
        "engine": "mir-rules",
        "technique": meta.get("technique", "static analysis: dominance / post-dominance / provenance / typestate rules over rustc MIR facts (rustc_private driver)" + ("; compile_fail witnesses with compiling twins" if w else "")),
        "level_claimed": {
            "category": "other",
            "text": meta["explanation"],
            "design_ref": "DESIGN.md section 4, %s" % p,
        },
        "level_note": "Trusted: " + "; ".join(meta.get("trusted_base", [])) + (". Assumes: " + "; ".join(meta["assumptions"]) if meta.get("assumptions") else "") +
                      ". Not decided (declared in DESIGN.md section 6): " + meta.get("not_decided", "behavioural clauses that quantify over runtime values; contracts of std/tokio/imbl."),
    })
man = {
    "version": 1,
    "setup_cmd": "./check --setup",
    "hooks": {
        "guard": "eyeball_verif",
        "enable": "none needed: the checks read the unmodified sources through a rustc_private driver (RUSTC_WORKSPACE_WRAPPER under cargo +nightly check); no cfg-guarded hook exists",
        "baseline_off_cmd": "cd /repo && cargo test --workspace --no-fail-fast --offline",
        "source_commits": [],
        "add_only": True,
    },
    "engines": [
        {"name": "mir-rules", "path": "driver/ + engine/", "serves_properties": served_mir,
         "kind_free_text": "rustc_private fact extractor (MIR built + drop-elaborated, items, impls, unsafe sites) + Python rule engine (CFG, dominators, edge conditions, provenance expressions, typestate dataflow)"},
        {"name": "compile-fail-witnesses", "path": "witness/", "serves_properties": served_w,
         "kind_free_text": "rustdoc compile_fail doctests with error codes (nightly) and compiling no_run twins"},
    ],
    "checks": checks,
    "not_applicable": na,
    "notes": open("/verif/tools/manifest_notes.txt").read() if os.path.exists("/verif/tools/manifest_notes.txt") else "",
}
json.dump(man, open("/verif/MANIFEST.json", "w"), indent=1)
print("claimed", len(checks), "not_applicable", len(na))
