#!/bin/sh
# usage: verify_wave.sh <wave> Cxx...   - verifies a and b of each property in parallel, logs in .cache/vs/
cd /verif; mkdir -p .cache/vs; w=$1; shift
for p in "$@"; do for ab in a b; do
  [ -f /tmp/wt$w-$p/seeded/$ab/patch.diff ] || { echo "$p$ab: no patch"; continue; }
  python3 tools/verify_seed.py $p $ab $w > .cache/vs/$p$ab-w$w.log 2>&1 &
done; done; wait
for p in "$@"; do for ab in a b; do head -c 300 .cache/vs/$p$ab-w$w.log 2>/dev/null | head -1 | cut -c1-160; done; done
