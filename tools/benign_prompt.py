#!/usr/bin/env python3
"""Print the brief for a refactoring sub-agent: N behaviour-preserving refactorings of a given area (must stay silent)."""
import sys
tag, area = sys.argv[1], sys.argv[2]
wt = "/tmp/wtR-%s" % tag
print(f"""You are a careful Rust maintainer of the library jplatte/eyeball (crates `eyeball`, `eyeball-im`, `eyeball-im-util`). Produce EIGHT independent, strictly behaviour-preserving refactorings of the library source, the kind that shows up in real pull requests titled "refactor: ..." or "chore: tidy ...".

Your private scratch git worktree is {wt} . Work ONLY inside it (never touch /repo or /verif, do not read /verif). No network; always pass --offline to cargo.

Area to refactor (each patch should mainly touch these files, but may touch others when the refactoring requires it): {area}

Requirements for every refactoring (call them r1 .. r8):
* STRICTLY behaviour preserving for every observable behaviour on every input and schedule: same return values, same emitted diffs in the same order, same wakeups / waker registration, same lock acquisition pattern (one critical section stays one critical section, same lock kind), same reference counts held by each handle, same panics with the same conditions, same drop order where observable, same public API and public signatures, no new `unsafe`. If you are not sure it is preserving, do not deliver it.
* Non-trivial: not whitespace, comments or mere renaming of a local. Aim for the medium-sized restructurings that real refactoring PRs contain. Use a different technique for each of the eight, for example: extract a private helper function / method from part of a function; inline a private helper into its caller(s); turn a closure into a named private fn or vice versa; `match` <-> `if let`/`let else`/`?`/combinators (`map`, `and_then`, `then`, `map_or`, `ok_or`...); explicit loop <-> iterator chain; early returns <-> nested conditionals; reorder INDEPENDENT statements; introduce or remove intermediate `let` bindings; merge duplicated code of two functions into one shared generic helper; split a big function into two; rename a PRIVATE function, field, type or module-private item; move a private item to another module; replace `a < b` by `b > a` or `!(a >= b)`; destructure `self` fields into locals up front; replace `mem::replace` by `mem::swap`/`mem::take` equivalents; change a private struct's field order; use `Self` / type aliases; change `impl` block organisation.
* Each is a separate patch against the pristine worktree HEAD touching only library source under `*/src/`.
* With the patch applied: `cargo check --workspace --offline`, `cargo check -p eyeball --all-features --offline`, `cargo check -p eyeball-im --all-features --offline`, `cargo check -p eyeball-im-util --all-features --offline` succeed and `cargo test --workspace --offline` passes completely.

Deliverables: files {wt}/refactors/r1.diff ... r8.diff (`git diff` against HEAD, applies with `git apply` at the worktree root), and {wt}/refactors/notes.md with one paragraph per refactoring: what was done and the argument why behaviour is unchanged (mention anything subtle: evaluation order, drop order, panics). Verify each patch from a clean tree (`git checkout -- . && git clean -fd -e refactors -e target`). Leave the worktree clean (no patch applied) at the end. In your final message list the eight one-line summaries and the verification result of each.""")
