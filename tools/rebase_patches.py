#!/usr/bin/env python3
"""rebase_patches.py <old-commit> [--apply]  - after a `fix:` commit in /repo, re-target the stored patches (seeded/*/patch.diff,
selftest/benign/*.diff, selftest/patches/*.diff) that no longer apply to /repo HEAD.

For each patch that fails `git apply --check` on HEAD: in a scratch worktree at <old-commit> the patch is applied and committed, then
cherry-picked onto HEAD.  A clean cherry-pick is written back (with --apply) as the new patch; a conflict is listed for manual work.
Nothing here touches /repo's working tree; the scratch worktree lives under /tmp and is removed at the end."""
import glob, os, subprocess, sys, json

V = "/verif"
old = sys.argv[1]
do_apply = "--apply" in sys.argv
WT = "/tmp/wt-rebase"


def sh(cmd, cwd=None, check=False):
    r = subprocess.run(cmd, shell=True, cwd=cwd, capture_output=True, text=True)
    if check and r.returncode:
        raise SystemExit("%s\n%s\n%s" % (cmd, r.stdout, r.stderr))
    return r


head = sys.argv[sys.argv.index("--head") + 1] if "--head" in sys.argv else sh("git -C /repo rev-parse HEAD", check=True).stdout.strip()
files = sorted(glob.glob(V + "/seeded/*/patch.diff") + glob.glob(V + "/selftest/benign/*.diff") + glob.glob(V + "/selftest/patches/*.diff"))
sh("git -C /repo worktree remove --force %s" % WT)
sh("git -C /repo worktree add --detach %s %s" % (WT, head), check=True)
need, clean, conflict, reverse_ok = [], [], [], []
for p in files:
    sh("git cherry-pick --abort", cwd=WT)
    sh("git checkout -q --detach %s && git reset -q --hard && git clean -fdq" % head, cwd=WT, check=True)
    if sh("git apply --check %s" % p, cwd=WT).returncode == 0:
        continue
    need.append(p)
    # un-fix patches (reverse of a fix) are regenerated elsewhere
    sh("git checkout -q --detach %s && git reset -q --hard && git clean -fdq" % old, cwd=WT, check=True)
    if sh("git apply %s" % p, cwd=WT).returncode != 0:
        conflict.append((p, "does not apply to the old base either"))
        continue
    sh("git add -A && git -c user.name=x -c user.email=x@x commit -q -m patch", cwd=WT, check=True)
    pc = sh("git rev-parse HEAD", cwd=WT).stdout.strip()
    sh("git checkout -q --detach %s" % head, cwd=WT, check=True)
    r = sh("git -c user.name=x -c user.email=x@x cherry-pick %s" % pc, cwd=WT)
    if r.returncode != 0:
        st = sh("git diff --name-only --diff-filter=U", cwd=WT).stdout.split()
        sh("git cherry-pick --abort", cwd=WT)
        conflict.append((p, "conflict in " + ", ".join(st)))
        continue
    d = sh("git diff %s HEAD" % head, cwd=WT).stdout
    clean.append(p)
    if do_apply:
        open(p, "w").write(d)
sh("git -C /repo worktree remove --force %s" % WT)
sh("git -C /repo worktree prune")
print("patches: %d, need rebase: %d, clean: %d, conflict: %d" % (len(files), len(need), len(clean), len(conflict)))
for p, why in conflict:
    print("CONFLICT %s: %s" % (os.path.relpath(p, V), why))
json.dump({"clean": clean, "conflict": conflict}, open("/tmp/rebase_result.json", "w"), indent=1)
