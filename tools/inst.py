#!/usr/bin/env python3
"""inst.py Cxx [env...] -> prints all rule instances (rule|fn|key|verdict) for a property on /repo (dev aid, uses cached facts dir if --facts)."""
import sys, os, time
sys.path.insert(0, "/verif")
from engine import extract, report
from engine.facts import load_config
from engine.main import run_property
prop = sys.argv[1]
fdir = "/verif/.cache/facts/dev"
if not os.path.isdir(fdir) or "--fresh" in sys.argv:
    extract.extract("/repo", extract.QUICK, fdir, nonce="dev")
fb = {c: load_config(fdir, c, "dev") for c in extract.QUICK}
code, rs = run_property(prop, "quick", 0, fb, extract.QUICK, time.time(), evidence_dir="/verif/.cache/ev-dev", quiet=True, witness=False)
for r in sorted(rs, key=lambda r: (r.rule, r.fn, r.key)):
    print("%s|%s|%s|%s" % (r.rule, r.fn, r.key, r.verdict))
