#!/usr/bin/env python3
"""fix_hunk_counts.py <patch>  - recompute the line counts in the @@ headers of a hand-edited unified diff."""
import re, sys
p = sys.argv[1]
lines = open(p).read().split("\n")
out, i = [], 0
while i < len(lines):
    m = re.match(r"^@@ -(\d+)(?:,\d+)? \+(\d+)(?:,\d+)? @@(.*)$", lines[i])
    if not m:
        out.append(lines[i]); i += 1
        continue
    j = i + 1
    o = n = 0
    while j < len(lines) and not lines[j].startswith(("@@ ", "diff --git ")):
        l = lines[j]
        if l.startswith("-") and not l.startswith("--- a/"):
            o += 1
        elif l.startswith("+") and not l.startswith("+++ b/"):
            n += 1
        elif l.startswith(" ") or (l == "" and j + 1 < len(lines) and not lines[j + 1].startswith("diff --git ") and j + 1 != len(lines)):
            o += 1; n += 1
        elif l.startswith("\\"):
            pass
        j += 1
    # trailing empty string after the final newline is not a context line
    out.append("@@ -%s,%d +%s,%d @@%s" % (m.group(1), o, m.group(2), n, m.group(3)))
    out.extend(lines[i + 1:j])
    i = j
open(p, "w").write("\n".join(out))
