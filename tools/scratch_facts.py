#!/usr/bin/env python3
"""scratch_facts.py <mutant-id> -> extracts facts of /repo + that mutant into /verif/.cache/facts/s-<id> (debugging aid)."""
import sys, os, json
sys.path.insert(0, "/verif")
from engine import selftest, extract
mid = sys.argv[1]
m = [x for x in selftest.load_mutants() if x["id"] == mid][0]
tree = os.path.join(selftest.ROOT, "dbg", "repo")
selftest.copy_tree("/repo", tree)
why = selftest.apply_mutant(m, tree)
print("apply:", why)
out = "/verif/.cache/facts/s-" + mid
extract.extract(tree, extract.QUICK, out, nonce="dev", target_root=os.path.join(selftest.ROOT, "dbg", "target"))
print(out)
