#!/usr/bin/env python3
"""Write DESIGN-catch-table.md from selftest/last_run.json and record caught_by in seeded/*/meta.json."""
import json, os, re
res = json.load(open("/verif/selftest/last_run.json"))
muts = {m["id"]: m for m in json.load(open("/verif/selftest/mutants.json"))["mutants"]}
lines = ["| id | property | what the change does | verdict | rule instances that fire |", "|---|---|---|---|---|"]
for r in sorted(res, key=lambda r: (0 if r["id"].startswith("seed") else 1 if r["id"][0] in "mr" and not r["id"].startswith("r") else 2, r["id"])):
    fired = sorted({"%s[%s]" % (x["rule"], x["instance"]) for x in r.get("fired", [])})
    desc = r.get("desc", "") or muts.get(r["id"], {}).get("desc", "")
    if r["id"].startswith("seed-"):
        d = "/verif/seeded/" + r["id"][5:]
        mp = d + "/meta.json"
        if os.path.exists(mp):
            m = json.load(open(mp))
            m["caught_by"] = fired
            m["checked_with"] = "python3 -m engine.selftest %s  (scratch copy of /repo + patch, facts re-extracted, rules of %s)" % (r["id"], m["property"])
            m["expect"] = "miss" if r["status"] == "missed-as-documented" else "fire"
            json.dump(m, open(mp, "w"), indent=1)
            notes = open(d + "/notes.md").read() if os.path.exists(d + "/notes.md") else ""
            desc = " ".join(l.strip() for l in notes.splitlines() if l.strip() and not l.startswith("#"))[:200]
    lines.append("| %s | %s | %s | %s | %s |" % (r["id"], r.get("property", muts.get(r["id"], {}).get("property", "")), desc.replace("|", "/")[:200], r["status"], "; ".join(fired)[:300]))
open("/verif/design-notes/catch-table.md", "w").write("\n".join(lines) + "\n")
print(len(lines) - 2, "rows")
