"""C10 — Filter and FilterMap present exactly the matching (mapped) items, in order (structural clauses)."""
import re
from ..facts import strip, ecall_matches, contains, find_all, fmt, mentions_field, has_arith, walk
from .. import conds
from .common import *
from .vecdiff import *
from .adapters import diff_variants_in
from . import wakers

CRATES = (UT,)

META = {
    "explanation": (
        "Static decision on MIR: R10.1 both dispatch closures (filter, filter_map) switch over all 11 diff kinds and route each kind to the same handler "
        "(or the _filter/_filter_map pair); R10.2 total diffs are never swallowed - the handlers of Clear and Reset return Some on every path, except "
        "under a test that the kept-index list was empty evaluated before it is cleared; R10.3 source-length bookkeeping table - each handler's net effect "
        "on the recorded source length (in the handler body, on every path, including local callees) equals the length effect of the diff kind as read "
        "from VectorDiff::apply's table; R10.4 index-shift table on the kept-index list (PushFront all +1, PopFront remaining -1, Insert/Remove from the "
        "partition point on, nothing else); R10.5 every index/length emitted downstream is the result of the search over the kept-index list (no "
        "arithmetic, not the source index); R10.6 end of stream only on the source's end, plus the waker typestate of both poll loops (C14)."),
    "trusted_base": ["VecDeque::partition_point / iter_mut / skip", "rustc MIR construction"],
    "assumptions": ["the user's predicate is a pure function of the item"],
    "not_decided": "that the kept-index list is sorted at all times (partition_point's precondition) and applicability of every emitted diff (arithmetic)",
}
META["explanation"] += ' R10.9 the constructors number the initial items with enumerate() applied below any filter (positions in the source, not in the filtered output).'
META["explanation"] += " R10.4 also checks the order of the two effects (the new item's entry is recorded after the shift, or outside its range) and that a path bypassing the shift loop has established `last kept index < index` strictly (path-sensitive facts)."
META["explanation"] += " R10.10 filter mirror rule: on every path of the single-item handlers the change of the kept-index list's length equals the effect of the returned diff (entry added <=> PushFront / PushBack / Insert, removed <=> PopFront / PopBack / Remove, unchanged <=> Set or nothing)."
META["explanation"] += ' R10.9 also decides the counter idiom (captured counter starting at 0, pushed for kept items before its increment). R10.11 source positions of a chunk of new items: an enumerate() whose indices reach the kept-index list sits below every position-changing adaptor; a running counter pushed onto the kept-index list does not start from that list (last kept index + 1 forgets rejected items).'
META["explanation"] += ' R10.3 `+len`: the length added for Append / Reset must be that of the chunk the handler was given (a parameter, resolved at the use when the variable is re-bound later), not of a vector computed from it. R10.12 negative contract entry: no call of imbl::Vector::retain / FocusMut::{swap, pair, triplet} in eyeball-im and eyeball-im-util (known-bad in the pinned imbl 5.0.0; F9, repaired by 2cafcea).'
META["explanation"] += ' R10.12 negative contract entry: no imbl Vector::retain, Vector::sort / sort_by / sort_by_key (recursive quicksort, depth linear in ties: F11) and no FocusMut::swap / pair / triplet (F9) anywhere in the three crates.'
META["explanation"] += ' R10.4 bypass: a path that skips the index shift under a condition that does not mention the kept-index list is violated. R10.13 the position recorded for a pushed-back item is the source-length counter read before its increment (or after it, minus 1).'
META["explanation"] += ' R10.14 a cached position in the kept-index list (any extra field of the filter state) is written by every handler that removes / inserts in front / clears / renumbers entries.'

PAIR = lambda n: re.sub(r"_filter(_map)?$", "", n or "")


def filter_impl_fns(F):
    return [f for f in F.find(crate=UT) if f.path.startswith("vector::filter::FilterImplProj::")]


def dispatchers(F):
    """[(poll fn, dispatch closure, {variant: handler fn})]"""
    out = []
    for f in filter_impl_fns(F):
        b = f.built
        if f.kind != "assoc" or not b or wakers.cx_param(b) is None:
            continue
        def keep_non_dispatchers(g):
            # handlers stay calls; only a callee that itself switches over VectorDiff (an extracted dispatcher) is inlined
            return default_keep(g) or not (g.built and diff_switches(g.built))
        for c in F.children.get(f.key, []):
            if not c.built:
                continue
            cb = inl(F, c, keep=keep_non_dispatchers, tag="dispatch")
            sws = diff_switches(cb)
            if not sws:
                continue
            sw, info = sws[0]
            arms, multi = arm_targets(info)
            table = {}
            for v, t in arms.items():
                region = arm_region(cb, sw, t)
                hs = [F.local_callee(c, tt) for blk, tt in cb.calls(blocks=sorted(region)) if F.local_callee(c, tt) is not None]
                table[v] = hs[0] if hs else None
            out.append((f, c, table, multi))
    return out


def run(ctx):
    F = ctx.facts
    ds = dispatchers(F)
    if len(ds) != 2:
        ctx.missing("R10.1", "the two dispatch closures of FilterImpl (found %d)" % len(ds))
        if not ds:
            return
    # R10.1
    for f, c, table, multi in ds:
        missing = [v for v in VARIANTS if not table.get(v)]
        for v in VARIANTS:
            if table.get(v):
                continue
            shared = [vs for t, vs in multi if v in vs]
            ctx.violated("R10.1", f, "arm=%s" % v, c.loc(),
                         "`%s` has no handler for `%s` diffs%s: that kind of change is dropped and the filtered view diverges" % (f.path, v, " (falls into a catch-all arm)" if shared else ""))
        if not missing:
            ctx.holds("R10.1", f, "exhaustive-dispatch", c.loc(), "all 11 diff kinds are routed to a handler: %s" % ", ".join("%s->%s" % (v, table[v].name) for v in VARIANTS))
    if len(ds) == 2:
        t0, t1 = ds[0][2], ds[1][2]
        for v in VARIANTS:
            if t0.get(v) and t1.get(v):
                same = t0[v] is t1[v] or PAIR(t0[v].name) == PAIR(t1[v].name)
                ctx.verdict(same, "R10.1", ds[0][0], "sibling:%s" % v, ds[0][1].loc(), "%s: %s / %s" % (v, t0[v].name, t1[v].name),
                            "filter and filter_map route `%s` to different handlers (%s vs %s)" % (v, t0[v].name, t1[v].name))
    handlers = {}
    for f, c, table, multi in ds:
        for v, h in table.items():
            if h is not None:
                handlers.setdefault(h.key, (h, set()))[1].add(v)
    r10_2(ctx, handlers)
    r10_3(ctx, handlers)
    r10_4(ctx, handlers)
    r10_5(ctx, handlers)
    r10_7(ctx)
    r10_8(ctx)
    r10_11(ctx)
    r10_12(ctx)
    r10_10(ctx, handlers)
    r10_13(ctx, handlers)
    r10_14(ctx, handlers)
    # R10.6
    for f, c, table, multi in ds:
        b = f.built
        sites = [(blk, t) for blk, t in b.calls() if wakers.is_poll_call(t)] + [(blk, t) for blk, t, c in wakers.local_poll_helper_calls(F, f)]
        slocs = {(blk, len(b.blocks[blk]["stmts"])) for blk, t in sites}
        for loc, s in b.iter_stmts():
            if s["k"] == "assign" and s["rv"]["k"] == "agg" and s["rv"].get("adt") == "std::option::Option" and s["rv"]["variant"] == "None":
                facts = conds.bare(conds.dominating_facts(b, loc[0]))
                ok = any(x[0] == "variant" and x[2] == frozenset(["None"]) and strip(x[1], through_calls=False)[0] == "call" and strip(x[1], through_calls=False)[4] in slocs for x in facts)
                ctx.verdict(ok, "R10.6", f, "ends-with-source", b.line_at(loc), "Ready(None) only on the source's None edge", "the filter adapter ends its stream on a path that is not the end of the source")
        wakers.check_poll_fn(ctx, "R14.1", f, sites)
    from . import groups
    groups.util_buffers(ctx)



def ret_forms(F, f):
    """classify each whole assignment of _0 of handler f: some | none | maybe(expr)"""
    b = f.built
    out = []
    for loc, kind, payload in blocks_assigning_ret(b):
        if loc[0] not in b.reachable():
            continue
        e = b.expr_of_rv(payload, 10, ()) if kind == "assign" else b.expr_of_call(payload, 10, ())
        x = strip(e, through_calls=False)
        if x[0] == "agg" and x[2] == "std::option::Option":
            out.append((loc, "some" if x[3] == "Some" else "none", x))
        else:
            out.append((loc, "maybe", x))
    return out


def r10_2(ctx, handlers):
    F = ctx.facts
    n = 0
    for key, (h, vs) in handlers.items():
        if not (vs & {"Clear", "Reset"}):
            continue
        b = h.built
        clears = [(blk, len(b.blocks[blk]["stmts"])) for blk, t in b.calls(r"VecDeque::<.*>::clear$") if mentions_field(b.expr_of_op(t["args"][0]), "filtered_indices")]
        for loc, cls, x in ret_forms(F, h):
            n += 1
            where = b.line_at(loc)
            if cls == "some":
                ctx.holds("R10.2", h, "total-diff-not-swallowed", where, "returns Some(..) unconditionally")
                continue
            # None / maybe-None: allowed only under `previous kept list was empty`
            facts = conds.bare(conds.dominating_facts(b, loc[0]))
            pre_empty = False
            for fct in facts:
                if fct[0] == "truth" and fct[1][0] == "call" and ecall_matches(fct[1], r"::is_empty$") and mentions_field(fct[1][3][0], "filtered_indices") and fct[2] is True:
                    if all(b.loc_dominates(fct[1][4], cl) and fct[1][4] != cl for cl in clears):
                        pre_empty = True
            # a `.then()` / `.then_some()` on an emptiness flag computed before the clear
            if cls == "maybe" and x[0] == "call" and isinstance(x[1], str) and re.search(r"bool>::then(_some)?$", x[1]):
                flag = x[3][0]
                ies = find_all(flag, lambda y: y[0] == "call" and ecall_matches(y, r"::is_empty$") and mentions_field(y[3][0], "filtered_indices"))
                if ies and all(b.loc_dominates(ies[0][4], cl) and ies[0][4] != cl for cl in clears) and contains(flag, lambda y: (y[0] == "un" and y[1] == "Not") or (y[0] == "call" and ecall_matches(y, r"Not>?::not$"))):
                    pre_empty = True
            if pre_empty:
                ctx.holds("R10.2", h, "total-diff-not-swallowed", where, "may return None only when the view was already empty before this diff")
            else:
                ctx.violated("R10.2", h, "total-diff-not-swallowed", where,
                             "`%s` (handler of %s) can return None (`%s`) although the previous filtered view may be non-empty: the %s is swallowed and the stale view stays in place downstream" % (
                                 h.path, "/".join(sorted(vs & {"Clear", "Reset"})), fmt(x, 3), "/".join(sorted(vs & {"Clear", "Reset"}))))
    ctx.floor("R10.2", n, 3)


def len_effects(F, f, depth=0):
    """effects on original_len in f's own body (every-path ones) plus those of local callees: list of (effect, every_path)"""
    b = f.built  # raw body: local callees are followed explicitly below
    out = []
    for loc, s in b.iter_stmts():
        if s["k"] == "assign" and last_field(s["place"]) == "original_len":
            e = b.expr_of_rv(s["rv"], 10, ())
            x = strip(e)
            eff = "?"
            if x[0] == "const" and x[3] == 0:
                eff = "=0"
            elif x[0] == "param":
                eff = "=arg"
            else:
                adds = find_all(e, lambda y: y[0] == "bin" and re.match(r"(Add|Sub)", y[1]))
                if adds and mentions_field(adds[0][2], "original_len"):
                    sign = "+" if adds[0][1].startswith("Add") else "-"
                    r = strip(adds[0][3])
                    if r[0] == "const" and r[3] == 1:
                        eff = sign + "1"
                    elif contains(adds[0][3], lambda y: y[0] == "call" and ecall_matches(y, r"::len$")):
                        lens = find_all(adds[0][3], lambda y: y[0] == "call" and ecall_matches(y, r"::len$"))
                        recv = resolve_at(b, lens[0][3][0], lens[0][4]) if lens and lens[0][3] else ("?",)
                        # the length added must be that of the chunk of source items the handler was given (a parameter), not of
                        # something computed from it (the items that passed the filter ..)
                        eff = sign + ("len" if recv[0] == "param" and recv[1] >= 2 else "len(of `%s`, not of the source chunk)" % fmt(recv, 2))
            out.append((eff, b.post_dominated_by(0, [loc[0]]), loc))
    if depth < 2:
        for blk, t in b.calls():
            c = F.local_callee(f, t)
            if c is not None and c.path.startswith("vector::filter::FilterImplProj::") and c.kind == "assoc" and c is not f:
                for eff, ev, loc in len_effects(F, c, depth + 1):
                    out.append((eff, ev and b.post_dominated_by(0, [blk]), (blk, 10 ** 6)))
    return out


def r10_3(ctx, handlers):
    F = ctx.facts
    n = 0
    for key, (h, vs) in handlers.items():
        effs = len_effects(F, h)
        # effects hidden in closures of the handler (conditional by construction)
        hidden = []
        for c in F.children.get(h.key, []):
            if c.built:
                for loc, s in c.built.iter_stmts():
                    if s["k"] == "assign" and last_field(s["place"]) == "original_len":
                        hidden.append((c, loc))
        for v in sorted(vs):
            n += 1
            want = LEN_EFFECT[v]
            got = [e for e, ev, loc in effs if ev]
            cond = [e for e, ev, loc in effs if not ev]
            norm = "".join(got)
            ok = {"0": norm == "", "+1": norm == "+1", "-1": norm == "-1", "+len": norm == "+len", "=0": norm == "=0", "=arg": norm == "=arg", "=len": norm in ("=0+len", "=len")}[want]
            where = h.loc()
            if ok and not cond and not hidden:
                ctx.holds("R10.3", h, "source-length:%s" % v, where, "net effect on original_len is `%s` on every path (%s)" % (want, norm or "none"))
            elif hidden or cond:
                ctx.violated("R10.3", h, "source-length:%s" % v, (hidden[0][0].built.line_at(hidden[0][1]) if hidden else where),
                             "`%s` updates the recorded source length only conditionally (%s) while a `%s` always changes the source length by `%s`: the recorded length drifts and later items get wrong source indices" % (
                                 h.path, "inside a closure that runs only sometimes" if hidden else "on some paths", v, want))
            else:
                ctx.violated("R10.3", h, "source-length:%s" % v, where,
                             "`%s` changes the recorded source length by `%s` for a `%s` diff, whose effect on the source is `%s`" % (h.path, norm or "nothing", v, want))
    ctx.floor("R10.3", n, 11)


def shift_loops(b):
    """[(sign, skip_expr|None, loc)] for `for idx in filtered_indices.iter_mut()[.skip(k)] { *idx +-= 1 }`"""
    out = []
    for loc, s in b.iter_stmts():
        if s["k"] == "assign" and s["place"]["proj"] == ["deref"] and ("&mut usize" in b.locals[s["place"]["l"]]["ty"] or b.locals[s["place"]["l"]]["ty"] == "?"):
            e = b.expr_of_rv(s["rv"], 8, ())
            adds = find_all(e, lambda y: y[0] == "bin" and re.match(r"(Add|Sub)", y[1]))
            if not adds or not is_const_int(adds[0][3], 1):
                continue
            item = b.expr_of_local(s["place"]["l"])
            if not contains(item, lambda y: y[0] == "call" and ecall_matches(y, r"VecDeque::<.*>::iter_mut$|IterMut")):
                continue
            skips = find_all(item, lambda y: y[0] == "call" and ecall_matches(y, r"Iterator>?::skip$"))
            other = find_all(item, lambda y: y[0] == "call" and isinstance(y[1], str) and re.search(r"Iterator>?::(take|filter|step_by|rev|skip_while|take_while)$", y[1]))
            out.append(("+" if adds[0][1].startswith("Add") else "-", skips[0][3][1] if skips else None, loc, other))
    return out


def r10_4(ctx, handlers):
    n = 0
    want = {"PushFront": ("+", False), "PopFront": ("-", False), "Insert": ("+", True), "Remove": ("-", True)}
    for key, (h, vs) in handlers.items():
        b = inl(ctx.facts, h, desugar=True)   # `iter_mut().for_each(|i| *i += 1)` is the same loop as `for i in iter_mut() { *i += 1 }`
        loops = shift_loops(b)
        for v in sorted(vs):
            n += 1
            where = b.line_at(loops[0][2]) if loops else h.loc()
            if v not in want:
                ctx.verdict(not loops, "R10.4", h, "index-shift:%s" % v, where, "no shift of the kept indices for %s" % v,
                            "`%s` shifts the kept source indices although a `%s` does not move any remaining item" % (h.path, v))
                continue
            sign, from_pp = want[v]
            if len(loops) != 1:
                ctx.violated("R10.4", h, "index-shift:%s" % v, where, "`%s` performs %d shift loops over the kept indices (a `%s` must shift %s by %s1 exactly once)" % (
                    h.path, len(loops), v, "the indices from the partition point on" if from_pp else "all indices", sign))
                continue
            s, skip, loc, other = loops[0]
            probs = []
            if s != sign:
                probs.append("shifts by %s1 instead of %s1" % (s, sign))
            if other:
                probs.append("restricts the shifted range with `%s`" % other[0][1].split("::")[-1])
            if from_pp:
                x = strip(skip, through_calls=False) if skip is not None else None
                if x is None:
                    probs.append("shifts all kept indices instead of those from the position of the changed item on")
                elif not (x[0] == "call" and ecall_matches(x, r"::partition_point$")) or has_arith(skip):
                    probs.append("starts shifting at `%s`, not at the partition point of the changed source index" % fmt(skip, 4))
            elif skip is not None and not is_const_int(skip, 0):
                probs.append("skips the first `%s` kept indices" % fmt(skip, 3))
            # order of the two effects: the entry for the new item is recorded after the shift (or outside its range) - recorded
            # before it, the new entry is shifted along with the old ones and remembers a source index one too high
            for iblk, it in b.calls(r"VecDeque::<usize.*>::(push_front|insert)$"):
                if loc[0] in b.reachable_from(iblk) and loc[0] != iblk:
                    starts_after = skip is not None and has_arith(skip)
                    if v == "PushFront" or not starts_after:
                        probs.append("records the new item's source index (bb%d) *before* shifting the kept indices (bb%d): the new entry is shifted too and ends up one too high" % (iblk, loc[0]))
                        break
            # a path that returns without entering the shift loop is only right if nothing needs shifting: it must have
            # established that no kept index lies at or behind the changed source position (strictly: the item *at* that
            # position moves too)
            from .c11 import loop_entry
            site = loop_entry(b, loc[0])
            if v in ("Insert", "PushFront", "Remove", "PopFront"):
                verdict_bp = bypass_guard(ctx, h, b, site, v)
                if verdict_bp:
                    probs.append(verdict_bp)
            ctx.verdict(not probs, "R10.4", h, "index-shift:%s" % v, b.line_at(loc), "%s: kept indices %s are shifted by %s1" % (v, "from the partition point on" if from_pp else "(all)", sign),
                        "`%s`: %s" % (h.path, "; ".join(probs)))
    ctx.floor("R10.4", n, 11)


def r10_5(ctx, handlers):
    F = ctx.facts
    n = 0
    for key, (h, vs) in handlers.items():
        hb = h.built
        bodies = [h] + [c for c in F.children.get(h.key, [])]
        for c in bodies:
            cb = c.built
            if not cb:
                continue
            for loc, s in cb.iter_stmts():
                if not (s["k"] == "assign" and s["rv"]["k"] == "agg" and (s["rv"].get("adt") or "").endswith("::VectorDiff")):
                    continue
                for name, op in zip(s["rv"]["fields"], s["rv"]["ops"]):
                    if name not in ("index", "length"):
                        continue
                    n += 1
                    e = cb.expr_of_op(op)
                    x = strip(e)
                    # captured variable -> the parent's local of that name
                    src = e
                    if c is not h and x[0] == "field":
                        vn = x[2]
                        for i, l in enumerate(hb.locals):
                            if l["name"] == vn and i > hb.arg_count:
                                src = hb.expr_of_local(i)
                        if src is e:
                            for i in range(1, hb.arg_count + 1):
                                if hb.locals[i]["name"] == vn:
                                    src = ("param", i, vn)
                    y = strip(src, through_calls=False)
                    where = cb.line_at(loc)
                    from_search = y[0] == "call" and ecall_matches(y, r"::partition_point$|Iterator>?::count$|::binary_search(_by)?(_key)?$") and contains(y, lambda z: z[0] == "field" and z[2] == "filtered_indices")
                    if from_search and not has_arith(src):
                        ctx.holds("R10.5", h, "%s.%s" % (s["rv"]["variant"], name), where, "emitted %s.%s is the position found in the kept-index list" % (s["rv"]["variant"], name))
                    elif y[0] == "param" or has_arith(src):
                        ctx.violated("R10.5", h, "%s.%s" % (s["rv"]["variant"], name), where,
                                     "`%s` emits `%s { %s: %s }`: a %s, not the position of the item in the filtered view" % (
                                         h.path, s["rv"]["variant"], name, fmt(src, 4), "source index" if y[0] == "param" else "position modified by arithmetic"))
                    else:
                        ctx.undecided("R10.5", h, "%s.%s" % (s["rv"]["variant"], name), where, "provenance not recognised: %s" % fmt(src, 4))
    ctx.floor("R10.5", n, 6)


def r10_7(ctx):
    """constructors: the recorded source length starts as the length of the *given* vector, read before it is filtered."""
    F = ctx.facts
    n = 0
    for f in F.find(crate=UT, name="new"):
        if not re.match(r"vector::filter::(Filter|FilterMap)::<", f.path) or not f.built:
            continue
        b = f.built
        for loc, s in b.iter_stmts():
            if not (s["k"] == "assign" and s["rv"]["k"] == "agg" and s["rv"].get("adt") == "vector::filter::FilterImpl"):
                continue
            n += 1
            e = b.expr_of_op(s["rv"]["ops"][s["rv"]["fields"].index("original_len")])
            x = strip(e, through_calls=False)
            where = b.line_at(loc)
            if not (x[0] == "call" and ecall_matches(x, r"::len$")):
                ctx.undecided("R10.7", f, "initial-source-length", where, "original_len = %s" % fmt(e, 4))
                continue
            recv = strip(x[3][0])
            if recv[0] == "phi" and len(recv) > 2:
                # `values` is re-bound later (`values = values.into_iter().filter(..).collect()`): only the definitions that can
                # reach the `len()` call count - the parameter itself, and assignments whose block dominates the call
                alive = [alt for alt, dl in zip(recv[1], recv[2]) if dl is None or (b.dominates(dl[0], x[4][0]) and dl[0] != x[4][0]) or (dl[0] == x[4][0] and dl[1] < x[4][1])]
                if len(alive) == 1:
                    recv = strip(alive[0])
            of_param = recv[0] == "param" and recv[1] == 1
            # no in-place filtering of the parameter before the length is read
            filt = [blk for blk, t in b.calls(r"::(retain|retain_mut|truncate|split_off|clear|remove|pop_front|pop_back)$") if strip(b.expr_of_op(t["args"][0]))[0] == "param" and strip(b.expr_of_op(t["args"][0]))[1] == 1]
            whole_, _ = b.defs
            rebinds = [dl[0] for dl, kind_, pl_ in whole_.get(1, [])]   # `values = <filtered values>` before the length is read
            early = any(b.dominates(fb, x[4][0]) for fb in filt) or any(b.dominates(rb, x[4][0]) and rb != x[4][0] for rb in rebinds)
            ctx.verdict(of_param and not early, "R10.7", f, "initial-source-length", where, "original_len = values.len() of the given vector, read before filtering",
                        "`%s` initialises the recorded source length with `%s`%s: it must be the length of the unfiltered source, otherwise every later length-dependent diff gets wrong source indices" % (
                            f.path, fmt(e, 4), " after the vector was filtered in place" if early else ", which is not the given vector"))
    ctx.floor("R10.7", n, 2)
    # R10.9 the initial kept indices are positions in the *unfiltered* input: the enumeration sits below the filter
    POS_CHANGING = r"Iterator>?::(filter|filter_map|skip|skip_while|take_while|step_by|rev|flat_map|flatten|chain|dedup|scan|map_while)$"
    for f in F.find(crate=UT, name="new"):
        if not re.match(r"vector::filter::(Filter|FilterMap)::<", f.path) or not f.built:
            continue
        b = f.built
        for loc, s in b.iter_stmts():
            if not (s["k"] == "assign" and s["rv"]["k"] == "agg" and s["rv"].get("adt") == "vector::filter::FilterImpl"):
                continue
            e = b.expr_of_op(s["rv"]["ops"][s["rv"]["fields"].index("filtered_indices")])
            enums = find_all(e, lambda y: y[0] == "call" and ecall_matches(y, r"Iterator>?::enumerate$"))
            where = b.line_at(loc)
            if not enums:
                verdict = counter_idiom(F, f, b)
                if verdict is None:
                    ctx.undecided("R10.9", f, "initial-indices-enumerate-the-source", where, "no enumerate() in the provenance of filtered_indices: %s" % fmt(e, 4))
                elif verdict[0]:
                    ctx.holds("R10.9", f, "initial-indices-enumerate-the-source", where, verdict[1])
                else:
                    ctx.violated("R10.9", f, "initial-indices-enumerate-the-source", where, verdict[1])
                continue
            below = find_all(enums[0][3][0], lambda y: y[0] == "call" and isinstance(y[1], str) and re.search(POS_CHANGING, y[1]))
            ctx.verdict(not below, "R10.9", f, "initial-indices-enumerate-the-source", where, "enumerate() is applied to the unfiltered input",
                        "`%s` numbers the initial items with enumerate() *after* `%s`: the recorded indices are positions in the filtered output, not in the source, so every later positional diff is mapped to the wrong item" % (
                            f.path, below[0][1].split("::")[-1] if below else ""))


def r10_12(ctx):
    """contract table, negative entry: `imbl::Vector::retain` is NOT trusted in the pinned imbl 5.0.0 - through `FocusMut::swap` it
    garbles a vector whose first chunk has been consumed from the front (reproduced: (0..195) after 131 pop_fronts). No adapter may
    filter a vector in place with it (F9, repaired by 2cafcea: rebuild with into_iter().filter(..).collect())."""
    F = ctx.facts
    n = 0
    for f in [x for x in F.fns.values() if x.crate in (UT, IM)]:
        b = f.built
        if not b:
            continue
        for blk, t in b.calls(r"^imbl::GenericVector::<.*>::(sort|sort_by|sort_by_key)$"):
            n += 1
            root = root_fn(F, f)
            ctx.violated("R10.12", root, "no-imbl-sort", b.line_at((blk, 10 ** 6)),
                         "`%s` sorts with imbl's `Vector::%s`, which in the pinned imbl 5.0.0 is a recursive quicksort whose depth is linear in the number of items that compare equal: a few thousand ties overflow the stack and abort the process (F11)" % (root.path, (t.get("callee") or "").split("::")[-1]))
        for blk, t in b.calls(r"^imbl::GenericVector::<.*>::retain$|^imbl::vector::FocusMut::<.*>::(swap|pair|triplet)$|^imbl::vector::focus::FocusMut::<.*>::(swap|pair|triplet)$"):
            n += 1
            root = root_fn(F, f)
            what = (t.get("callee") or "").split("::")[-1]
            ctx.violated("R10.12", root, "no-imbl-retain", b.line_at((blk, 10 ** 6)),
                         "`%s` uses imbl's `%s`, which in the pinned imbl 5.0.0 (FocusMut::swap / pair / triplet, and Vector::retain built on them) ignores the offset of a leaf chunk that was consumed from the front: on an ObservableVector after pop_front it drops / permutes items, so the result is not what the operation documents" % (root.path, what))
    if not n:
        ctx.holds("R10.12", None, "no-imbl-retain", None, "no call of imbl::Vector::retain / sort* / FocusMut::{swap, pair, triplet} in eyeball-im and eyeball-im-util")


def r10_11(ctx):
    """source positions of a chunk of new items (Append / Reset / constructor) are recorded by position in the *unfiltered* chunk:
    (a) an `enumerate()` whose indices end up in the kept-index list sits below every position-changing adaptor (filter, filter_map,
    skip ..); (b) a running counter that is pushed onto the kept-index list does not start from the kept-index list itself (the last
    kept index + 1 forgets the rejected items behind it) - it starts at 0 or at the recorded source length."""
    F = ctx.facts
    POS_CHANGING = r"Iterator>?::(filter|filter_map|skip|skip_while|take_while|step_by|rev|flat_map|flatten|chain|dedup|scan|map_while)$"
    n = 0
    for f in F.find(crate=UT):
        if not f.built or "vector::filter::" not in f.path:
            continue
        b = f.built
        # (a)
        for blk, t in b.calls(r"Iterator>?::enumerate$"):
            recv = b.expr_of_op(t["args"][0])
            below = find_all(recv, lambda y: y[0] == "call" and isinstance(y[1], str) and re.search(POS_CHANGING, y[1]))
            # does a consumer of this enumeration push onto a VecDeque<usize> (the kept list)?
            consumers = [F.fns.get(f.crate + "::" + g_) for blk2, t2 in b.calls() for g_ in (t2.get("garg_defs") or []) if g_]
            pushes = any(c is not None and c.built and c.built.calls(r"VecDeque::<.*>::push_back$") for c in consumers) or bool(b.calls(r"VecDeque::<.*>::push_back$"))
            if not pushes:
                continue
            n += 1
            ctx.verdict(not below, "R10.11", root_fn(F, f), "chunk-positions-are-source-positions:enumerate", b.line_at((blk, 10 ** 6)), "enumerate() is applied to the unfiltered chunk",
                        "`%s` numbers the items of a chunk with enumerate() *after* `%s`: the recorded indices are positions among the kept items, not in the source, so later positional diffs are mapped to the wrong item" % (
                            f.path, below[0][1].split("::")[-1] if below else ""))
        # (b)
        if f.kind != "closure":
            continue
        cb = b
        if not cb.calls(r"VecDeque::<.*>::push_back$"):
            continue
        incs = []
        for loc, s_ in cb.iter_stmts():
            if s_["k"] != "assign" or not s_["place"]["proj"] or s_["place"]["l"] != 1:
                continue
            nm = (last_field(s_["place"]) or "").lstrip("*&").split(".")[-1]
            e2 = cb.expr_of_rv(s_["rv"], 8, ())
            adds = find_all(e2, lambda y: y[0] == "bin" and y[1].startswith("Add"))
            if adds and is_const_int(adds[0][3], 1) and mentions_field(adds[0][2], nm):
                incs.append(nm)
        if not incs:
            continue
        nm = incs[0]
        parent = F.fns.get(f.crate + "::" + (f.raw.get("parent") or ""))
        if parent is None or not parent.built:
            continue
        pb = parent.built
        for i, l in enumerate(pb.locals):
            if l.get("name") != nm:
                continue
            whole, _ = pb.defs
            ds = whole.get(i, [])
            if len(ds) != 1:
                continue
            loc, kind, payload = ds[0]
            e = pb.expr_of_rv(payload, 10, (), loc) if kind == "assign" else pb.expr_of_call(payload, 10, (), loc)
            n += 1
            from_kept = contains(e, lambda y: y[0] == "call" and ecall_matches(y, r"VecDeque::<.*>::(back|front|len|get|iter|last)$|::last$"))
            ctx.verdict(not from_kept, "R10.11", root_fn(F, parent), "chunk-positions-are-source-positions:counter", pb.line_at(loc), "the counter `%s` starts at `%s`" % (nm, fmt(e, 3)),
                        "`%s` starts the source-index counter `%s` from the kept-index list (`%s`): rejected items at the end of the source (or a source with no kept item at all) are not counted, so the items of the new chunk are recorded at too small source indices" % (
                            parent.path, nm, fmt(e, 4)))
    ctx.floor("R10.11", n, 1)


def counter_idiom(F, f, b):
    """the other way of numbering the initial items: a per-item closure given to `retain` / `for_each` on the source vector pushes a
    captured counter that starts at 0 and is incremented by 1 per call (R10.8 decides "on every path"). Decided here: the counter
    starts at 0, the pushed value is the counter, and on the path of a call the push comes before the increment.
    returns (ok, text) or None when the idiom is not present."""
    for c in F.children.get(f.key, []):
        if c.kind != "closure" or not c.built:
            continue
        cb = c.built
        pushes = [(blk, t) for blk, t in cb.calls(r"VecDeque::<.*>::push_back$|Vec::<.*>::push$")]
        incs = []
        for loc, s_ in cb.iter_stmts():
            if s_["k"] != "assign" or not s_["place"]["proj"] or s_["place"]["l"] != 1:
                continue
            nm = (last_field(s_["place"]) or "").lstrip("*&").split(".")[-1]
            e2 = cb.expr_of_rv(s_["rv"], 8, ())
            adds = find_all(e2, lambda y: y[0] == "bin" and y[1].startswith("Add"))
            if adds and is_const_int(adds[0][3], 1) and mentions_field(adds[0][2], nm):
                incs.append((loc, nm))
        if not pushes or not incs:
            continue
        nm = incs[0][1]
        # the closure is handed to a whole-vector traversal of the parameter
        used = [t for blk, t in b.calls(r"GenericVector::<.*>::(retain|iter|into_iter)$|Iterator>?::(for_each|filter|filter_map|map|inspect)$") if c.path in (t.get("garg_defs") or []) or any(isinstance(g_, str) and g_ == c.path for g_ in (t.get("garg_defs") or []))]
        pblk, pt = pushes[0]
        pushed = cb.expr_of_op(pt["args"][1])
        is_counter = strip(pushed)[0] == "field" and strip(pushed)[2] == nm
        # initial value of the captured local in the parent: a constant 0
        init0 = False
        for i, l in enumerate(b.locals):
            if l.get("name") == nm:
                whole, _ = b.defs
                ds = whole.get(i, [])
                init0 = len(ds) == 1 and ds[0][1] == "assign" and ds[0][2]["k"] == "use" and ds[0][2]["op"]["k"] == "const" and ds[0][2]["op"].get("int") == 0
        before = not any(pblk in cb.reachable_from(loc[0]) and pblk != loc[0] for loc, _ in incs)
        if not used:
            return None
        if is_counter and init0 and before:
            return True, "the initial items are numbered by a captured counter that starts at 0, is pushed for kept items and incremented once per item after the push"
        why = "does not push the counter" if not is_counter else ("does not start at 0" if not init0 else "is incremented before it is pushed")
        return False, "`%s` numbers the initial items with the counter `%s`, which %s: the recorded source indices of the kept items are wrong from the start" % (f.path, nm, why)
    return None


def r10_8(ctx):
    """per-item closures that enumerate the source (a captured counter incremented by 1) count every item, on every path."""
    F = ctx.facts
    n = 0
    for c in F.find(crate=UT):
        if c.kind != "closure" or not c.path.startswith("vector::filter::") or not c.built:
            continue
        cb = c.built
        incs = []
        for loc, s in cb.iter_stmts():
            if s["k"] != "assign":
                continue
            nm = last_field(s["place"])
            if not nm or not s["place"]["proj"] or s["place"]["l"] != 1:
                continue
            e = cb.expr_of_rv(s["rv"], 8, ())
            adds = find_all(e, lambda y: y[0] == "bin" and y[1].startswith("Add"))
            if adds and is_const_int(adds[0][3], 1) and contains(adds[0][2], lambda y: y[0] == "field" and y[2] == nm.lstrip("*&").split(".")[-1]):
                incs.append((loc, nm))
        if not incs:
            continue
        n += 1
        blks = [loc[0] for loc, _ in incs]
        ok = cb.post_dominated_by(0, blks)
        ctx.verdict(ok, "R10.8", root_fn(F, c), "counter-counts-every-item:%s" % incs[0][1].lstrip("*&").split(".")[-1], cb.line_at(incs[0][0]),
                    "the source-index counter `%s` is incremented on every path of the per-item closure" % incs[0][1],
                    "the per-item closure `%s` can return without incrementing the source-index counter `%s` (e.g. an early return for rejected items): every kept item after a rejected one is remembered at too small a source index" % (c.path, incs[0][1]))
    ctx.floor("R10.8", n, 1)   # the per-item closures may be merged into one shared function


def bypass_guard(ctx, h, b, site, v):
    """returns a problem string if some path bypasses the shift loop without having established `last kept index < index`."""
    from .common import paths_between
    rets = [r for r in b.return_blocks() if r in b.reachable_from(0, avoid_blocks=[site])]
    for r in rets:
        for path in paths_between(b, 0, r, limit=300):
            if site in path:
                continue
            facts = []
            feasible = True
            for i in range(len(path) - 1):
                for fct in conds.path_edge_facts(b, path, i):
                    if fct[0] == "infeasible":
                        feasible = False
                    facts.append(fct)
            if not feasible:
                continue
            is_last = lambda e: contains(e, lambda y: y[0] == "call" and isinstance(y[1], str) and re.search(r"VecDeque::<.*>::(back|back_mut)$|::last$", y[1]))
            is_idx = lambda e: contains(e, lambda y: y[0] == "param" and y[1] >= 2 and (y[2] or "") in ("index", "original_idx", "idx")) or contains(e, lambda y: y[0] == "param" and y[1] == 2)
            empty = any(f[0] == "variant" and f[2] == frozenset(["None"]) and is_last(f[1]) for f in facts) or \
                any(f[0] == "truth" and f[2] is True and f[1][0] == "call" and ecall_matches(f[1], r"::is_empty$") for f in facts)
            if empty:
                continue
            if conds.cmp_holds(facts, "Lt", is_last, is_idx):
                continue
            if v == "Remove" and conds.cmp_holds(facts, "Le", is_last, is_idx):
                continue   # the item at the removed index leaves, nothing behind it
            # a guard that does not look at the kept-index list at all (the new value being rejected, a flag ..) cannot have established
            # that no kept index lies at or behind the changed position: the items behind it move in the source whatever the guard says
            about_kept = any(isinstance(f[1], tuple) and (mentions_field(f[1], "filtered_indices") or is_last(f[1])) for f in facts if len(f) > 1)
            if not about_kept:
                return ("a path returns without shifting the kept indices (bb%d bypassed) under a condition that does not depend on the kept-index list (%s): "
                        "the items behind the changed position move in the source whether or not that condition holds, so their remembered positions are stale afterwards "
                        "- a later Set / Remove addressing one of them is translated to the wrong view position" % (
                            site, "; ".join(sorted({fmt(f[1], 3)[:60] for f in facts if len(f) > 1 and isinstance(f[1], tuple)}))[:160] or "unconditionally"))
            if v in ("Remove", "PopFront"):
                # the kept list may also have just lost its only entry; anything else is not recognised
                ctx.undecided("R10.4", h, "index-shift-bypass:%s" % v, b.line_at((path[-1], 0)), "a path bypasses the shift loop under a guard that is not recognised")
                return None
            if conds.cmp_holds(facts, "Le", is_last, is_idx):
                return "a path returns without shifting (bb%d bypassed) after testing only `last kept index <= index`: when the last kept item sits exactly at the insertion index it moves one position up but keeps its old recorded index" % site
            if v == "PushFront":
                return "a path returns without shifting the kept indices (bb%d bypassed): every kept item moves one position up on a PushFront" % site
            # unknown guard for Insert: not decided
            ctx.undecided("R10.4", h, "index-shift-bypass:%s" % v, b.line_at((path[-1], 0)), "a path bypasses the shift loop under a guard that is not recognised")
            return None
    return None


def _read_loc_of_field(b, op, field, depth=0):
    """location of the statement that reads `field` (through plain copies / moves / casts) to produce operand `op`, or None."""
    if depth > 6 or op.get("k") not in ("move", "copy"):
        return None
    pl = op["place"]
    whole, _ = b.defs
    if pl["proj"]:
        if last_field(pl) == field:
            return ("here",)
        # a capture of an (inlined) closure: `(*env.k)` where env was built as `closure { .., k: &local, .. }`
        first = pl["proj"][0]
        ds = whole.get(pl["l"], [])
        hops = 0
        while len(ds) == 1 and ds[0][1] == "assign" and ds[0][2]["k"] == "use" and ds[0][2]["op"].get("k") in ("move", "copy") and not ds[0][2]["op"]["place"]["proj"] and hops < 6:
            ds = whole.get(ds[0][2]["op"]["place"]["l"], [])   # the environment moved into the (inlined) callee's parameter
            hops += 1
        if isinstance(first, dict) and "f" in first and len(ds) == 1 and ds[0][1] == "assign" and ds[0][2]["k"] == "agg" and ds[0][2].get("of") == "closure":
            ops = ds[0][2]["ops"]
            if first["f"] < len(ops):
                cap = ops[first["f"]]
                if cap.get("k") in ("move", "copy") and not cap["place"]["proj"]:
                    cds = whole.get(cap["place"]["l"], [])
                    if len(cds) == 1 and cds[0][1] == "assign" and cds[0][2]["k"] in ("ref", "raw"):
                        return _read_loc_of_field(b, {"k": "copy", "place": cds[0][2]["place"]}, field, depth + 1)
                return _read_loc_of_field(b, cap, field, depth + 1)
        return None
    ds = whole.get(pl["l"], [])
    if len(ds) != 1:
        return None
    loc, kind, payload = ds[0]
    if kind != "assign":
        return None
    rv = payload
    if rv["k"] == "use":
        o = rv["op"]
        if o.get("k") in ("move", "copy") and o["place"]["proj"] and last_field(o["place"]) == field:
            return loc
        return _read_loc_of_field(b, o, field, depth + 1)
    return None


def r10_13(ctx, handlers):
    """the entry recorded for a kept item is its position in the SOURCE: for a PushBack that is the source length *before* the push.
    The handler keeps the source length in a counter it also increments: the value recorded is read before the increment (or read
    after it and reduced by one). Read after the increment and recorded as it is, the new item's remembered position is one too
    high - the emitted PushBack is still right, but a later Set / Remove / PopBack of that item is looked up at the wrong position."""
    n = 0
    for key, (h, vs) in handlers.items():
        if "PushBack" not in vs or len(vs) != 1:
            continue
        b = inl(ctx.facts, h, desugar=True) or h.built
        incs = [loc for loc, s_ in assigns_to_field(b, "original_len")]
        for blk, t in b.calls(r"VecDeque::<usize.*>::push_back$"):
            n += 1
            where = b.line_at((blk, 10 ** 6))
            op = t["args"][1]
            e = b.expr_of_op(op)
            if not mentions_field(e, "original_len"):
                ctx.undecided("R10.13", h, "recorded-position:PushBack", where, "the recorded position `%s` is not derived from the source-length counter" % fmt(e, 3))
                continue
            arith = has_arith(e)
            rl = _read_loc_of_field(b, op, "original_len")
            if rl == ("here",):
                rl = (blk, len(b.blocks[blk]["stmts"]))
            if rl is None or not incs or arith:
                if arith and rl is None:
                    ctx.undecided("R10.13", h, "recorded-position:PushBack", where, "recorded position computed as `%s`" % fmt(e, 3))
                    continue
                if rl is None or not incs:
                    ctx.undecided("R10.13", h, "recorded-position:PushBack", where, "read of the counter not located")
                    continue
            before = all((rl[0] == i[0] and rl[1] < i[1]) or (rl[0] != i[0] and b.dominates(rl[0], i[0])) for i in incs)
            after = all((rl[0] == i[0] and rl[1] > i[1]) or (rl[0] != i[0] and b.dominates(i[0], rl[0])) for i in incs)
            minus1 = bool(find_all(e, lambda y: y[0] == "bin" and y[1].startswith("Sub") and is_const_int(y[3], 1)))
            if (before and not arith) or (after and minus1):
                ctx.holds("R10.13", h, "recorded-position:PushBack", where, "the recorded position is the source length before the push (%s)" % ("read before the increment" if before else "read after it, minus 1"))
            elif after and not arith:
                ctx.violated("R10.13", h, "recorded-position:PushBack", where,
                             "`%s` records the source-length counter *after* incrementing it as the new item's source position: the item pushed to the back sits at the old length, so its entry is one too high; "
                             "the PushBack it emits is right, but the next Set / Remove / PopBack / Truncate that addresses the item by index does not find it (or finds a neighbour)" % h.path)
            else:
                ctx.undecided("R10.13", h, "recorded-position:PushBack", where, "order of the counter read and its increment not decided")
    ctx.floor("R10.13", n, 1)


def r10_14(ctx, handlers):
    """derived caches stay coherent with the kept-index list.  A field of the filter state besides the kept-index list and the source
    length that remembers a *position in that list* (a cached search result) is only valid while no entry at or before it appears,
    disappears or is renumbered.  Every handler that removes entries from the list, inserts in front / in the middle of it, clears
    or renumbers it therefore writes that field (invalidates or re-computes it); handlers that only append at the end are exempt.
    A single handler that forgets it leaves a stale position behind that a later handler uses instead of searching."""
    F = ctx.facts
    adt = None
    for path, a in F.adts.items():
        if path.startswith(UT + "::vector::filter::") and a.get("variants") and any(fd["name"] == "filtered_indices" for fd in a["variants"][0]["fields"]) \
                and not any(str(fd["ty"]).startswith("&") for fd in a["variants"][0]["fields"] if fd["name"] == "filtered_indices"):
            adt = a
    if adt is None:
        return
    caches = [fd["name"] for fd in adt["variants"][0]["fields"]
              if fd["name"] not in ("filtered_indices", "original_len") and re.match(r"^(std::option::Option<)?[\(\)usizebol, ]+>?$", str(fd["ty"]).replace("std::option::Option<", "std::option::Option<"))]
    n = 0
    for c in caches:
        for key, (h, vs) in sorted(handlers.items()):
            b = inl(F, h, desugar=True) or h.built
            is_kept = lambda t: t["args"] and mentions_field(b.expr_of_op(t["args"][0]), "filtered_indices")
            disturbing = [blk for blk, t in b.calls(KEPT_SHRINK + "|" + KEPT_OTHER + r"|VecDeque::<.*>::(push_front|insert)$") if is_kept(t)] + [l_[2][0] for l_ in shift_loops(b)]
            if not disturbing:
                continue
            n += 1
            writes = [loc for loc, s_ in assigns_to_field(b, c)]
            ctx.verdict(bool(writes), "R10.14", h, "cache-invalidated:%s" % c, b.line_at((disturbing[0], 10 ** 6)), "`%s` is written (invalidated / recomputed) where the kept-index list is disturbed" % c,
                        "`%s` removes, inserts or renumbers entries of the kept-index list but leaves the cached position `%s` as it is: when the cached entry is the one that disappears (or one before it does), a later handler that trusts the cache "
                        "instead of searching addresses the wrong position - e.g. a Set is turned into an Insert and the view gets a duplicate" % (h.path, c))
    return n


KEPT_GROW = r"VecDeque::<.*>::(push_back|push_front|insert)$"
KEPT_SHRINK = r"VecDeque::<.*>::(pop_back|pop_front|remove)$"
KEPT_OTHER = r"VecDeque::<.*>::(clear|truncate|drain|retain|retain_mut|split_off|append|extend|resize)$"


def r10_10(ctx, handlers):
    """filter mirror rule: the filtered view has exactly one item per entry of the kept-index list, so on every path of the
    single-item handlers (PushFront, PushBack, PopFront, PopBack, Insert, Set, Remove) the change of the list's length equals
    the effect of the diff the handler returns: an entry added <=> PushFront / PushBack / Insert, an entry removed <=> PopFront /
    PopBack / Remove, unchanged <=> Set or nothing. (A handler that emits Remove but keeps the entry, or records an entry for an
    item it does not announce, leaves view and bookkeeping one item apart for good.)"""
    F = ctx.facts
    n = 0
    WANT = {"PushFront": 1, "PushBack": 1, "Insert": 1, "PopFront": -1, "PopBack": -1, "Remove": -1, "Set": 0, None: 0}
    for key, (h, vs) in handlers.items():
        if not (set(vs) & {"PushFront", "PushBack", "PopFront", "PopBack", "Insert", "Set", "Remove"}):
            continue
        b = inl(F, h, desugar=True, tag="r10.10") or h.built
        n += 1
        is_kept = lambda t: t["args"] and mentions_field(b.expr_of_op(t["args"][0]), "filtered_indices")
        delta = {}
        unknown = None
        for blk, t in b.calls(KEPT_GROW):
            if is_kept(t):
                delta[blk] = 1
        for blk, t in b.calls(KEPT_SHRINK):
            if is_kept(t):
                delta[blk] = -1
        for blk, t in b.calls(KEPT_OTHER):
            if is_kept(t):
                unknown = (t.get("callee") or "").split("::")[-1]
        aggs = {}
        for loc, s_ in b.iter_stmts():
            if s_["k"] == "assign" and s_["rv"]["k"] == "agg" and (s_["rv"].get("adt") or "").endswith("::VectorDiff"):
                aggs.setdefault(loc[0], []).append(s_["rv"]["variant"])
        where = h.loc()
        if unknown:
            ctx.undecided("R10.10", h, "kept-list-mirrors-the-emitted-diff", where, "the handler also applies `%s` to the kept-index list" % unknown)
            continue
        probs = []
        undec = None
        for r in b.return_blocks():
            for path in paths_between(b, 0, r, limit=400):
                d = sum(delta.get(blk, 0) for blk in path)
                vs_on = [v_ for blk in path for v_ in aggs.get(blk, [])]
                # infeasible combinations of desugared switches are pruned with the path-sensitive facts
                feasible = True
                for i in range(len(path) - 1):
                    if any(fct[0] == "infeasible" for fct in conds.path_edge_facts(b, path, i)):
                        feasible = False
                        break
                if not feasible:
                    continue
                if len(vs_on) > 1:
                    undec = "several diffs are built on one path (%s)" % vs_on
                    continue
                v_ = vs_on[0] if vs_on else None
                if v_ not in WANT:
                    undec = "returns %s" % v_
                    continue
                if d != WANT[v_]:
                    probs.append("a path changes the kept-index list by %+d entr%s but returns %s" % (d, "y" if abs(d) == 1 else "ies", ("`%s`" % v_) if v_ else "no diff"))
        if probs:
            ctx.violated("R10.10", h, "kept-list-mirrors-the-emitted-diff", where, "`%s`: %s: the filtered view and the list of kept source indices differ by one item from then on" % (h.path, sorted(set(probs))[0]))
        elif undec:
            ctx.undecided("R10.10", h, "kept-list-mirrors-the-emitted-diff", where, undec)
        else:
            ctx.holds("R10.10", h, "kept-list-mirrors-the-emitted-diff", where, "on every path the change of the kept-index list matches the returned diff")
    ctx.floor("R10.10", n, 7)
