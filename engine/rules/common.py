"""Shared role finders and small analyses used by several property modules."""
import re
from ..facts import (strip, ecall_matches, call_matches, contains, find_all, mentions_param,
                     mentions_field, mentions_call, fmt, walk)
from .. import conds

EY = "eyeball"
IM = "eyeball_im"
UT = "eyeball_im_util"


def last_field(place):
    for e in reversed(place["proj"]):
        if isinstance(e, dict) and "f" in e:
            return e["name"]
        if e == "deref":
            continue
        break
    return None


def place_fields(place):
    return [e["name"] for e in place["proj"] if isinstance(e, dict) and "f" in e]


def assigns_to_field(body, field, blocks=None):
    """[(loc, stmt)] of assignments whose target place ends in .<field>."""
    out = []
    for loc, s in body.iter_stmts(blocks):
        if s["k"] == "assign" and last_field(s["place"]) == field:
            out.append((loc, s))
    return out


def root_fn(facts, fn):
    """Outermost enclosing fn of a closure / coroutine body."""
    seen = 0
    while fn is not None and fn.kind in ("closure", "coroutine") and fn.raw["parent"] and seen < 8:
        p = facts.fns.get(fn.crate + "::" + fn.raw["parent"])
        if p is None:
            break
        fn = p
        seen += 1
    return fn


def call_graph(facts):
    """callee key -> set of (caller Fn, block) ; plus closure construction edges parent->closure."""
    cg = getattr(facts, "_cg", None)
    if cg is not None:
        return cg
    callers = {}
    for fn in facts.fns.values():
        b = fn.built
        if b is None:
            continue
        for blk, t in b.calls():
            c = facts.local_callee(fn, t)
            if c is not None:
                callers.setdefault(c.key, set()).add((fn.key, blk))
    facts._cg = callers
    return callers


def state_fns(facts):
    return [f for f in facts.fns.values() if f.crate == EY and (f.raw.get("self_ty") or "").startswith("state::ObservableState<") and not f.raw.get("impl_trait")]


def find_notify_fn(facts):
    """role: adds 1 to metadata.version."""
    out = []
    for f in state_fns(facts):
        b = f.built
        if not b:
            continue
        for loc, s in assigns_to_field(b, "version"):
            e = b.expr_of_rv(s["rv"], 8, ())
            # version = version + 1  (checked add lowers to field .0 of AddWithOverflow tuple)
            if contains(e, lambda x: x[0] == "bin" and x[1].startswith("Add")):
                out.append(f)
                break
    return out


def find_close_fn(facts):
    """role: stores a constant into metadata.version (outside a constructor)."""
    out = []
    for f in state_fns(facts):
        b = f.built
        if not b:
            continue
        for loc, s in assigns_to_field(b, "version"):
            rv = s["rv"]
            if rv["k"] == "use" and rv["op"]["k"] == "const":
                out.append((f, loc, rv["op"].get("int")))
                break
    return out


def find_poll_leaf(facts):
    """role: pushes onto the wakers list."""
    out = []
    for f in state_fns(facts):
        b = f.built
        if b and b.calls(r"^std::vec::Vec::<std::task::Waker>::push$"):
            out.append(f)
    return out


def find_wake_fn(facts):
    """role: the function (or the function whose closure) calls Waker::wake."""
    out = []
    for f in facts.fns.values():
        if f.crate != EY:
            continue
        b = f.built
        if b and (b.calls(r"^std::task::Waker::wake$") or any(a.get("k") == "const" and str(a.get("fn") or "") == "std::task::Waker::wake" for _, t in b.calls() for a in t["args"])):
            r = root_fn(facts, f)
            if r not in out:
                out.append(r)
    return out


def ret_expr(body):
    return body.expr_of_local(0)


def blocks_assigning_ret(body):
    """[(loc, kind, payload)] whole assignments of _0 (statements and call destinations)."""
    whole, _ = body.defs
    return whole.get(0, [])


def is_const_int(e, v=None):
    e = strip(e)
    return e[0] == "const" and e[3] is not None and (v is None or e[3] == v)


def agg_variant(e):
    """(adt, variant) of an ADT aggregate expression else None."""
    if e[0] == "agg" and e[1] == "adt":
        return e[2], e[3]
    return None


def paths_between(body, a, b, limit=2000):
    """acyclic block paths a -> b on normal edges (bounded)."""
    out = []
    stack = [(a, (a,))]
    while stack and len(out) < limit:
        n, path = stack.pop()
        if n == b:
            out.append(path)
            continue
        for s in body.succ[n]:
            if s not in path:
                stack.append((s, path + (s,)))
    return out


def forward_states(body, init, transfer, start=0, edge_filter=None):
    """Set-of-states forward dataflow on normal edges.
    transfer(block, state) -> iterable of out-states (applied once per block, covering stmts + terminator).
    edge_filter(block, succ, state) -> state or None to refine/kill on an edge.
    Returns (in_states: {block: set}, out_states: {block: set})."""
    ins = {start: {init}}
    outs = {}
    work = [start]
    while work:
        b = work.pop()
        o = set()
        for s in ins.get(b, ()):
            o.update(transfer(b, s))
        if outs.get(b) == o:
            continue
        outs[b] = o
        for nx in body.succ[b]:
            add = set()
            for s in o:
                s2 = edge_filter(b, nx, s) if edge_filter else s
                if s2 is not None:
                    add.add(s2)
            cur = ins.setdefault(nx, set())
            if not add <= cur:
                cur.update(add)
                work.append(nx)
            elif nx not in outs:
                work.append(nx)
    return ins, outs


def diverges(body, b):
    """block b cannot reach a return on normal edges (panic path)."""
    return not any(body.term(x)["k"] == "return" for x in body.reachable_from(b))


from ..inline import inlined, keep_also, default_keep


def inl(F, fn, *anchors, keep=None, tag=None, desugar=False):
    """body of fn with private helpers inlined; `anchors` stay calls; desugar=True: combinators (`map`, `then`, `for_each`..)
    with closure arguments are rewritten into the switch / loop they stand for and the closure is inlined."""
    if fn is None:
        return None
    k = keep or keep_also(*anchors)
    t = tag or ("k:" + ",".join(sorted(a.key for a in anchors if a is not None)))
    return inlined(F, fn, k, tag=t, desugar=desugar)


def entry_callers(F, fn, limit=6):
    """the non-private functions through which `fn` can be reached: direct callers, and - through private helpers - their callers."""
    cg = call_graph(F)
    out, seen, work = set(), set(), [fn.key]
    while work:
        k = work.pop()
        for ck, blk in cg.get(k, ()):
            c = root_fn(F, F.fns[ck])
            if c.key in seen:
                continue
            seen.add(c.key)
            if default_keep(c) or not cg.get(c.key):
                out.add(c.key)
            else:
                work.append(c.key)
    return [F.fns[k] for k in sorted(out)]



def resolve_at(body, e, at):
    """prune the alternatives of a phi that cannot be the value at location `at` (block, index): the parameter itself always can;
    an assignment can only if it happens before `at` (its block dominates, or it is earlier in the same block). A variable that is
    re-bound *after* the use (`n += v.len(); v = v.into_iter().filter(..).collect()`) then resolves to what it held at the use."""
    x = strip(e)
    if x[0] != "phi" or len(x) < 3:
        return x
    alive = []
    for alt, dl in zip(x[1], x[2]):
        if dl is None or (dl[0] == at[0] and dl[1] < at[1]) or (dl[0] != at[0] and body.dominates(dl[0], at[0])):
            alive.append(alt)
    if len(alive) == 1:
        return strip(alive[0])
    return x


def obs_rooted(f, e):
    """does the expression denote the subscriber's own `observed_version` (not a local copy of it)?  Inside a closure / coroutine the
    fields of parameter 1 are the captures, named after the captured place: `self.observed_version` (a disjoint capture of the field)
    is the field, a capture called plainly `observed_version` is a captured local variable."""
    for n in find_all(e, lambda y: y[0] == "field" and isinstance(y[2], str) and (y[2] == "observed_version" or y[2].endswith(".observed_version"))):
        if n[2] != "observed_version":
            return True
        base = n[1]
        while base[0] in ("deref", "ref"):
            base = base[1]
        if f.kind in ("closure", "coroutine") and base[0] == "param" and base[1] == 1:
            continue
        return True
    return False


