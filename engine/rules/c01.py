"""C01 — subscribers see the latest value and exactly the updates they have not observed."""
import re
from ..facts import (strip, ecall_matches, contains, find_all, fmt, mentions_field, mentions_call,
                     is_param_named, mentions_param_named, has_arith)
from .. import conds
from .common import *
from . import leaf

WITNESSES = ["W01a", "W01b"]

CRATES = (EY,)

META = {
    "explanation": (
        "Static decision of the version / observed-version protocol on MIR (all paths, both lock flavours): R01.1 every function "
        "that borrows the stored value mutably reaches the notify function on every path (update_if: on the closure's true edge); "
        "R01.2 polarity of the conditional setters (edge of `!=` / hash `!=`); R01.3 set returns mem::replace's result, conditional "
        "setters Some(set(..)); R01.4 poll leaf: None only on the closed sentinel, Ready(Some) only on strict observed < current with "
        "the current version stored, Pending only after the caller's waker was pushed; R01.5 inventory of writers of `version` "
        "(initialiser, close sentinel, +1) and their constants' relation; R01.6 inventory of writers of `observed_version` per API "
        "function (get/read never write, next_now/next_ref_now store version() read under the same guard, reset/clone_reset store a "
        "constant below the initial version, clone copies, constructors store their argument); R01.7 subscribe passes version(), "
        "subscribe_reset the reset constant; R01.8 every public setter wrapper calls the same-named state method once with its own "
        "arguments and returns its result; R01.9 no DerefMut/AsMut/BorrowMut on the handle types and no public signature returning "
        "&mut T (plus compile_fail witnesses); R01.10 Subscriber stores no T outside the lock handle. Decides these structural "
        "necessary conditions, not the behaviour of user PartialEq/Hash impls."),
    "trusted_base": ["rustc MIR construction", "std::mem::replace", "std::sync::RwLock", "readlock / readlock-tokio SharedReadLock::lock yields a read guard"],
    "assumptions": ["PartialEq / Hash of the user's T are deterministic", "the 64-bit version counter does not wrap"],
}
META["explanation"] += ' Shared clauses: R04.3 (next_now / next_ref_now read the value and mark the version under one guard) and the close / wake group.'
META["explanation"] += ' R01.6b a function that replaces the state handle of an existing Subscriber (clone_from, mem::replace, assignment) stores the matching observed version on every path.'
META["explanation"] += ' R01.13 the notify function adds 1 to the version on every path to its return (no "nobody is parked" early return). R01.14 derived state: a field of ObservableState other than value/metadata that some state method computes from the value and another reads (a cached hash, a flag) is rewritten on every path after each mutable access to the value; today there is no such field and the rule reports that.'
META["explanation"] += ' R01.4e every Ready(Some) of a subscriber poll path (both flavours) is dominated by the call of the poll leaf. R01.6 / R04.3 accept pure delegation to the sibling that is judged itself (next_now = next_ref_now().clone()).'
META["explanation"] += " R01.4b the leaf's Ready(Some) guard is observed < version, not `!=` (which also holds after close stored the sentinel 0: the last value would be delivered again)."
META["explanation"] += ' Shared with C16: R16.6 (an update marked as observed is handed out in the same resumption).'
META["explanation"] += ' R01.2 hash-helper-is-a-function-of-the-value: the hash helper of set_if_hash_not_eq does not build its hasher from a freshly keyed RandomState (or any other per-call state).'

STATE = "state::ObservableState::<T>::"
CALL_CLOSURE = r"(FnOnce|FnMut|Fn)(<.*>>?)?::call(_once|_mut)?$"


def state_fn_for(F, public_name):
    """the ObservableState method behind a public setter, found through the stable public wrapper
    `SharedObservable::<T>::<public_name>` (so renaming the crate-private method does not matter)."""
    w = F.fn(EY, "shared::SharedObservable::<T>::" + public_name)
    sf = state_fns(F)
    if w is not None and w.built:
        cs = [F.local_callee(w, t) for _, t in w.built.calls() if F.local_callee(w, t) in sf]
        if len(cs) == 1:
            return cs[0]
    return F.fn(EY, STATE + public_name)


def logical_bodies(F, fn):
    """the bodies that implement fn: itself, or the coroutine body of an async fn, plus nested closures."""
    out = []
    if fn.raw.get("is_async"):
        for c in F.children.get(fn.key, []):
            if c.kind == "coroutine":
                out.append(c)
    else:
        out.append(fn)
    # nested closures
    i = 0
    while i < len(out):
        for c in F.children.get(out[i].key, []):
            if c not in out:
                out.append(c)
        i += 1
    return out


def effective_bodies(F, fn, depth=0, seen=None):
    """the logical bodies of fn plus those of the *private* helpers of the same type it calls (transitively): an async helper
    is a coroutine of its own that the virtual inliner cannot splice into the awaiting body, so rules about "what this API
    function does" look at the union."""
    seen = seen if seen is not None else set()
    out = []
    if fn.key in seen or depth > 3:
        return out
    seen.add(fn.key)
    for lb in logical_bodies(F, fn):
        out.append(lb)
        if not lb.built:
            continue
        for blk, t in lb.built.calls():
            c = F.local_callee(lb, t)
            if c is None:
                continue
            c = root_fn(F, c)
            if c is root_fn(F, lb):
                continue
            if c.key in seen or c.vis in ("pub", "crate") or c.raw.get("impl_trait"):
                continue
            if (c.raw.get("self_ty") or "").split("<")[0] != (fn.raw.get("self_ty") or "").split("<")[0]:
                continue
            out += effective_bodies(F, c, depth + 1, seen)
    return out


def run(ctx):
    F = ctx.facts
    notify = find_notify_fn(F)
    if not notify:
        ctx.missing("R01.1", "notify function (role: adds 1 to metadata.version) - found 0")
        return
    notify = NotifySet(notify)   # usually one; a second function that bumps the version is judged by the same rules, not refused
    closes = find_close_fn(F)
    sentinel = closes[0][2] if len(closes) == 1 else None
    if sentinel is None:
        ctx.missing("R01.5", "close function / sentinel")
        return

    r01_1(ctx, notify)
    r01_2(ctx, notify)
    r01_3(ctx)
    # R01.4
    leaf.check_closed_clause(ctx, "R01.4a", sentinel)
    leaf.check_ready_clause(ctx, "R01.4")
    leaf.check_pending_registered(ctx, "R01.4d")
    init = r01_5(ctx, notify, closes[0], sentinel)
    r01_6(ctx, init)
    r01_6b(ctx)
    r01_7(ctx, init)
    r01_8(ctx)
    r01_9(ctx)
    r01_10(ctx)
    r01_11(ctx)
    r01_12(ctx)
    r01_13(ctx, notify)
    r01_14(ctx)
    from . import c16
    c16.ready_from_leaf(ctx, "R01.4e")   # no Ready(Some) built past the leaf (its closed test and version bookkeeping)
    c16.r16_6(ctx)   # an update marked as observed is handed out in the same resumption: a dropped future loses nothing
    from . import groups, c04
    c04.r04_3(ctx)  # the value handed out and the version marked as observed must come from one guard, else an update is skipped
    groups.eyeball_close_and_wake(ctx)  # a premature or missing close makes next() ready (None) / pending at the wrong time


# ---------------------------------------------------------------------------

def r01_13(ctx, notify):
    """the notify function bumps the version on every path to its return: a path that returns early (e.g. "nobody is parked,
    nothing to do") leaves the update unannounced - subscribers that are not parked compare versions at their next poll."""
    for f in notify:
        b = f.built
        bumps = sorted({loc[0] for loc, s_ in assigns_to_field(b, "version") if contains(b.expr_of_rv(s_["rv"], 8, ()), lambda x: x[0] == "bin" and x[1].startswith("Add"))})
        ok = bool(bumps) and b.post_dominated_by(0, bumps)
        ctx.verdict(ok, "R01.13", f, "bump-on-every-path", b.line_at((bumps[0], 0)) if bumps else f.loc(), "every path of `%s` to its return adds 1 to the version" % f.name,
                    "`%s` can return without bumping the version: callers have already stored the new value, and a subscriber that is not parked at that moment (never polled, or woken and not yet re-polled) never sees this update" % f.path)


def r01_14(ctx):
    """a state field that caches something derived from the value (a hash, a flag) and is read by a state method must be rewritten
    after every mutable access to the value, on every path: otherwise a later conditional setter decides on a stale derivation and
    drops (or duplicates) an update."""
    F = ctx.facts
    a = F.adt(EY, "state::ObservableState")
    if a is None:
        ctx.missing("R01.14", "state::ObservableState")
        return
    caches = [fd["name"] for fd in a["variants"][0]["fields"] if fd["name"] not in ("value", "metadata")]
    if not caches:
        ctx.holds("R01.14", None, "no-derived-state", None, "ObservableState holds only the value and the metadata: nothing derived from the value is cached")
        return
    sf = [f for f in state_fns(F) if f.built]
    for c in caches:
        readers = []
        for f in sf:
            b = f.built
            for loc, s_ in b.iter_stmts():
                if s_["k"] == "assign" and s_["rv"]["k"] in ("use", "ref", "discr", "cast", "bin") and c in [n_ for pl in _rv_places(s_["rv"]) for n_ in place_fields(pl)]:
                    readers.append(f)
                    break
        if not readers:
            ctx.holds("R01.14", None, "derived-state:%s" % c, None, "`%s` is never read by a state method" % c)
            continue
        derived = False
        for f in sf:
            b = f.built
            for loc, s_ in assigns_to_field(b, c):
                e = b.expr_of_rv(s_["rv"], 10, ())
                if mentions_field(e, "value") or contains(e, lambda x: x[0] == "param" and x[1] >= 1 and str(b.locals[x[1]]["ty"]) in ("T", "&T", "&mut T")):
                    derived = True
        if not derived:
            ctx.holds("R01.14", None, "derived-state:%s" % c, None, "no state method computes `%s` from the value" % c)
            continue
        # state fns that rewrite the field on every path
        good = set()
        changed = True
        while changed:
            changed = False
            for f in sf:
                if f.key in good:
                    continue
                b = f.built
                blks = {loc[0] for loc, _ in assigns_to_field(b, c)} | {blk for blk, t in b.calls() if F.local_callee(f, t) is not None and F.local_callee(f, t).key in good}
                if blks and b.post_dominated_by(0, blks):
                    good.add(f.key)
                    changed = True
        for f, sites in value_borrowers(F):
            b = f.built
            if f.name == "new":
                continue
            blks = {loc[0] for loc, _ in assigns_to_field(b, c)} | {blk for blk, t in b.calls() if F.local_callee(f, t) is not None and F.local_callee(f, t).key in good}
            for loc in sites[:1]:
                ok = b.post_dominated_by(loc[0], blks)
                ctx.verdict(ok, "R01.14", f, "derived-state-refreshed:%s" % c, b.line_at(loc), "every path from the mutable access to the value in `%s` rewrites `%s`" % (f.name, c),
                            "`%s` gives mutable access to the value and can return without rewriting `%s`, which `%s` reads: the next call decides on a derivation of a value that is no longer stored (an update is dropped or a no-op is announced)" % (f.path, c, readers[0].name))


def _rv_places(rv):
    out = []
    for k in ("place",):
        if isinstance(rv.get(k), dict):
            out.append(rv[k])
    for o in [rv.get("op"), rv.get("x")] + list(rv.get("ops") or []) + [rv.get("l"), rv.get("r")]:
        if isinstance(o, dict) and o.get("k") in ("move", "copy"):
            out.append(o["place"])
    return out


class NotifySet(list):
    """the functions that bump the version (role: notify)."""
    @property
    def name(self):
        return "/".join(f.name for f in self)

    @property
    def keys(self):
        return {f.key for f in self}


def value_borrowers(F):
    out = []
    for f in state_fns(F):
        b = f.built
        if not b:
            continue
        sites = []
        for loc, s in b.iter_stmts():
            if s["k"] == "assign" and s["rv"]["k"] in ("ref", "raw") and s["rv"].get("mut") is not False and last_field(s["rv"]["place"]) == "value":
                if s["rv"]["k"] == "ref" and s["rv"]["mut"]:
                    sites.append(loc)
                elif s["rv"]["k"] == "raw" and "Mut" in s["rv"].get("kind", ""):
                    sites.append(loc)
        # whole-field writes
        for loc, s in assigns_to_field(b, "value"):
            sites.append(loc)
        if sites:
            out.append((f, sites))
    return out


def notifying_callees(F, notify):
    """state fns that notify on every path (fixpoint: notify itself, and fns post-dominated by calls to such fns)."""
    good = set(notify.keys)
    changed = True
    while changed:
        changed = False
        for f in state_fns(F):
            if f.key in good or not f.built:
                continue
            b = f.built
            blks = [blk for blk, t in b.calls() if (F.local_callee(f, t) is not None and F.local_callee(f, t).key in good)]
            if blks and b.post_dominated_by(0, blks):
                good.add(f.key)
                changed = True
    return good


def r01_1(ctx, notify):
    F = ctx.facts
    good = notifying_callees(F, notify)
    bs = value_borrowers(F)
    ctx.floor("R01.1", len(bs), 2)
    for f, sites in bs:
        b = f.built
        nblks = [blk for blk, t in b.calls() if (F.local_callee(f, t) is not None and F.local_callee(f, t).key in good)]
        ctx.call_sites += len(nblks)
        for loc in sites:
            where = b.line_at(loc)
            if b.post_dominated_by(loc[0], nblks) and (loc[0] not in nblks or True):
                # the borrow's own block may be a notify block only if the call comes after the borrow (terminator): fine
                ctx.holds("R01.1", f, "notify-postdominates-write", where, "every path from the &mut borrow of `value` (bb%d) to return passes a notifying call (bb%s)" % (loc[0], nblks))
                continue
            # conditional idiom: the closure's boolean result decides
            ok = False
            for s in range(b.n):
                info = conds.switch_info(b, s)
                if not info or info["kind"] != "bool":
                    continue
                subj = info["subject"]
                if subj[0] == "call" and isinstance(subj[1], str) and re.search(CALL_CLOSURE, subj[1]) \
                        and any(mentions_field(a, "value") for a in subj[3]):
                    false_edges = [(s, t) for t, fs in info["edges"].items() if any(x[0] == "truth" and x[2] is False for x in fs)]
                    r = b.reachable_from(loc[0], avoid_blocks=nblks, avoid_edges=false_edges)
                    if not any(b.term(x)["k"] == "return" for x in r):
                        ok = True
            if ok:
                ctx.holds("R01.1", f, "notify-postdominates-write", where, "paths that skip the notify call all take the false edge of the update closure's result (update_if)")
            else:
                ctx.violated("R01.1", f, "notify-postdominates-write", where,
                             "`%s` hands out `&mut value` (bb%d) and can return without calling the notify function `%s`: the value changes but no subscriber becomes ready or is woken" % (f.name, loc[0], notify.name))


def r01_2(ctx, notify):
    F = ctx.facts
    good = notifying_callees(F, notify)
    # set_if_not_eq / set_if_hash_not_eq
    for name, kind in (("set_if_not_eq", "eq"), ("set_if_hash_not_eq", "hash")):
        f = state_fn_for(F, name)
        if f is None:
            ctx.missing("R01.2", STATE + name)
            continue
        b = inl(F, f, keep=lambda g: default_keep(g) or g.kind == "fn", tag="keep-free-fns")  # the hash helper stays a call
        setter_calls = [(blk, t) for blk, t in b.calls() if (F.local_callee(f, t) is not None and F.local_callee(f, t).key in good)]
        if not setter_calls:
            # `cond.then(|| self.set(value))`: the store sits in a closure guarded by the receiver of bool::then
            handled = False
            for c in F.children.get(f.key, []):
                if c.built and any(F.local_callee(c, t) is not None and F.local_callee(c, t).key in good for _, t in c.built.calls()):
                    for blk, t in b.calls(r"bool>::then$"):
                        if c.path in (t.get("garg_defs") or []):
                            facts = conds.bool_facts(b.expr_of_op(t["args"][0]), True)
                            pa = (lambda e: mentions_field(e, "value")) if kind == "eq" else (lambda e: contains(e, lambda x: x[0] == "call" and F_local(F, f, x) and x[3] and mentions_field(x[3][0], "value")))
                            pb = (lambda e: contains(e, lambda x: x[0] == "param" and x[1] == 2)) if kind == "eq" else (lambda e: contains(e, lambda x: x[0] == "call" and F_local(F, f, x) and x[3] and contains(x[3][0], lambda y: y[0] == "param" and y[1] == 2)))
                            ne = conds.cmp_holds(facts, "Ne", pa, pb)
                            eq = conds.cmp_holds(facts, "Eq", pa, pb)
                            where = b.line_at((blk, 10 ** 6))
                            handled = True
                            if ne:
                                ctx.holds("R01.2", f, "stores-when-different", where, "the store+notify closure runs under `(a != b).then(..)`")
                            elif eq:
                                ctx.violated("R01.2", f, "stores-when-different", where, "`%s` stores and notifies when the values are *equal*" % name)
                            else:
                                ctx.undecided("R01.2", f, "stores-when-different", where, "guard of the then-closure not recognised")
            if not handled:
                inner = any(c.built and any(F.local_callee(c, t) is not None and F.local_callee(c, t).key in good for _, t in c.built.calls()) for c in F.children.get(f.key, []))
                if inner:
                    ctx.undecided("R01.2", f, "stores-when-different", f.loc(), "the store happens in a closure whose guard is not recognised")
                else:
                    ctx.violated("R01.2", f, "stores-when-different", f.loc(), "`%s` never stores/notifies" % name)
            continue

        def is_cur(e):
            return mentions_field(e, "value")

        def is_new(e):
            return contains(e, lambda x: x[0] == "param" and x[1] == 2)
        for blk, t in setter_calls:
            facts = conds.dominating_facts(b, blk)
            where = b.line_at((blk, 10 ** 6))
            if kind == "hash":
                def hashed(pred):
                    return lambda e: contains(e, lambda x: x[0] == "call" and F_local(F, f, x) and x[3] and pred(x[3][0]))
                pa, pb = hashed(is_cur), hashed(is_new)
                # both sides must go through the same helper
                same_helper = True
                # .. and that helper is a pure function of the value: two calls with equal values give equal hashes only if they hash
                # with the same keys. A hasher state created per call from a randomly keyed builder (`RandomState::new()`) differs
                # between the two calls, so equal values compare "different": every call stores and notifies
                hs = []
                for blk2, t2 in b.calls():
                    g2 = F.local_callee(f, t2)
                    if g2 is not None and g2.kind == "fn" and g2.built:
                        hs.append(g2)
                for g2 in hs:
                    gb2 = inl(F, g2) or g2.built
                    rnd = [bl for bl, tt in gb2.calls(r"RandomState::new$|RandomState as std::default::Default>::default$|hash_map::RandomState(::)?<?.*>?::default$|::thread_rng$|::random$|SystemTime::now$|Instant::now$")]
                    for bl, tt in gb2.calls(r"Default>?::default$"):
                        if "RandomState" in str((tt.get("extra") or {}).get("full") or "") + str(tt.get("resolved") or ""):
                            rnd.append(bl)
                    ctx.verdict(not rnd, "R01.2", g2, "hash-helper-is-a-function-of-the-value", gb2.line_at((rnd[0], 10 ** 6)) if rnd else g2.loc(), "`%s` hashes with fixed keys" % g2.name,
                                "`%s` builds its hasher from a freshly (randomly) keyed state on every call: the two hashes `%s` compares are computed with different keys, so equal values look different - every call stores, notifies and returns Some(previous), where equal-hash values must change nothing and return None" % (g2.path, name))
            else:
                pa, pb = is_cur, is_new
            ne = conds.cmp_holds(facts, "Ne", pa, pb)
            eq = conds.cmp_holds(facts, "Eq", pa, pb)
            if ne:
                ctx.holds("R01.2", f, "stores-when-different", where, "the store+notify call (bb%d) is on the `!=` edge of the comparison of %s" % (blk, "hash(self.value) and hash(value)" if kind == "hash" else "self.value and value"))
            elif eq:
                ctx.violated("R01.2", f, "stores-when-different", where,
                             "`%s` stores and notifies on the *equal* edge: identical values notify, different values are dropped" % name)
            elif not facts:
                ctx.violated("R01.2", f, "stores-when-different", where, "`%s` stores unconditionally: equal values notify subscribers" % name)
            else:
                ctx.undecided("R01.2", f, "stores-when-different", where, "guard not recognised: %s" % [x[2][:2] for x in facts])
        # the other path returns None
        sites = leaf.ret_sites(b)
        for loc, cls, _ in sites:
            if cls == "none":
                facts = conds.dominating_facts(b, loc[0])
                eq = conds.cmp_holds(facts, "Eq", lambda e: True, lambda e: True)
                ctx.verdict(True if eq else None, "R01.2", f, "none-when-equal", b.line_at(loc), "None is returned on the equal edge")
    # update_if: notify on the true edge
    f = state_fn_for(F, "update_if")
    if f is None:
        ctx.missing("R01.2", STATE + "update_if")
    else:
        b = f.built
        ncalls = [(blk, t) for blk, t in b.calls() if (F.local_callee(f, t) is not None and F.local_callee(f, t).key in good)]
        if not ncalls:
            ctx.violated("R01.2", f, "notifies-on-true", f.loc(), "update_if never notifies")
        for blk, t in ncalls:
            facts = conds.bare(conds.dominating_facts(b, blk))
            tr = [x for x in facts if x[0] == "truth" and x[1][0] == "call" and re.search(CALL_CLOSURE, x[1][1] if isinstance(x[1][1], str) else "")]
            where = b.line_at((blk, 10 ** 6))
            if tr and all(x[2] is True for x in tr):
                ctx.holds("R01.2", f, "notifies-on-true", where, "notify (bb%d) is on the true edge of the closure's result" % blk)
            elif tr:
                ctx.violated("R01.2", f, "notifies-on-true", where, "update_if notifies on the *false* edge of the closure's result")
            else:
                ctx.violated("R01.2", f, "notifies-on-true", where, "update_if notifies regardless of the closure's result")


def F_local(F, fn, call_expr):
    """is the call expression's callee a function of the workspace (e.g. the hash helper)?"""
    n = call_expr[1] if isinstance(call_expr[1], str) else None
    if not n:
        return False
    for cname in F.crates:
        if (cname + "::" + n) in F.fns:
            return True
    return False


def r01_3(ctx):
    F = ctx.facts
    f = state_fn_for(F, "set")
    if f is None:
        ctx.missing("R01.3", STATE + "set")
        return
    b = f.built
    e = strip(ret_expr(b), through_calls=False)
    ok = None
    if e[0] == "call" and ecall_matches(e, r"^std::mem::replace$"):
        ok = mentions_field(e[3][0], "value") and contains(e[3][1], lambda x: x[0] == "param" and x[1] == 2)
    elif contains(e, lambda x: x[0] == "param" and x[1] == 2) and not mentions_field(e, "value"):
        # accepted idiom: mem::swap(&mut self.value, &mut value); ...; value
        swaps = [blk for blk, t in b.calls(r"^std::mem::swap$") if (mentions_field(b.expr_of_op(t["args"][0]), "value") and contains(b.expr_of_op(t["args"][1]), lambda x: x[0] == "param" and x[1] == 2))
                 or (mentions_field(b.expr_of_op(t["args"][1]), "value") and contains(b.expr_of_op(t["args"][0]), lambda x: x[0] == "param" and x[1] == 2))]
        ok = bool(swaps) and all(b.must_pass(0, rb, swaps) for rb in b.return_blocks())  # else: returns the new value
    ctx.verdict(ok, "R01.3", f, "returns-previous", f.loc(), "set returns mem::replace(&mut self.value, value)",
                "set does not return the previous value (returns `%s`)" % fmt(e, 4))
    for name in ("set_if_not_eq", "set_if_hash_not_eq"):
        g = state_fn_for(F, name)
        if g is None:
            continue
        gb = g.built
        for loc, cls, rv in leaf.ret_sites(gb):
            if cls == "some":
                x = strip(gb.expr_of_op(rv["ops"][0]), through_calls=False)
                ok = x[0] == "call" and F.fns.get(EY + "::" + (x[2] or x[1] if isinstance(x[1], str) else "")) is f
                ctx.verdict(ok if ok else None, "R01.3", g, "returns-some-previous", gb.line_at(loc), "Some(<result of set>)")


def r01_5(ctx, notify, close, sentinel):
    F = ctx.facts
    close_fn, close_loc, _ = close
    # initialiser
    init = None
    for f in F.find(crate=EY):
        b = f.built
        if not b:
            continue
        for loc, s in b.iter_stmts():
            if s["k"] == "assign" and s["rv"]["k"] == "agg" and s["rv"].get("adt") == "state::ObservableStateMetadata":
                i = s["rv"]["fields"].index("version")
                op = s["rv"]["ops"][i]
                val = None
                if op["k"] == "const" and op.get("int") is not None:
                    val = op["int"]
                else:
                    e = strip(b.expr_of_op(op), through_calls=False)
                    if e[0] == "call" and ecall_matches(e, r"Default>?::default$"):
                        val = 0   # <uN as Default>::default() (e.g. a derived Default for the metadata)
                    elif e[0] == "const" and e[3] is not None:
                        val = e[3]
                if val is None:
                    ctx.undecided("R01.5", f, "writer=initialiser", b.line_at(loc), "initial version is not a constant")
                elif val == sentinel or val <= 0:
                    ctx.violated("R01.5", f, "writer=initialiser", b.line_at(loc),
                                 "`%s` builds the metadata with version %d, the closed sentinel: an observable made this way is born closed - its subscribers report the end of the stream while the owner is alive" % (f.path, val))
                    init = val if init is None else init
                else:
                    init = val
                    ctx.holds("R01.5", f, "writer=initialiser", b.line_at(loc), "version initialised with constant %d" % val)
    # writers
    for f in F.find(crate=EY):
        b = f.built
        if not b:
            continue
        for loc, s in assigns_to_field(b, "version"):
            if any(f is n_ for n_ in notify):
                e = b.expr_of_rv(s["rv"], 8, ())
                adds = find_all(e, lambda x: x[0] == "bin" and x[1].startswith("Add"))
                ok = bool(adds) and is_const_int(adds[0][3], 1) and mentions_field(adds[0][2], "version")
                ctx.verdict(ok, "R01.5", f, "writer=notify", b.line_at(loc), "version = version + 1", "notify does not add exactly 1 to version")
            elif f is close_fn:
                ctx.holds("R01.5", f, "writer=close", b.line_at(loc), "version = %s (closed sentinel)" % sentinel)
            else:
                ctx.violated("R01.5", f, "writer=%s" % f.path, b.line_at(loc), "unexpected writer of `version`: only the initialiser, notify (+1) and close (sentinel) may write it")
    if init is None:
        ctx.missing("R01.5", "initial version constant")
        return None
    ctx.verdict(init != sentinel and init > 0, "R01.5", None, "init!=sentinel", None, "initial version %d differs from the closed sentinel %d" % (init, sentinel),
                "a fresh observable starts at the closed sentinel")
    return init


SUB_T = ("subscriber::Subscriber<",)
CALL_CLOSURE = r"(FnOnce|FnMut|Fn)(<.*>>?)?::call(_once|_mut)?$"


def _is_field(e, name):
    return e[0] == "field" and e[2] == name



def r01_6(ctx, init):
    F = ctx.facts
    if init is None:
        return
    n = 0
    subs = [f for f in F.find(crate=EY) if (f.raw.get("self_ty") or "").startswith("subscriber::Subscriber<")]
    by_name = {}
    for f in subs:
        by_name.setdefault(f.name, []).append(f)

    def writes(body):
        """[(loc, kind, expr)] for writes of observed_version in a body."""
        out = []
        for loc, s in body.iter_stmts():
            if s["k"] != "assign":
                continue
            if last_field(s["place"]) == "observed_version":
                out.append((loc, "assign", body.expr_of_rv(s["rv"], 10, ())))
            elif s["rv"]["k"] == "ref" and s["rv"]["mut"] and last_field(s["rv"]["place"]) == "observed_version":
                out.append((loc, "mut-borrow", None))
            elif s["rv"]["k"] == "agg" and s["rv"].get("adt") == "subscriber::Subscriber":
                i = s["rv"]["fields"].index("observed_version")
                out.append((loc, "construct", body.expr_of_op(s["rv"]["ops"][i])))
        return out

    # (i) readers never mark as observed
    for name in ("get", "read"):
        for f in by_name.get(name, []):
            for lb in logical_bodies(F, f):
                b = inl(F, lb)
                if not b:
                    continue
                ws = writes(b)
                n += 1
                ctx.verdict(not ws, "R01.6", f, "reader-does-not-mark", f.loc(), "`%s` does not write observed_version" % name,
                            "`%s` writes observed_version: reading would consume the pending update" % name)
    # (ii) next_now / next_ref_now mark with version() read under the guard
    for name in ("next_now", "next_ref_now"):
        for f in by_name.get(name, []):
            found = False
            for lb in effective_bodies(F, f):
                b = inl(F, lb)
                if not b:
                    continue
                for loc, kind, e in writes(b):
                    if kind == "assign":
                        found = True
                        ok = mentions_call(e, r"ObservableState::<.*>::version$")
                        n += 1
                        # must be on every path to return
                        pd = b.post_dominated_by(0, [loc[0]])
                        ctx.verdict(ok and pd, "R01.6", f, "marks-observed", b.line_at(loc), "observed_version = guard.version() on every path",
                                    "`%s` stores `%s` into observed_version%s" % (name, fmt(e, 4), "" if pd else " only on some paths"))
            if not found:
                # delegation: the marking sibling is called on every path to the return (it is judged itself)
                deleg = False
                for lb in logical_bodies(F, f):
                    b = inl(F, lb)
                    if not b or lb.kind == "closure":
                        continue
                    blks = [blk for blk, t in b.calls() if F.local_callee(lb, t) is not None and root_fn(F, F.local_callee(lb, t)) is not f
                            and (root_fn(F, F.local_callee(lb, t)).raw.get("self_ty") or "").startswith("subscriber::Subscriber<") and root_fn(F, F.local_callee(lb, t)).name in ("next_now", "next_ref_now")]
                    if blks and b.post_dominated_by(0, blks):
                        deleg = True
                if deleg:
                    n += 1
                    ctx.holds("R01.6", f, "marks-observed", f.loc(), "`%s` delegates to the marking sibling on every path" % name)
                    continue
            if not found:
                n += 1
                ctx.violated("R01.6", f, "marks-observed", f.loc(), "`%s` does not store the current version into observed_version: the value it returned is reported again by next()" % name)
    # (iii) reset / clone_reset
    for name in ("reset", "clone_reset"):
        for f in by_name.get(name, []):
            b = f.built
            ws = [w for w in writes(b) if w[1] in ("assign", "construct")]
            n += 1
            if not ws:
                ctx.violated("R01.6", f, "resets", f.loc(), "`%s` does not reset observed_version" % name)
            for loc, kind, e in ws:
                c = strip(e)
                ok = c[0] == "const" and c[3] is not None and c[3] < init
                ctx.verdict(ok, "R01.6", f, "resets", b.line_at(loc), "observed_version = %s < initial version %d" % (fmt(e), init),
                            "`%s` sets observed_version to `%s`, which is not a constant below the initial version %d: a reset subscriber is not immediately ready" % (name, fmt(e, 4), init))
    # (iv) clone copies
    for f in by_name.get("clone", []):
        b = f.built
        for loc, kind, e in writes(b):
            if kind == "construct":
                n += 1
                ok = mentions_field(e, "observed_version") and contains(e, lambda x: x[0] == "param" and x[1] == 1)
                ctx.verdict(ok, "R01.6", f, "clone-copies", b.line_at(loc), "clone copies self.observed_version",
                            "Subscriber::clone sets observed_version to `%s` instead of copying it" % fmt(e, 4))
    # (v) constructors
    for name in ("new", "new_async"):
        for f in by_name.get(name, []):
            b = f.built
            for loc, kind, e in writes(b):
                if kind == "construct":
                    n += 1
                    ok = strip(e)[0] == "param"
                    ctx.verdict(ok, "R01.6", f, "ctor-stores-arg", b.line_at(loc), "constructor stores its version argument",
                                "constructor stores `%s`, not its version argument" % fmt(e, 4))
    # (vi) everything else that writes
    known = {"get", "read", "next_now", "next_ref_now", "reset", "clone_reset", "clone", "new", "new_async"}
    for f in F.find(crate=EY):
        root = root_fn(F, f)
        if root.name in known and (root.raw.get("self_ty") or "").startswith("subscriber::Subscriber<"):
            continue
        b = f.built
        if not b:
            continue
        for loc, kind, e in writes(b):
            if f.kind in ("closure", "coroutine") and kind == "mut-borrow" and not obs_rooted(f, e):
                continue   # a captured local variable that happens to be called observed_version, not the subscriber's field
            if kind == "mut-borrow":
                # must flow into the poll leaf
                uses = [t for blk, t in b.calls() if any(a["k"] in ("move", "copy") and _is_field(strip(b.expr_of_op(a), through_calls=False), "observed_version") for a in t["args"])]
                leafs = find_poll_leaf(F)
                ok = uses and all(F.local_callee(f, t) in leafs for t in uses)
                n += 1
                ctx.verdict(True if ok else None, "R01.6", f, "poll-path-writer", b.line_at(loc), "&mut observed_version is handed to the poll leaf only")
            else:
                n += 1
                ctx.undecided("R01.6", f, "other-writer", b.line_at(loc), "unlisted writer of observed_version: %s" % fmt(e, 4))
    ctx.floor("R01.6", n, 9 if not ctx.has_async else 14)


def r01_6b(ctx):
    """re-pointing: a function that replaces the `state` handle of an existing Subscriber (assignment, Clone::clone_from,
    mem::replace / swap on `self.state`) makes it a subscriber of (possibly) another observable; it must take over the
    source's observed version in the same function, otherwise the subscriber reports updates it has seen / skips ones it has
    not. Expected count 0 on today's tree (only constructors write `state`)."""
    F = ctx.facts
    n = 0
    for f in F.find(crate=EY):
        st = f.raw.get("self_ty") or ""
        b = f.built
        if not b or not st.startswith("subscriber::Subscriber<") or b.arg_count < 1:
            continue
        if not str(b.locals[1]["ty"]).startswith("&mut subscriber::Subscriber<"):
            continue
        sites = []
        for loc, s_ in b.iter_stmts():
            if s_["k"] == "assign" and s_["place"]["proj"] and last_field(s_["place"]) == "state" and s_["place"]["l"] == 1:
                sites.append(b.line_at(loc))
        for blk, t in b.calls(r"Clone>?::clone_from$|^std::mem::(replace|swap)$"):
            for a_ in t["args"][:2 if "swap" in (t.get("callee") or "") else 1]:
                x = strip(b.expr_of_op(a_))
                if x[0] == "field" and x[2] == "state" and contains(x[1], lambda y: y[0] == "param" and y[1] == 1):
                    sites.append(b.line_at((blk, 10 ** 6)))
        if not sites:
            continue
        n += 1
        wrote = [loc for loc, s_ in b.iter_stmts() if s_["k"] == "assign" and last_field(s_["place"]) == "observed_version"]
        ok = bool(wrote) and b.post_dominated_by(0, [l_[0] for l_ in wrote])
        ctx.verdict(ok, "R01.6b", f, "re-pointed-subscriber-takes-over-the-observed-version", sites[0],
                    "`%s` replaces self.state and stores observed_version on every path" % f.name,
                    "`%s` replaces the `state` handle of an existing subscriber but does not (on every path) store the matching `observed_version`: the subscriber keeps the version it had observed on its previous observable, so it wrongly stays pending or wrongly becomes ready" % f.path)
    if not n:
        ctx.holds("R01.6b", None, "no-re-pointing", None, "no function replaces the state handle of an existing Subscriber")


def r01_7(ctx, init):
    F = ctx.facts
    n = 0
    # anchors: the public subscribe functions (their names cannot change without a breaking release); private helpers
    # between them and the subscriber constructor are inlined, so extracting one does not move the instance
    ctor = [c for c in F.find(crate=EY) if c.name in ("new", "new_async") and (c.raw.get("self_ty") or "").startswith("subscriber::Subscriber<")]
    pubs = [f for f in F.find(crate=EY) if re.match(r"subscribe(_reset)?(_async)?$", f.name or "") and f.vis == "pub"
            and re.match(r"(shared::SharedObservable|unique::Observable)<", f.raw.get("self_ty") or "")]
    bodies = []
    for pf in pubs:
        for lb in logical_bodies(F, pf):
            bodies.append(lb)
    for f in bodies:
        b = inl(F, f, *ctor)
        if not b:
            continue
        root = root_fn(F, f)
        for blk, t in b.calls(r"Subscriber::<.*>::new$|::new_async$"):
            callee = F.local_callee(f, t)
            if callee is None or callee.name not in ("new", "new_async"):
                continue
            if not (callee.raw.get("self_ty") or "").startswith("subscriber::Subscriber<"):
                continue
            ctx.call_sites += 1
            e = b.expr_of_op(t["args"][1])
            where = b.line_at((blk, 10 ** 6))
            n += 1
            is_reset = "reset" in (root.name or "")
            if is_reset:
                c = strip(e)
                ok = c[0] == "const" and c[3] is not None and init is not None and c[3] < init
                ctx.verdict(ok, "R01.7", root, "initial-version", where, "subscribe_reset passes constant %s < initial version" % fmt(e),
                            "`%s` passes `%s` as the observed version: the new subscriber is not immediately ready" % (root.name, fmt(e, 4)))
            else:
                ok = mentions_call(e, r"ObservableState::<.*>::version$")
                c = strip(e)
                alts = []

                def leaves(x):
                    if x[0] == "phi":
                        for y in x[1]:
                            leaves(y)
                    elif x[0] == "call" and isinstance(x[1], str) and re.search(r"unwrap_or(_else|_default)?$|map_or(_else)?$", x[1]):
                        for y in x[3]:
                            leaves(y)
                    else:
                        alts.append(strip(x))
                leaves(e)
                const_alt = [a for a in alts if a[0] == "const"]
                if ok and const_alt:
                    ctx.violated("R01.7", root, "initial-version", where,
                                 "`%s` passes the current version() on some paths but the constant `%s` on others (e.g. a try-lock fallback): a subscriber created on that path reports an update that happened before it subscribed" % (root.name, fmt(const_alt[0])))
                elif ok:
                    ctx.holds("R01.7", root, "initial-version", where, "subscribe passes the current version()")
                elif c[0] == "const":
                    ctx.violated("R01.7", root, "initial-version", where, "`%s` passes constant `%s` as the observed version: a fresh subscriber reports an update that never happened" % (root.name, fmt(e)))
                else:
                    ctx.undecided("R01.7", root, "initial-version", where, "provenance of initial version not recognised: %s" % fmt(e, 4))
    ctx.floor("R01.7", n, 4 if not ctx.has_async else 8)


SETTERS = ("set", "set_if_not_eq", "set_if_hash_not_eq", "update", "update_if")


def r01_8(ctx):
    F = ctx.facts
    n = 0
    for f in F.find(crate=EY):
        st = f.raw.get("self_ty") or ""
        if f.vis != "pub" or f.raw.get("impl_trait"):
            continue
        if not (st.startswith("unique::Observable<") or st.startswith("shared::SharedObservable<") or st.startswith("shared::ObservableWriteGuard<")):
            continue
        base = (f.name or "").replace("_async", "")
        if base not in SETTERS and base != "take":
            continue
        bodies = logical_bodies(F, f)
        main = bodies[0] if bodies else None
        if main is None or not main.built:
            continue
        b = main.built
        n += 1
        if base == "take":
            calls = [(blk, t) for blk, t in b.calls() if F.local_callee(main, t) is not None and (F.local_callee(main, t).name or "").replace("_async", "") == "set"
                     and F.local_callee(main, t).raw.get("self_ty") == st]
            if calls:
                ok = len(calls) == 1 and mentions_call(b.expr_of_op(calls[0][1]["args"][1]), r"Default>?::default$")
                ctx.verdict(ok, "R01.8", f, "take=set(default)", f.loc(), "take calls Self::set(this, T::default())",
                            "take does not go through set(T::default())")
                continue
            # written against the state directly: exactly one state call, `set`, with T::default() as the value
            scalls = [(blk, t) for blk, t in b.calls() if F.local_callee(main, t) in state_fns(F)]
            names = [F.local_callee(main, t).name for _, t in scalls]
            ok = names == ["set"] and mentions_call(b.expr_of_op(scalls[0][1]["args"][1]), r"Default>?::default$") \
                and strip(ret_expr(b), through_calls=False)[0] == "call" and strip(ret_expr(b), through_calls=False)[4] == (scalls[0][0], len(b.blocks[scalls[0][0]]["stmts"]))
            ctx.verdict(ok, "R01.8", f, "take=set(default)", f.loc(), "take calls ObservableState::set(T::default()) once and returns its result",
                        "take does not go through set(T::default()) (state calls: %s)" % (names or "none"))
            continue
        scalls = [(blk, t) for blk, t in b.calls() if F.local_callee(main, t) in state_fns(F)]
        ctx.call_sites += len(scalls)
        names = [F.local_callee(main, t).name for _, t in scalls]
        if names != [base]:
            ctx.violated("R01.8", f, "pass-through", f.loc(),
                         "`%s` must call ObservableState::%s exactly once; it calls %s" % (f.path, base, names or "no state method"))
            continue
        blk, t = scalls[0]
        # arguments after the receiver are the wrapper's own parameters, unmodified
        ok = True
        why = ""
        for a in t["args"][1:]:
            e = strip(b.expr_of_op(a), through_calls=False)
            if not (e[0] == "param" or (e[0] == "field" and e[1][0] == "param")):
                ok = False
                why = "argument `%s` is not the wrapper's own parameter" % fmt(e, 4)
        # result returned
        r = strip(ret_expr(b), through_calls=False)
        out_ty = b.locals[0]["ty"]
        if out_ty != "()" and not (r[0] == "call" and r[4] == (blk, len(b.blocks[blk]["stmts"]))):
            # allow phi containing only this call
            if not (r[0] == "call" and (r[1] == t["callee"])):
                ok = False
                why = "the wrapper does not return the state method's result (returns `%s`)" % fmt(r, 4)
        ctx.verdict(ok, "R01.8", f, "pass-through", b.line_at((blk, 10 ** 6)), "calls ObservableState::%s once with its own arguments and returns the result" % base, why)
    ctx.floor("R01.8", n, 18 if not ctx.has_async else 30)


MUT_TRAITS = ("std::ops::DerefMut", "std::convert::AsMut", "std::borrow::BorrowMut", "std::ops::IndexMut")
HANDLES = ("unique::Observable<", "shared::SharedObservable<", "shared::ObservableWriteGuard<", "read_guard::ObservableReadGuard<",
           "subscriber::Subscriber<", "shared::WeakObservable<")


def r01_9(ctx):
    F = ctx.facts
    bad = False
    for imp in F.impls:
        if imp["crate"] != EY:
            continue
        if imp["trait"] in MUT_TRAITS and any(imp["self_ty"].startswith(h) for h in HANDLES):
            bad = True
            ctx.violated("R01.9", imp["path"], "impl=%s for %s" % (imp["trait"], imp["self_ty"]), "%s:%d" % (imp["span"]["file"], imp["span"]["line"]),
                         "`%s` is implemented for `%s`: the value can be changed without notifying subscribers" % (imp["trait"], imp["self_ty"]))
    if not bad:
        ctx.holds("R01.9", None, "no-mutable-deref-impl", None, "no DerefMut/AsMut/BorrowMut/IndexMut impl for any handle type (%d impls inspected)" % len([i for i in F.impls if i["crate"] == EY]))
    n = 0
    for f in F.find(crate=EY):
        if f.vis != "pub" or not f.raw.get("sig"):
            continue
        st = f.raw.get("self_ty") or ""
        if not any(st.startswith(h) for h in HANDLES):
            continue
        n += 1
        out = f.raw["sig"]["output"]
        if re.search(r"&(?:'\w+ )?mut T\b", out):
            ctx.violated("R01.9", f, "returns-&mut-T", f.loc(), "public function returns `%s`: a mutable reference to the stored value escapes without notification" % out)
    ctx.holds("R01.9", None, "no-&mut-T-in-public-returns", None, "%d public signatures of handle types inspected" % n)


def r01_10(ctx):
    F = ctx.facts
    a = F.adt(EY, "subscriber::Subscriber")
    if not a:
        ctx.missing("R01.10", "subscriber::Subscriber")
        return
    fields = a["variants"][0]["fields"]
    bad = [fd for fd in fields if re.search(r"\bT\b", fd["ty"]) and "SubscriberState" not in fd["ty"]]
    ctx.verdict(not bad, "R01.10", None, "no-cached-value", "%s:%d" % (a["span"]["file"], a["span"]["line"]),
                "Subscriber fields: %s - no T outside the lock handle" % ", ".join("%s: %s" % (fd["name"], fd["ty"]) for fd in fields),
                "Subscriber caches a `T` (%s): values handed out may be stale" % bad)


def r01_11(ctx):
    """derived-field coherence: a field of the state that caches something about the value is refreshed by every function that can change the value."""
    F = ctx.facts
    a = F.adt(EY, "state::ObservableState")
    if not a:
        return
    extra = [fd["name"] for fd in a["variants"][0]["fields"] if fd["name"] not in ("value", "metadata")]
    if not extra:
        ctx.holds("R01.11", None, "no-derived-state", "%s:%d" % (a["span"]["file"], a["span"]["line"]), "ObservableState has no field besides `value` and `metadata`: nothing can go stale")
        return
    borrowers = value_borrowers(F)
    for X in extra:
        def touches(f):
            """blocks of f that write X (assignment, or a call receiving &mut X)"""
            b = f.built
            out = []
            derived = False
            for loc, s_ in b.iter_stmts():
                if s_["k"] == "assign" and last_field(s_["place"]) == X:
                    out.append(loc[0])
                    if mentions_field(b.expr_of_rv(s_["rv"], 8, ()), "value"):
                        derived = True
            for blk, t in b.calls():
                if t["args"] and t["args"][0]["k"] in ("move", "copy") and b.locals[t["args"][0]["place"]["l"]]["ty"].startswith("&mut"):
                    e0 = strip(b.expr_of_op(t["args"][0]), through_calls=False)
                    if e0[0] == "field" and e0[2] == X:
                        out.append(blk)
                        if any(mentions_field(b.expr_of_op(x), "value") for x in t["args"][1:]):
                            derived = True
                        for gd in t.get("garg_defs") or []:
                            c = F.fns.get(f.crate + "::" + gd) if gd else None
                            if c is not None and c.built and any(mentions_field(c.built.expr_of_local(0), "value") for _ in [0]):
                                derived = True
            return out, derived
        info = {f.key: touches(f) for f in state_fns(F) if f.built}
        if not any(d for _, d in info.values()):
            ctx.undecided("R01.11", None, "field=%s" % X, None, "extra state field `%s` is not recognisably derived from the value" % X)
            continue
        refreshers = {k for k, (blks, d) in info.items() if blks and F.fns[k].built.post_dominated_by(0, blks)}
        for f, sites in borrowers:
            b = f.built
            own, _ = info.get(f.key, ([], False))
            viacall = [blk for blk, t in b.calls() if F.local_callee(f, t) is not None and F.local_callee(f, t).key in refreshers]
            ok = all(b.post_dominated_by(loc[0], own + viacall) for loc in sites)
            ctx.verdict(ok, "R01.11", f, "refreshes:%s" % X, f.loc(), "`%s` refreshes the value-derived field `%s` on every path after touching the value" % (f.name, X),
                        "the state caches something about the value in `%s`, but `%s` hands out `&mut value` and can return without refreshing it: later decisions (e.g. set_if_hash_not_eq) are taken against a stale cache" % (X, f.name))


def r01_12(ctx):
    """next / next_ref hand out the value through the marking path, never through the non-marking readers get/read."""
    F = ctx.facts
    n = 0
    for f in F.find(crate=EY):
        st = f.raw.get("self_ty") or ""
        if not st.startswith("subscriber::Subscriber<") or f.name not in ("next", "next_ref") or f.raw.get("impl_trait"):
            continue
        n += 1
        bad = None
        for lb in logical_bodies(F, f):
            b = lb.built
            if not b:
                continue
            for blk, t in b.calls():
                c = F.local_callee(lb, t)
                if c is not None and (c.raw.get("self_ty") or "").startswith("subscriber::Subscriber<") and c.name in ("get", "read") and not c.raw.get("impl_trait"):
                    bad = (lb, blk, c)
        if bad:
            lb, blk, c = bad
            ctx.violated("R01.12", f, "hands-out-through-marking-path", lb.built.line_at((blk, 10 ** 6)),
                         "`%s` hands out the value through `%s`, which takes a fresh lock and does not mark the value as observed: a write that lands between the poll and this read is handed out now and reported again by the next poll" % (f.path, c.name))
        else:
            ctx.holds("R01.12", f, "hands-out-through-marking-path", f.loc(), "no call of the non-marking readers get/read")
    ctx.floor("R01.12", n, 2 if not ctx.has_async else 4)
