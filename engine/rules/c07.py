"""C07 — transactions are atomic: invisible until commit, all-or-nothing afterwards."""
import re
from ..facts import strip, ecall_matches, contains, find_all, fmt, mentions_field, mentions_call, has_arith
from .. import conds
from .common import *
from .vecdiff import *
from . import c05
from .c06 import place_chain, message_aggs

WITNESSES = ["W07a", "W07b", "W07c", "W07d", "W07e"]

CRATES = (IM,)

META = {
    "explanation": (
        "Static decision on MIR: R07.1 who-may-publish inventory - inside the transaction and its entry types only `commit` writes the vector's "
        "contents (any write through `inner`) or calls Sender::send; R07.2 commit protocol - the new contents come from the working copy, exactly one "
        "send per path and only on the not-empty edge of the batch test, the message is a Many built from the batch; R07.3 rollback restores the working "
        "copy from inner.values and clears the batch on every path; recorded diffs are discarded only where a Clear (or the rollback) replaces them on "
        "every following path and the working copy is emptied; a guard of the transaction's clear must test the transaction's own working copy; Drop "
        "writes nothing; R07.4 Deref of the transaction shows its own working copy and transaction entries route through the transaction's set/remove; "
        "R07.5 every OneOrManyDiffs::Many is built behind a non-empty test (backs the stream's unreachable!). Borrow-checker witnesses: the vector cannot "
        "be read or subscribed while a transaction is alive, VectorSubscriber is not Clone, sender is private, no DerefMut."),
    "trusted_base": ["rustc borrow checker", "tokio::sync::broadcast::Sender::send enqueues one message for every receiver", "rustc MIR construction"],
    "assumptions": [],
}

TXN = "vector::transaction::ObservableVectorTransaction<"
TXN_TYPES = ("vector::transaction::ObservableVectorTransaction<", "vector::transaction::ObservableVectorTransactionEntry<", "vector::transaction::ObservableVectorTransactionEntries<")


def txn_fns(F):
    out = []
    for f in F.find(crate=IM):
        r = root_fn(F, f)
        if any((r.raw.get("self_ty") or "").startswith(t) for t in TXN_TYPES):
            out.append(f)
    return out


def writes_through_inner(body):
    """[(loc, what)] - assignments to / mutable borrows of / mutating calls on places reached through the `inner` field."""
    out = []
    for loc, s in body.iter_stmts():
        if s["k"] != "assign":
            continue
        pf = place_fields(s["place"])
        if "inner" in pf and pf[-1:] != ["inner"] and body.locals[s["place"]["l"]]["ty"].find("Transaction") >= 0 or (pf[:1] == ["inner"] and len(pf) > 1):
            out.append((loc, "assignment to %s" % ".".join(pf)))
        if s["rv"]["k"] == "ref" and s["rv"]["mut"]:
            rf = place_fields(s["rv"]["place"])
            if "inner" in rf and rf[-1] == "values":
                out.append((loc, "&mut %s" % ".".join(rf)))
    return out


def run(ctx):
    F = ctx.facts
    fns = txn_fns(F)
    if not fns:
        ctx.missing("R07.1", "functions of the transaction types")
        return
    commit = [f for f in fns if f.name == "commit" and (f.raw.get("self_ty") or "").startswith(TXN)]
    if len(commit) != 1:
        ctx.missing("R07.1", "ObservableVectorTransaction::commit")
        return
    commit = commit[0]
    vec_pub, txn_pub = c05.publication_fns(F)
    # R07.1 ------------------------------------------------------------------------
    n = 0
    for f in fns:
        b = f.built
        if not b:
            continue
        n += 1
        sends = b.calls(r"broadcast::Sender::<.*>::send$")
        ws = writes_through_inner(b)
        # calls of the vector's own mutators / publication through inner
        vcalls = []
        for blk, t in b.calls():
            c = F.local_callee(f, t)
            if c is not None and (c.raw.get("self_ty") or "") == "vector::ObservableVector<T>" and not c.raw.get("impl_trait") and c.raw["sig"] and c.raw["sig"]["inputs"] and c.raw["sig"]["inputs"][0].startswith("&mut"):
                vcalls.append((blk, c))
            if c is not None and c in vec_pub:
                vcalls.append((blk, c))
        ctx.call_sites += len(sends) + len(vcalls)
        if f is commit:
            ctx.holds("R07.1", f, "publisher=commit", f.loc(), "commit is the one function allowed to write inner.values / send (%d write(s), %d send(s))" % (len(ws), len(sends)))
            continue
        if sends or ws or vcalls:
            what = []
            if sends:
                what.append("calls Sender::send")
            what += [w for _, w in ws]
            what += ["calls ObservableVector::%s" % c.name for _, c in vcalls]
            where = b.line_at(ws[0][0]) if ws else (b.line_at((sends[0][0], 10 ** 6)) if sends else b.line_at((vcalls[0][0], 10 ** 6)))
            ctx.violated("R07.1", root_fn(F, f), "publisher=%s" % f.name, where,
                         "`%s` %s: an uncommitted transaction changes the vector / reaches subscribers (only commit may)" % (f.path, "; ".join(what)))
        else:
            ctx.holds("R07.1", root_fn(F, f), "non-publisher:%s" % f.path, f.loc(), "touches only the transaction's own working copy and batch")
    ctx.floor("R07.1", n, 25)
    r07_2(ctx, commit)
    r07_3(ctx, fns, txn_pub)
    r07_4(ctx, fns)
    r07_5(ctx)
    from .c06 import commit_state
    commit_state(ctx)  # shared with C06/R06.1: the snapshot a lagging subscriber is reset to

    from . import groups
    groups.im_core(ctx)



def r07_2(ctx, commit):
    b = inl(ctx.facts, commit)
    # new contents come from the working copy
    assigns = [(loc, s) for loc, s in b.iter_stmts() if s["k"] == "assign" and place_fields(s["place"])[-2:] == ["inner", "values"]]
    if not assigns:
        ctx.violated("R07.2", commit, "contents:=working-copy", commit.loc(), "commit never assigns the vector's contents")
    for loc, s in assigns:
        e = b.expr_of_rv(s["rv"], 10, ())
        x = strip(e, through_calls=False)
        src = None
        if x[0] == "call" and ecall_matches(x, r"^std::mem::(take|replace)$"):
            src = place_chain(strip(x[3][0]))
        elif x[0] == "field":
            src = place_chain(x)
        elif x[0] == "call" and ecall_matches(x, r"Clone>?::clone$"):
            src = place_chain(strip(x[3][0]))
        ok = src is not None and src[-1:] == ["values"] and "inner" not in src
        pd = b.post_dominated_by(0, [loc[0]])
        ctx.verdict((ok and pd) if src is not None else None, "R07.2", commit, "contents:=working-copy", b.line_at(loc), "inner.values = (take of) self.values on every path",
                    "commit assigns `%s` to the vector's contents%s" % (fmt(e, 4), "" if pd else " only on some paths"))
    # sends
    sends = b.calls(r"broadcast::Sender::<.*>::send$")
    ctx.call_sites += len(sends)
    sblks = {blk for blk, _ in sends}

    def transfer(blk, st):
        return [min(2, st + (1 if blk in sblks else 0))]
    ins, outs = forward_states(b, 0, transfer)
    finals = set()
    for rb in b.return_blocks():
        finals |= outs.get(rb, set())
    ctx.verdict(max(finals) <= 1 if finals else None, "R07.2", commit, "at-most-one-send", commit.loc(), "sends per path: %s" % sorted(finals),
                "commit can send more than one message for one transaction: subscribers observe intermediate states")
    for blk, t in sends:
        facts = conds.bare(conds.dominating_facts(b, blk))
        tr = [x for x in facts if x[0] == "truth" and x[1][0] == "call" and ecall_matches(x[1], r"::is_empty$") and mentions_field(x[1][3][0], "batch")]
        where = b.line_at((blk, 10 ** 6))
        if tr and all(x[2] is False for x in tr):
            ctx.holds("R07.2", commit, "send-only-if-nonempty", where, "send is on the not-empty edge of batch.is_empty()")
        elif tr:
            ctx.violated("R07.2", commit, "send-only-if-nonempty", where, "commit sends on the *empty* edge of the batch test: empty batches are published, real ones are not")
        else:
            lens = [x for x in facts if x[0] == "cmp" and contains(x[2], lambda y: y[0] == "call" and ecall_matches(y, r"::len$"))]
            if lens:
                ctx.undecided("R07.2", commit, "send-only-if-nonempty", where, "guard not recognised")
            else:
                ctx.violated("R07.2", commit, "send-only-if-nonempty", where, "commit sends without testing that the batch is non-empty: subscribers can receive an empty batch")
        # message is a Many of the batch
        e = b.expr_of_op(t["args"][1])
        many = find_all(e, lambda y: y[0] == "agg" and y[1] == "adt" and y[2].endswith("OneOrManyDiffs"))
        ok = bool(many) and all(m[3] == "Many" and mentions_field(m[5][0], "batch") for m in many)
        ctx.verdict(ok if many else None, "R07.2", commit, "one-Many-of-the-batch", where, "message.diffs = Many(take(self.batch))",
                    "commit does not publish the recorded batch as one Many message (publishes %s)" % [m[3] for m in many])


BATCH_SHRINK = r"^std::vec::Vec::<.*>::(clear|truncate|pop|drain|retain|retain_mut|remove|swap_remove|split_off|dedup)$|^std::mem::(take|replace)$"


def r07_3(ctx, fns, txn_pub):
    F = ctx.facts
    pub = txn_pub[0] if txn_pub else None
    # rollback
    rb = [f for f in fns if f.name == "rollback"]
    if not rb:
        ctx.missing("R07.3", "ObservableVectorTransaction::rollback")
    for f in rb:
        b = f.built
        assigns = [(loc, s) for loc, s in b.iter_stmts() if s["k"] == "assign" and place_fields(s["place"])[-1:] == ["values"] and "inner" not in place_fields(s["place"])]
        ok_a = False
        for loc, s in assigns:
            src = place_chain(strip(b.expr_of_rv(s["rv"], 10, ())))
            if src[-2:] == ["inner", "values"] and b.post_dominated_by(0, [loc[0]]):
                ok_a = True
        clears = [blk for blk, t in b.calls(r"^std::vec::Vec::<.*>::clear$") if mentions_field(b.expr_of_op(t["args"][0]), "batch")]
        ok_c = bool(clears) and b.post_dominated_by(0, clears)
        ctx.verdict(ok_a, "R07.3", f, "rollback-restores", f.loc(), "self.values = inner.values.clone() on every path",
                    "rollback does not restore the working copy from the vector's contents on every path")
        ctx.verdict(ok_c, "R07.3", f, "rollback-clears-batch", f.loc(), "batch.clear() on every path",
                    "rollback keeps (part of) the recorded batch: rolled-back operations would be published by a later commit")
    # discarding recorded diffs elsewhere
    for f in fns:
        b = f.built
        if not b or f.name in ("rollback", "commit"):
            continue
        for blk, t in b.calls(BATCH_SHRINK):
            if not t["args"] or not mentions_field(b.expr_of_op(t["args"][0]), "batch"):
                continue
            ctx.call_sites += 1
            where = b.line_at((blk, 10 ** 6))
            # a Clear must be recorded on every following path, and the working copy cleared
            clear_pubs = []
            for pblk, pt in b.calls():
                if pub is not None and F.local_callee(f, pt) is pub:
                    d = strip(b.expr_of_op(pt["args"][1]), through_calls=False)
                    if diff_agg_variant(d) == "Clear":
                        clear_pubs.append(pblk)
            vclears = [mb for mb, mt, m in c05.values_mutations(b) if m == "clear"]
            # .. except where the committed contents are known to be empty already: the wiped batch then takes "empty" to "empty"
            def committed_empty(x):
                for fct in conds.bare(conds.dominating_facts(b, x)):
                    if fct[0] == "truth" and fct[2] is True and fct[1][0] == "call" and ecall_matches(fct[1], r"::is_empty$") and fct[1][3] and mentions_field(fct[1][3][0], "inner"):
                        return True
                return False
            rets = set(b.return_blocks())
            escaping = b.reachable_from(blk, avoid_blocks=clear_pubs) & rets if clear_pubs else rets
            # every return that can be reached without recording a Clear lies behind the "committed contents are empty" edge
            def only_via_empty(r_):
                from .common import paths_between
                for path in paths_between(b, blk, r_, limit=200):
                    if any(pb in path for pb in clear_pubs):
                        continue
                    if not any(committed_empty(x) for x in path):
                        return False
                return True
            pubs_ok = bool(clear_pubs) and (b.post_dominated_by(blk, clear_pubs) or all(only_via_empty(r_) for r_ in escaping))
            ok = pubs_ok and bool(vclears) and (b.post_dominated_by(blk, vclears) or all(b.must_pass(0, blk, [v]) for v in vclears))
            ctx.verdict(ok, "R07.3", f, "discarded-diffs-replaced-by-Clear", where, "after batch.%s() every path records a Clear and the working copy is cleared" % t["callee"].split("::")[-1],
                        "`%s` discards the recorded diffs (batch.%s) but a following path does not record a `Clear` (with the working copy emptied): the committed batch no longer takes the pre-transaction state to the post-transaction state" % (f.path, t["callee"].split("::")[-1]))
    clear_guard(ctx, fns)
    # Drop writes nothing
    for f in fns:
        if f.raw.get("impl_trait") == "std::ops::Drop" and (f.raw.get("self_ty") or "").startswith(TXN):
            b = f.built
            bad = []
            for loc, s in b.iter_stmts():
                if s["k"] == "assign" and place_fields(s["place"]) and s["place"]["l"] == 1:
                    bad.append(loc)
            calls = [t for blk, t in b.calls() if F.local_callee(f, t) is not None and F.local_callee(f, t).name in ("commit", "rollback")]
            ctx.verdict(not bad and not calls, "R07.3", f, "drop-is-rollback", f.loc(), "Drop writes no field and commits nothing",
                        "the transaction's Drop writes state / commits: abandoning a transaction is no longer a no-op for the vector")


def clear_guard(ctx, fns, rule="R07.3"):
    """a guard of the transaction's clear must look at its own working copy"""
    F = ctx.facts
    for f in fns:
        if f.name != "clear" or not f.built:
            continue
        b = f.built
        muts = [mb for mb, mt, m in c05.values_mutations(b) if m == "clear"]
        for mb in muts:
            facts = conds.bare(conds.dominating_facts(b, mb))
            for x in facts:
                if x[0] == "truth" and x[1][0] == "call" and ecall_matches(x[1], r"::is_empty$"):
                    ch = place_chain(strip(x[1][3][0]))
                    own = ch[-1:] == ["values"] and "inner" not in ch
                    ctx.verdict(own and x[2] is False, rule, f, "clear-guard", b.line_at((mb, 10 ** 6)), "clear is guarded by !self.values.is_empty() (own working copy)",
                                "the transaction's clear is guarded by emptiness of `%s`, not of its own working copy: pending items survive clear()" % (".".join(ch) or fmt(x[1][3][0], 4)))



def r07_4(ctx, fns):
    F = ctx.facts
    for f in fns:
        if f.raw.get("impl_trait") == "std::ops::Deref" and (f.raw.get("self_ty") or "").startswith(TXN):
            b = f.built
            ch = place_chain(strip(ret_expr(b)))
            ok = ch[-1:] == ["values"] and "inner" not in ch
            ctx.verdict(ok, "R07.4", f, "deref=working-copy", f.loc(), "Deref returns &self.values",
                        "the transaction dereferences to `%s`, not to its working copy: pending changes are invisible through the handle" % ".".join(ch))
    # entries route through the transaction
    n = 0
    for f in fns:
        st = root_fn(F, f).raw.get("self_ty") or ""
        if not st.startswith("vector::transaction::ObservableVectorTransactionEntry<") or f.name not in ("set", "remove"):
            continue
        b = f.built
        for blk, t in b.calls():
            c = F.local_callee(f, t)
            if c is not None and c.name == f.name and c is not f:
                n += 1
                ok = (c.raw.get("self_ty") or "").startswith(TXN)
                ctx.verdict(ok, "R07.4", f, "entry-routes-through-transaction", b.line_at((blk, 10 ** 6)), "calls ObservableVectorTransaction::%s" % c.name,
                            "a transaction entry calls `%s`: the change bypasses the transaction" % c.path)
    ctx.floor("R07.4", n, 2)


def r07_5(ctx):
    F = ctx.facts
    n = 0
    for f in F.find(crate=IM):
        b = f.built
        if not b:
            continue
        for loc, s in b.iter_stmts():
            if s["k"] == "assign" and s["rv"]["k"] == "agg" and (s["rv"].get("adt") or "").endswith("OneOrManyDiffs") and s["rv"]["variant"] == "Many":
                n += 1
                facts = conds.bare(conds.dominating_facts(b, loc[0]))
                ne = [x for x in facts if x[0] == "truth" and x[1][0] == "call" and ecall_matches(x[1], r"::is_empty$") and x[2] is False]
                if f.raw.get("impl_trait") == "std::clone::Clone":
                    n -= 1
                    continue  # derived Clone re-builds an existing message
                ctx.verdict(True if ne else False, "R07.5", f, "Many-nonempty", b.line_at(loc), "Many is built on the not-empty edge",
                            "a OneOrManyDiffs::Many is built without a non-empty test: the stream's `unreachable!(never sends empty diffs)` becomes reachable")
    ctx.floor("R07.5", n, 1)
