"""Clause groups shared by several properties.

A defect in the core of a crate usually breaks several of the listed properties at once (e.g. a transaction's clear that
drops recorded diffs breaks C05, C06, C07 and C17), so the structural clauses are grouped and every property evaluates the
groups that bear on its statement. Results are merged by (rule, function, instance), so sharing costs nothing.
"""
from .common import *


def eyeball_close_and_wake(ctx):
    """close is reached exactly when the last owner goes (C03), in one critical section with the wake-up (C02), and the poll leaf
    tests + registers atomically: premature / missing close and lost wake-ups break C01 (readiness), C02, C03 and C16 alike."""
    from . import c02, c03, leaf
    F = ctx.facts
    c03.run(ctx)
    leaf.check_critical_section(ctx, "R02.1")
    leaf.check_pending_registered(ctx, "R02.2")
    wakes = find_wake_fn(F)
    if len(wakes) == 1:
        c02.r02_3(ctx, wakes[0])
        c02.r02_4(ctx, wakes[0])
        c02.r02_5(ctx, wakes[0])
    eyeball_poll_typestate(ctx)


def eyeball_poll_typestate(ctx):
    """every poll function of the eyeball crate returns Pending only after the poll leaf (or its gate) was left pending with the caller's waker."""
    from . import wakers
    F = ctx.facts
    n = 0
    for f, sites in wakers.poll_fns(F, (EY,)):
        n += 1
        wakers.check_poll_fn(ctx, "R02.7", f, sites)
        wakers.check_rearm(ctx, "R02.7", f, sites)
    ctx.floor("R02.7", n, 3 if not ctx.has_async else 7)


def im_core(ctx):
    """what every subscriber of an ObservableVector receives: mutator/diff table agreement, one publication after the mutation,
    no-op guards, in-order unpacking, empty batches, discarded diffs, state snapshots, lag handler, end of stream."""
    from . import c05, c06, c07, c08
    F = ctx.facts
    af, table = c05.apply_table(F)
    vec_pub, txn_pub = c05.publication_fns(F)
    if af is not None and table and len(vec_pub) == 1 and len(txn_pub) == 1:
        for prefix, pub in (("vector::ObservableVector<", vec_pub[0]), ("vector::transaction::ObservableVectorTransaction<", txn_pub[0])):
            for f in c05.mutators(F, prefix):
                c05.check_mutator(ctx, f, pub, table)
    else:
        ctx.missing("R05.1", "reader table / publication functions")
    c05.r05_4(ctx)   # the snapshot and the receiver are taken in the same `&self` call (else updates in between are lost)
    c05.r05_12(ctx)
    c05.r05_5(ctx)
    c05.r05_9(ctx)
    c05.r05_11(ctx)
    c08.r08_2(ctx)   # one long-lived Sender, never cloned into something that outlives the vector
    c08.r08_4(ctx)
    fns = c07.txn_fns(F)
    commit = [f for f in fns if f.name == "commit" and (f.raw.get("self_ty") or "").startswith(c07.TXN)]
    if len(commit) == 1:
        c07.r07_2(ctx, commit[0])
    c07.r07_3(ctx, fns, txn_pub)
    c07.r07_5(ctx)
    c06.r06_1(ctx)
    lag = c06.find_lag_handler(F)
    if lag is not None:
        c06.r06_4(ctx, lag)
        c08.r08_1(ctx, c08.stream_fns(F) + [lag])
        c08.r08_3(ctx, c08.stream_fns(F), lag)
    c06.r06_3(ctx)   # a Reset only as the answer to a lag (never made up by a mutator / commit)
    c06.r06_5(ctx)
    c06.r06_6(ctx)
    c06.r06_7(ctx)   # Pending only as the channel's answer (a Pending of its own after re-arming loses the wake-up / the end)


def util_stage_rules(ctx, which=("c09", "c10", "c11")):
    """the per-adapter structural rules (a chain / a batched flavour / a bounded view is only as right as each adapter)."""
    import importlib
    for m in which:
        importlib.import_module("engine.rules." + m).run(ctx)


def util_buffers(ctx):
    """ready-buffer discipline shared by all adapters: FIFO idioms, no empty batches, batched containers cannot split."""
    from . import c13
    F = ctx.facts
    vimp = c13.ops_impl(F, c13.VEC_IMPL)
    oimp = c13.ops_impl(F, c13.ONE_IMPL)
    if vimp is None or oimp is None:
        ctx.missing("R13.1", "impl VectorDiffContainerOps for Vec<VectorDiff<T>> / VectorDiff<T>")
        return
    c13.r13_1(ctx, vimp)
    c13.r13_3(ctx, vimp)
    c13.r13_6(ctx, vimp)
    c13.r13_7(ctx, vimp)
    c13.r13_8(ctx, vimp)
    c13.r13_5(ctx, oimp)
