"""C18 — VectorDiff::map commutes with apply."""
import re
from ..facts import strip, ecall_matches, contains, find_all, fmt, mentions_field, mentions_call, has_arith
from .. import conds
from .common import *
from .vecdiff import *
from .c01 import CALL_CLOSURE

CRATES = (IM,)

META = {
    "explanation": (
        "Static decision on MIR. R18.1 `map` is the functorial image: in each of the 11 arms every VectorDiff built is the matched variant, its "
        "index/length fields are the matched payload with no arithmetic, value variants call `f` exactly once on the matched value and use its "
        "result, vector variants use vector_map(matched, f), and vector_map is exactly into_iter -> map(f) -> collect with no other adapter. Because U "
        "is a type parameter, f is the only source of U values (parametricity), so these shape facts determine the function. R18.2 `apply`: on every "
        "path of every arm exactly one mutating imbl call on the target, the method documented for the variant with the payload fields in order "
        "(Reset assigns); an equivalent method is accepted only under a dominating equality that makes it equivalent (push_front under index == 0, "
        "push_back under index == len), so the panics for out-of-range insert/set/remove remain imbl's. imbl's documented behaviour is trusted."),
    "trusted_base": ["imbl::Vector::{append, clear, push_*, pop_*, insert, set, remove, truncate} behave as documented and panic on out-of-range insert/set/remove", "rustc MIR construction", "parametricity of generic Rust code"],
    "assumptions": [],
}
META["explanation"] += ' R18.2 also requires that no path through apply bypasses the dispatch on the variant (an early return drops the diff).'
META["explanation"] += ' R18.3 apply and map contain no panic source of their own (overflow / bounds assertion, unwrap / expect, indexing, explicit panic) in any feature configuration.'
META["explanation"] += ' Shared: R10.12 (negative contract entry for imbl 5.0.0).'

ADAPTERS = r"Iterator>?::(rev|skip|take|step_by|filter|filter_map|skip_while|take_while|chain|zip|cycle|flat_map|flatten|scan|peekable|enumerate|inspect|dedup)$"


def run(ctx):
    F = ctx.facts
    if UT in F.crates or IM in F.crates:
        from . import c10
        c10.r10_12(ctx)   # contract table, negative entry (imbl 5.0.0: FocusMut::swap family)
    r18_1(ctx)
    r18_2(ctx)
    r18_3(ctx)


def r18_1(ctx):
    F = ctx.facts
    f = F.fn(IM, "vector::VectorDiff::<T>::map")
    if f is None:
        ctx.missing("R18.1", "vector::VectorDiff::<T>::map")
        return
    b = inl(F, f) or f.built   # the private per-vector helper (vector_map) is analysed in place
    sws = diff_switches(b)
    if not sws:
        ctx.missing("R18.1", "discriminant switch in VectorDiff::map")
        return
    sw, info = sws[0]
    arms, multi = arm_targets(info)
    ctx.floor("R18.1", len(arms), 11)
    for t, vs in multi:
        if vs:
            ctx.undecided("R18.1", f, "arm=" + "|".join(sorted(vs)), b.line_at((t, 0)), "several variants share one arm")
    def elementwise(e, v):
        """e is `collect(map(into_iter(<matched values>), <f>))` with no reordering / dropping adapter in between."""
        x = strip(e, through_calls=False)
        if not (x[0] == "call" and ecall_matches(x, r"Iterator>?::collect$|FromIterator<.*>>?::from_iter$") and x[3]):
            return False
        m = strip(x[3][0], through_calls=False)
        if not (m[0] == "call" and ecall_matches(m, r"Iterator>?::map$") and len(m[3]) == 2):
            return False
        src = strip(m[3][0], through_calls=False)
        if not (src[0] == "call" and ecall_matches(src, r"IntoIterator>?::into_iter$") and src[3]):
            return False
        if find_all(e, lambda y: y[0] == "call" and isinstance(y[1], str) and re.search(ADAPTERS, y[1])):
            return False
        return contains(src[3][0], lambda y: y[0] == "field" and y[2] == "values" and y[1][0] == "downcast" and y[1][2] == v) \
            and contains(m[3][1], lambda y: y[0] == "param" and y[1] == 2)
    for v in VARIANTS:
        if v not in arms:
            if not any(v in vs for _, vs in multi):
                ctx.violated("R18.1", f, "arm=" + v, f.loc(), "map has no arm for %s" % v)
            continue
        region = arm_region(b, sw, arms[v])
        built = []
        for loc, s in b.iter_stmts(sorted(region)):
            if s["k"] == "assign" and s["rv"]["k"] == "agg" and (s["rv"].get("adt") or "").endswith("::VectorDiff"):
                built.append((loc, s["rv"]))
        where = b.line_at((arms[v], 0))
        if not built:
            ctx.undecided("R18.1", f, "arm=" + v, where, "no VectorDiff literal in the arm")
            continue
        probs = []
        fcalls = [(blk, t) for blk, t in b.calls(CALL_CLOSURE, blocks=sorted(region))]
        for loc, rv in built:
            if rv["variant"] != v:
                probs.append("builds VectorDiff::%s for an incoming %s" % (rv["variant"], v))
                continue
            for name, op in zip(rv["fields"], rv["ops"]):
                e = b.expr_of_op(op)
                x = strip(e, through_calls=False)
                if name in ("index", "length"):
                    ok = x[0] == "field" and x[2] == name and x[1][0] == "downcast" and x[1][2] == v and not has_arith(e)
                    if not ok:
                        probs.append("field `%s` is `%s`, not the matched payload unmodified" % (name, fmt(e, 4)))
                elif name == "value":
                    ok = x[0] == "call" and isinstance(x[1], str) and re.search(CALL_CLOSURE, x[1]) and contains(x, lambda y: y[0] == "field" and y[2] == "value" and y[1][0] == "downcast" and y[1][2] == v) \
                        and contains(x, lambda y: y[0] == "param" and y[1] == 2)
                    if not ok:
                        probs.append("`value` is `%s`, not f(matched value)" % fmt(e, 4))
                elif name == "values":
                    if not elementwise(e, v):
                        ads_ = find_all(e, lambda y: y[0] == "call" and isinstance(y[1], str) and re.search(ADAPTERS, y[1]))
                        probs.append("`values` is `%s`, not matched_values.into_iter().map(f).collect()%s" % (
                            fmt(e, 5), (" (uses the adapter `%s`: element order / multiplicity is not preserved)" % ads_[0][1].split("::")[-1]) if ads_ else ""))
        if v in ("PushFront", "PushBack", "Insert", "Set"):
            fblks = {blk for blk, _ in fcalls}
            ins_, outs_ = forward_states(b, 0, lambda blk, st: [min(2, st + (1 if blk in fblks else 0))], start=arms[v])
            per_path = set()
            for rb in b.return_blocks():
                per_path |= outs_.get(rb, set())
            if per_path and per_path != {1}:
                probs.append("f is called %s times on some path through the arm (must be exactly once on every path)" % sorted(per_path))
        if v in ("PushFront", "PushBack", "Insert", "Set") and len(fcalls) < 1:
            probs.append("f is called %d times in the arm (must be exactly once)" % len(fcalls))
        if v in ("Clear", "PopFront", "PopBack", "Remove", "Truncate") and fcalls:
            probs.append("f is called in an arm that carries no element")
        ctx.call_sites += len(fcalls)
        if probs:
            ctx.violated("R18.1", f, "arm=" + v, where, "VectorDiff::map, arm %s: %s" % (v, "; ".join(probs)))
        else:
            ctx.holds("R18.1", f, "arm=" + v, where, "arm %s rebuilds %s with untouched index/length and f applied once to the element(s)" % (v, v))


def r18_2(ctx):
    F = ctx.facts
    f = F.fn(IM, "vector::VectorDiff::<T>::apply")
    if f is None:
        ctx.missing("R18.2", "vector::VectorDiff::<T>::apply")
        return
    b = f.built
    sws = diff_switches(b)
    if not sws:
        ctx.missing("R18.2", "discriminant switch in VectorDiff::apply")
        return
    sw, info = sws[0]
    arms, multi = arm_targets(info)
    ctx.floor("R18.2", len(arms), 11)
    # every diff reaches its arm: no path from entry to return bypasses the dispatch (an early return before the `match`
    # silently drops a diff, e.g. a shortcut for payloads that look like the target)
    bypass = [x for x in b.reachable_from(0, avoid_blocks=[sw]) if b.term(x)["k"] == "return"]
    ctx.verdict(not bypass, "R18.2", f, "dispatch-not-bypassed", b.line_at((sw, 10 ** 6)), "every normal path through apply passes the dispatch on the variant",
                "apply can return (bb%s) without reaching the dispatch on the variant: on that path the diff is dropped without being applied" % (bypass[0] if bypass else ""))
    for v in VARIANTS:
        if v not in arms:
            ctx.violated("R18.2", f, "arm=" + v, f.loc(), "apply has no explicit arm for %s" % v)
            continue
        region = arm_region(b, sw, arms[v])
        want_m, want_f = DOC_TABLE[v]
        muts = []
        for blk in sorted(region):
            t = b.term(blk)
            if t["k"] == "call":
                m = imbl_method(t)
                if m in MUTATING and contains(b.expr_of_op(t["args"][0]), lambda x: x[0] == "param" and x[1] == 2):
                    muts.append((blk, t, m))
            for i, s in enumerate(b.blocks[blk]["stmts"]):
                if s["k"] == "assign" and s["place"]["l"] == 2 and s["place"]["proj"] == ["deref"]:
                    muts.append((blk, s, "="))
        mblks = {x[0] for x in muts}

        def transfer(blk, st):
            return [min(2, st + (1 if blk in mblks else 0))]
        ins, outs = forward_states(b, 0, transfer, start=arms[v])
        finals = set()
        for rb in b.return_blocks():
            finals |= outs.get(rb, set())
        where = b.line_at((arms[v], 0))
        probs = []
        if finals != {1}:
            probs.append("mutations per path: %s (must be exactly one)" % sorted(finals))
        for blk, t, m in muts:
            if m == "=":
                if want_m != "=":
                    probs.append("assigns the whole vector")
                continue
            fields = []
            for a in t["args"][1:]:
                e = strip(b.expr_of_op(a), through_calls=False)
                fields.append(e[2] if (e[0] == "field" and e[1][0] == "downcast" and e[1][2] == v and not has_arith(b.expr_of_op(a))) else "?" + fmt(e, 3))
            if m == want_m:
                if fields != want_f:
                    probs.append("calls %s(%s) instead of %s(%s)" % (m, ", ".join(fields), want_m, ", ".join(want_f)))
                continue
            # an equivalent under a dominating equality?
            facts = conds.dominating_facts(b, blk)
            is_idx = lambda e: e[0] == "field" and e[2] == "index"
            eqv = False
            if v == "Insert" and m == "push_front":
                eqv = conds.cmp_holds(facts, "Eq", is_idx, lambda e: is_const_int(e, 0))
            if v == "Insert" and m == "push_back":
                eqv = conds.cmp_holds(facts, "Eq", is_idx, lambda e: contains(e, lambda y: y[0] == "call" and ecall_matches(y, r"::len$")))
            if v == "PushBack" and m == "insert":
                eqv = False
            if not eqv:
                probs.append("applies `%s` where the variant means `%s`%s" % (m, want_m, " (the guard does not make them equivalent: out-of-range indices would no longer panic)" if v in ("Insert", "Set", "Remove") else ""))
        if probs:
            ctx.violated("R18.2", f, "arm=" + v, where, "VectorDiff::apply, arm %s: %s" % (v, "; ".join(probs)))
        else:
            ctx.holds("R18.2", f, "arm=" + v, where, "%s -> vec.%s(%s)" % (v, want_m, ", ".join(want_f)))


PANICKY = r"Option::<.*>::(unwrap|expect)$|Result::<.*>::(unwrap|expect|unwrap_err|expect_err)$|^std::rt::(panic_fmt|begin_panic)|^core::panicking::|ops::Index(Mut)?(<.*>)?>?::index(_mut)?$|slice::index::"


def r18_3(ctx):
    """apply and map add no panic of their own: "apply panics exactly when plain insert / set / remove would". The only places
    a panic may come from are imbl's own methods (R18.2 fixes which); an overflow / bounds assertion, an unwrap / expect, an
    indexing operation or an explicit panic inside apply or map (any feature configuration) is a second source. Expected 0."""
    F = ctx.facts
    for name in ("apply", "map"):
        f = F.fn(IM, "vector::VectorDiff::<T>::%s" % name)
        if f is None or not f.built:
            continue
        b = inl(F, f) or f.built
        bad = []
        for blk in sorted(b.reachable()):
            t = b.term(blk)
            if t["k"] == "assert":
                bad.append((blk, "a checked arithmetic / bounds assertion"))
            elif t["k"] == "call" and re.search(PANICKY, t.get("callee") or ""):
                sp = t.get("span") or {}
                bad.append((blk, "a call of `%s`" % (t.get("callee") or "").split("::")[-1]))
        if bad:
            blk, what = bad[0]
            ctx.violated("R18.3", f, "no-own-panic", b.line_at((blk, 10 ** 6)),
                         "`VectorDiff::%s` contains %s: it can panic where the plain imbl operation would not (e.g. `a + b - 1` on two empty vectors), so replaying diffs no longer panics exactly when the plain operations do" % (name, what))
        else:
            ctx.holds("R18.3", f, "no-own-panic", f.loc(), "no assertion, unwrap / expect, indexing or explicit panic in %s (helpers inlined)" % name)
