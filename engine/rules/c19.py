"""C19 — handle and subscriber counts are exact (reference ledger)."""
import re
from ..facts import strip, ecall_matches, contains, find_all, fmt, mentions_field, mentions_call
from .. import conds
from .common import *
from .c03 import owner_counter_field

CRATES = (EY,)

META = {
    "explanation": (
        "Static reference ledger on MIR: R19.1 owner family - every construction of a SharedObservable takes `state` and the owner counter from "
        "Arc::clone / Weak::upgrade of the same-named field of an existing handle; a fresh counter (Arc::new(())) appears only in the family constructor, "
        "which only new/new_async/default/into_shared may call; R19.2 the count functions read the right counter (observable_count = strong_count of the "
        "owner counter, strong_count/weak_count of the state Arc, subscriber_count = strong_count() - observable_count() in that order, "
        "Observable::subscriber_count = the lock's read count); R19.3 one strong state reference per subscriber - the number of owned state handles "
        "(parameters and clones) stored in a constructed subscriber; R19.4 Arc::downgrade only in downgrade(); R19.5 inventory of clones of the state "
        "handle; R19.6 SharedObservable's Drop releases its share of the owner counter on every path. The async subscriber stores two handles: known "
        "finding F6."),
    "trusted_base": ["std::sync::Arc / Weak counting", "readlock(-tokio): SharedReadLock is one Arc; read_count = strong - 1", "rustc MIR construction"],
    "assumptions": [],
}
META["explanation"] += " R19.3 also requires all construction sites of one subscriber-state type to store the same number of owned references (a clone that owns fewer, e.g. a lazily boxed lock future, makes the counts depend on the handles' history)."
META["explanation"] += ' R19.4 also sees SharedReadLock::downgrade; R19.7 also sees replacement through Clone::clone_from / mem::replace / swap / take.'
META["explanation"] += ' R19.8 ManuallyDrop ledger: every owned share of the owner counter made in a function (clone of the field, ManuallyDrop::new of a fresh / upgraded Arc) is moved into the counter field of a constructed SharedObservable or released explicitly; a value that only gets borrowed leaks one count per call. R19.9 type ledger: no type other than the counted handles has a field that owns a state reference (Arc / SharedReadLock / Owned*Guard), and the guard types chosen by the Lock impls borrow.'
META["explanation"] += " R19.10 (async flavour) the completed lock future is re-armed before anything that can run foreign code (the value's Clone, the waker's clone, a closure): a panic in between leaves the subscriber with one reference for the rest of its life. R19.11 no hidden handles: a clone of a SharedObservable / Subscriber made inside the crate is not moved into a closure / future the function returns."
META["explanation"] += ' R19.12 no handle (Subscriber / SharedObservable) is created before an await inside the async API (it would live in the pending future and be counted).'
META["explanation"] += ' Shared: the re-arm pairing of the async poll functions (the prepared lock request is one of the counted references only if every completed request is replaced before the poll returns).'
META["explanation"] += ' R19.9 also treats a field typed with an associated type of the Lock trait as owning what the impls of that associated type own.'

SH = "shared::SharedObservable<"


from .c03 import FALLBACK


def run(ctx):
    F = ctx.facts
    counter = owner_counter_field(F)
    if counter is None:
        ctx.missing("R19.1", "owner counter field of SharedObservable")
        return
    r19_1(ctx, counter)
    r19_2(ctx, counter)
    r19_3(ctx)
    r19_45(ctx)
    r19_6(ctx, counter)
    r19_7(ctx, counter)
    r19_8(ctx, counter)
    r19_9(ctx)
    r19_11(ctx)
    r19_12(ctx)
    if ctx.has_async:
        from . import wakers
        k = 0
        for f, sites in wakers.poll_fns(F, (EY,)):
            if "async_lock" in f.path:
                k += wakers.check_rearm_immediate(ctx, "R19.10", f, sites)
        ctx.floor("R19.10", k, 1)
        # the ledger counts the references a subscriber owns "at rest": the prepared lock request is one of them, so it has to exist
        # whenever the subscriber is at rest - the re-arm pairing (every completed request is replaced before the poll returns) says so
        for f, sites in wakers.poll_fns(F, (EY,)):
            if "async_lock" in f.path:
                wakers.check_rearm(ctx, "R02.7", f, sites)


def r19_1(ctx, counter):
    F = ctx.facts
    fam = [f for f in F.find(crate=EY) if f.built and any(s["k"] == "assign" and s["rv"]["k"] == "agg" and s["rv"].get("adt") == "shared::SharedObservable"
                                                       and contains(f.built.expr_of_op(s["rv"]["ops"][s["rv"]["fields"].index(counter)]), lambda x: x[0] == "call" and ecall_matches(x, r"Arc::<.*>::new$"))
                                                       for _, s in f.built.iter_stmts())]
    if len(fam) != 1:
        ctx.missing("R19.1", "family constructor (role: builds a SharedObservable with a fresh Arc::new(())) - found %d" % len(fam))
        return
    fam = fam[0]
    n = 0
    for f in F.find(crate=EY):
        b = f.built
        if not b:
            continue
        for blk, t in b.calls():
            if F.local_callee(f, t) is fam:
                n += 1
                root = root_fn(F, f)
                ok = root.name in ("new", "new_async", "default", "into_shared")
                ctx.verdict(ok, "R19.1", root, "fresh-family-only-in-constructors", b.line_at((blk, 10 ** 6)), "`%s` starts a new family (fresh owner counter)" % root.name,
                            "`%s` builds its SharedObservable through the family constructor, i.e. with a fresh owner counter: handles of one observable then count separately (observable_count is wrong, subscriber_count counts sibling handles as subscribers)" % root.path)
    # construction sites: judged in the enclosing function with closures of `map` / `and_then` / `then` .. desugared and
    # inlined (the closure's parameter is then the payload of the upgraded / cloned handle), else in the closure itself
    seen_spans = set()

    def span_key(s_):
        sp = s_.get("span") or {}
        return (sp.get("file"), sp.get("line"), sp.get("col"))

    def judge(f, b, own_closure):
        nonlocal n
        for loc, s in b.iter_stmts():
            if not (s["k"] == "assign" and s["rv"]["k"] == "agg" and s["rv"].get("adt") == "shared::SharedObservable") or f is fam:
                continue
            if own_closure and span_key(s) in seen_spans:
                continue
            seen_spans.add(span_key(s))
            for name, op in zip(s["rv"]["fields"], s["rv"]["ops"]):
                n += 1
                e = b.expr_of_op(op)
                src = find_all(e, lambda x: x[0] == "call" and ecall_matches(x, r"Clone>?::clone$|Arc::<.*>::clone$|Weak::<.*>::upgrade$"))
                good = [c for c in src if c[3] and mentions_field(c[3][0], name) and contains(c[3][0], lambda y: y[0] == "param" and y[1] == 1)]
                fresh = find_all(e, lambda x: x[0] == "call" and ecall_matches(x, r"Arc::<.*>::new$|Default>?::default$|" + FALLBACK))
                opaque = own_closure and contains(e, lambda y: y[0] == "param" and y[1] >= 2) and not fresh
                ok = bool(good) and not fresh
                ctx.verdict(None if (not ok and opaque) else ok, "R19.1", root_fn(F, f), "field-from-same-family:%s" % name, b.line_at(loc), "`%s` = clone/upgrade of self.%s" % (name, name),
                            "`%s` builds a SharedObservable whose `%s` is `%s`, not a clone/upgrade of the same field of the existing handle" % (f.path, name, fmt(e, 4)))
    for f in F.find(crate=EY):
        if f.built and f.kind != "closure":
            judge(f, inl(F, f, fam, desugar=True, tag="r19.1") or f.built, False)
    for f in F.find(crate=EY):
        if f.built and f.kind == "closure":
            judge(f, f.built, True)
    ctx.floor("R19.1", n, 7)


def r19_2(ctx, counter):
    F = ctx.facts
    want = {"observable_count": (r"Arc::<.*>::strong_count$", counter), "strong_count": (r"Arc::<.*>::strong_count$", "state"), "weak_count": (r"Arc::<.*>::weak_count$", "state")}
    for name, (pat, field) in want.items():
        f = F.fn(EY, "shared::SharedObservable::<T, L>::%s" % name)
        if f is None:
            ctx.missing("R19.2", "shared::SharedObservable::<T, L>::%s" % name)
            continue
        e = strip(ret_expr(f.built), through_calls=False)
        ok = e[0] == "call" and ecall_matches(e, pat) and e[3] and strip(e[3][0], through_calls=True)[0] == "field" and place_last(e[3][0]) == field
        ctx.verdict(ok, "R19.2", f, "reads-right-counter", f.loc(), "%s = %s(&self.%s)" % (name, pat.split("::")[-1].rstrip("$"), field),
                    "`%s` returns `%s` instead of %s(&self.%s)" % (name, fmt(e, 4), pat.split("::")[-1].rstrip("$"), field))
    f = F.fn(EY, "shared::SharedObservable::<T, L>::subscriber_count")
    if f is None:
        ctx.missing("R19.2", "shared::SharedObservable::<T, L>::subscriber_count")
    else:
        e = ret_expr(f.built)
        subs = find_all(e, lambda x: x[0] == "bin" and x[1].startswith("Sub"))
        ok = False
        if subs:
            l, r = strip(subs[0][2], through_calls=False), strip(subs[0][3], through_calls=False)
            ok = l[0] == "call" and isinstance(l[1], str) and l[1].endswith("::strong_count") and r[0] == "call" and isinstance(r[1], str) and r[1].endswith("::observable_count") \
                and "SharedObservable" in l[1] and strip(l[3][0])[0] == "param" and strip(r[3][0])[0] == "param"
        ctx.verdict(ok, "R19.2", f, "subscriber_count=strong-observable", f.loc(), "subscriber_count = self.strong_count() - self.observable_count()",
                    "subscriber_count is `%s`, not strong_count() - observable_count()" % fmt(e, 5))
    f = F.fn(EY, "unique::Observable::<T, L>::subscriber_count")
    if f is None:
        ctx.missing("R19.2", "unique::Observable::<T, L>::subscriber_count")
    else:
        e = strip(ret_expr(f.built), through_calls=False)
        ok = e[0] == "call" and isinstance(e[1], str) and e[1].endswith("shared_read_count") and mentions_field(e[3][0], "state")
        ctx.verdict(ok, "R19.2", f, "unique-subscriber_count", f.loc(), "Observable::subscriber_count = L::shared_read_count(&this.state)", "Observable::subscriber_count is `%s`" % fmt(e, 4))
    # the Lock impls' shared_read_count
    for f in F.find(crate=EY, name="shared_read_count"):
        e = strip(ret_expr(f.built), through_calls=False)
        ok = e[0] == "call" and isinstance(e[1], str) and e[1].endswith("::read_count")
        ctx.verdict(ok, "R19.2", f, "lock-read-count", f.loc(), "shared_read_count = Shared::read_count", "shared_read_count is `%s`" % fmt(e, 4))


def place_last(e):
    x = strip(e, through_calls=True)
    return x[2] if x[0] == "field" else None


HANDLE_TY = r"SharedReadLock<"


def r19_3(ctx):
    F = ctx.facts
    n = 0
    per_type = {}
    for f in F.find(crate=EY):
        b = f.built
        if not b:
            continue
        for loc, s in b.iter_stmts():
            if not (s["k"] == "assign" and s["rv"]["k"] == "agg" and s["rv"].get("adt") in ("subscriber::Subscriber", "subscriber::async_lock::AsyncSubscriberState")):
                continue
            if s["rv"].get("adt") == "subscriber::Subscriber":
                # the state field may itself be an AsyncSubscriberState aggregate (counted at its own site) or a handle
                if "state" not in s["rv"]["fields"]:
                    continue
                i = s["rv"]["fields"].index("state")
                e = b.expr_of_op(s["rv"]["ops"][i])
                if strip(e, through_calls=False)[0] == "agg":
                    continue
                exprs = [e]
            else:
                exprs = [b.expr_of_op(o) for o in s["rv"]["ops"]]
            n += 1
            owned = 0
            for e in exprs:
                x = strip(e, through_calls=False)
                clones = find_all(e, lambda y: y[0] == "call" and ecall_matches(y, r"Clone>?::clone$") and re.search(HANDLE_TY + "|SubscriberState", (y[1] if isinstance(y[1], str) else "") + " " + (y[2] or "")))
                if x[0] == "param" or (x[0] == "call" and x in clones):
                    owned += 1
                    clones = [c for c in clones if c is not x]
                elif x[0] == "field" and not clones and "observed" not in x[2]:
                    owned += 0
                owned += len(clones)
            where = b.line_at(loc)
            per_type.setdefault(s["rv"].get("adt"), []).append((owned, f, where))
            if owned <= 1:
                ctx.holds("R19.3", f, "strong-refs-per-subscriber", where, "the constructed subscriber stores %d owned state handle(s)" % owned)
            else:
                # keyed by the constructed type, not by the constructing function: merging the constructors into a helper
                # moves the site but not the finding
                ctx.violated("R19.3", "type:" + s["rv"].get("adt"), "strong-refs-per-subscriber=%d" % owned, where,
                             "`%s` stores %d owned handles of the shared state in one subscriber (the handle itself and a boxed `lock_owned()` future owning a clone): "
                             "every such subscriber adds %d to the strong count, so subscriber_count reports %d per subscriber and strong_count is not the sum" % (f.path, owned, owned, owned))
    # the counts are a function of the live handles only if every way of making a handle of one kind stores the same number
    # of references (a clone that owns fewer than the original - e.g. a lock future boxed lazily at the first poll - makes
    # strong_count / subscriber_count depend on the handles' history)
    for adt, sites in sorted(per_type.items()):
        sites = [x for x in sites if x[0] >= 1]   # 0 = the handle is made by a generic `L::SubscriberState::clone` the count does not see
        counts = sorted({c for c, _, _ in sites})
        if not sites:
            continue
        if len(counts) > 1:
            lo = [x for x in sites if x[0] == counts[0]][0]
            hi = [x for x in sites if x[0] == counts[-1]][0]
            ctx.violated("R19.3", "type:" + adt, "strong-refs-uniform", lo[2],
                         "handles of type `%s` are built with %d owned state reference(s) in `%s` but with %d in `%s`: the reference counts then depend on how (and when) a subscriber was made, not only on how many are alive" % (
                             adt, lo[0], lo[1].path, hi[0], hi[1].path))
        else:
            ctx.holds("R19.3", "type:" + adt, "strong-refs-uniform", sites[0][2], "all %d construction site(s) store %d owned reference(s)" % (len(sites), counts[0]))
    ctx.floor("R19.3", n, 2 if not ctx.has_async else 4)


def r19_45(ctx):
    F = ctx.facts
    n = 0
    for f in F.find(crate=EY):
        b = f.built
        if not b:
            continue
        for blk, t in b.calls(r"Arc::<.*>::downgrade$|SharedReadLock::<.*>::downgrade$"):
            n += 1
            root = root_fn(F, f)
            ok = root.name == "downgrade"
            ctx.verdict(ok, "R19.4", root, "downgrade-site", b.line_at((blk, 10 ** 6)), "Arc::downgrade in downgrade()", "`%s` creates a weak reference outside downgrade(): weak_count no longer equals the number of WeakObservables" % root.path)
        for blk, t in b.calls(r"Clone>?::clone$|Arc::<.*>::clone$"):
            e = b.expr_of_op(t["args"][0])
            x = strip(e)
            ty = b.locals[t["dest"]["l"]]["ty"]
            if not (x[0] == "field" and x[2] in ("state", "inner") and ("Arc<" in ty or "SharedReadLock<" in ty)):
                continue
            n += 1
            root = root_fn(F, f)
            known = {"subscribe", "subscribe_reset", "clone", "clone_reset", "new_async", "poll_update", "poll_next_nopin", "subscribe_async", "subscribe_reset_async"}
            ctx.verdict(True if root.name in known else None, "R19.5", root, "state-handle-clone", b.line_at((blk, 10 ** 6)), "clone of the state handle in `%s`" % root.name)
    ctx.floor("R19.4", n, 4)


def r19_6(ctx, counter):
    F = ctx.facts
    a = F.adt(EY, "shared::SharedObservable")
    fty = [fd["ty"] for fd in a["variants"][0]["fields"] if fd["name"] == counter][0]
    for cf in F.find(crate=EY, pred=lambda f: f.raw.get("impl_trait") == "std::ops::Drop" and (f.raw.get("self_ty") or "").startswith(SH)):
        b = cf.built
        if "ManuallyDrop" not in fty:
            ctx.holds("R19.6", cf, "owner-share-released", cf.loc(), "the owner counter is a plain field: drop glue releases it on every path")
            continue
        rel = [blk for blk, t in b.calls(r"ManuallyDrop::<.*>::(take|drop|into_inner)$") if mentions_field(b.expr_of_op(t["args"][0]), counter)]
        ok = bool(rel) and b.post_dominated_by(0, rel)
        ctx.verdict(ok, "R19.6", cf, "owner-share-released", b.line_at((rel[0], 10 ** 6)) if rel else cf.loc(), "ManuallyDrop::take(&mut self.%s) on every path of Drop" % counter,
                    "SharedObservable's Drop can return without releasing its share of the owner counter (it is wrapped in ManuallyDrop): observable_count stays too high for ever and the state is never closed")


def r19_7(ctx, counter):
    """the fields of an existing handle are never overwritten: replacing the state Arc or the (ManuallyDrop'd) owner counter of a
    live handle changes which family it counts for without releasing its share of the old one."""
    F = ctx.facts
    n = 0
    for f in F.find(crate=EY):
        b = f.built
        if not b:
            continue
        for loc, s_ in b.iter_stmts():
            if s_["k"] != "assign" or not s_["place"]["proj"]:
                continue
            lf = last_field(s_["place"])
            if lf not in (counter, "state"):
                continue
            base_ty = b.locals[s_["place"]["l"]]["ty"]
            if "shared::SharedObservable<" not in base_ty and "shared::WeakObservable<" not in base_ty:
                continue
            n += 1
            ctx.violated("R19.7", f, "handle-field-overwritten:%s" % lf, b.line_at(loc),
                         "`%s` overwrites the `%s` field of an existing handle%s: the handle's share of the old family is never released (observable_count of the old family stays too high) " % (
                             f.path, lf, " (a ManuallyDrop, so not even drop glue releases it)" if lf == counter else ""))
        # in-place replacement through a call: Clone::clone_from(&mut self.field, ..), mem::replace / swap / take on the field
        for blk, t in b.calls(r"Clone>?::clone_from$|^std::mem::(replace|swap|take)$|ManuallyDrop::<.*>::(drop|take)$"):
            if not t["args"]:
                continue
            is_md = bool(re.search(r"ManuallyDrop", t.get("callee") or ""))
            root = root_fn(F, f)
            if is_md and root.raw.get("impl_trait") == "std::ops::Drop":
                continue  # the owner counter is taken exactly once in Drop (R19.6 / R20.7)
            for a_ in t["args"][:2 if "swap" in (t.get("callee") or "") else 1]:
                e = b.expr_of_op(a_)
                x = strip(e)
                if x[0] == "field" and x[2] in (counter, "state") and contains(x[1], lambda y: y[0] == "param" and y[1] == 1):
                    pty = str(b.locals[1]["ty"]) if b.arg_count >= 1 else ""
                    if "shared::SharedObservable<" not in pty and "shared::WeakObservable<" not in pty:
                        continue
                    n += 1
                    ctx.violated("R19.7", root, "handle-field-overwritten:%s" % x[2], b.line_at((blk, 10 ** 6)),
                                 "`%s` replaces the `%s` field of an existing handle through `%s`%s: the handle's share of the old family is never released, so the old observable is never closed by its remaining owners' drops and its counts stay too high" % (
                                     root.path, x[2], (t.get("callee") or "").split("::")[-1], " (a ManuallyDrop: the old Arc is not even dropped)" if x[2] == counter else ""))
    if not n:
        ctx.holds("R19.7", None, "handle-fields-written-only-at-construction", None, "no assignment to `state` / `%s` of an existing SharedObservable or WeakObservable" % counter)



def _op_local(op, whole=False):
    if not isinstance(op, dict) or op.get("k") not in ("move", "copy"):
        return None
    pl = op["place"]
    if whole and pl["proj"]:
        return None
    return pl["l"]


def r19_8(ctx, counter):
    """ManuallyDrop ledger: an owned reference of the owner counter that is wrapped in ManuallyDrop has no drop glue; every such value
    made in a function (clone of the field, ManuallyDrop::new of an upgraded / fresh Arc) must be moved into the counter field of a
    constructed SharedObservable or be released explicitly, else that share is never given back."""
    F = ctx.facts
    a = F.adt(EY, "shared::SharedObservable")
    fty = [fd["ty"] for fd in a["variants"][0]["fields"] if fd["name"] == counter][0]
    if "ManuallyDrop" not in fty:
        ctx.holds("R19.8", None, "owner-share-ledger", None, "the owner counter is a plain field: drop glue releases every temporary share")
        return
    n = 0
    for f in F.find(crate=EY):
        if not f.built or f.kind == "closure" or root_fn(F, f) is not f:
            continue
        if f.raw.get("impl_trait") == "std::ops::Drop":
            continue
        b = inl(F, f, desugar=True, tag="r19.8") or f.built
        starts = [(blk, t) for blk, t in b.calls() if t.get("dest") and not t["dest"]["proj"] and b.locals[t["dest"]["l"]]["ty"] == fty]
        for blk, t in starts:
            n += 1
            S = {t["dest"]["l"]}
            stored = released = escaped = False
            changed = True
            while changed:
                changed = False
                for loc, s_ in b.iter_stmts():
                    if s_["k"] != "assign":
                        continue
                    rv = s_["rv"]
                    ops = [rv.get("op")] if rv["k"] in ("use", "cast") else rv.get("ops", []) if rv["k"] == "agg" else []
                    if not any(_op_local(o) in S for o in ops):
                        continue
                    if rv["k"] == "agg" and rv.get("adt") == "shared::SharedObservable":
                        i = rv["fields"].index(counter)
                        if _op_local(rv["ops"][i]) in S:
                            stored = True
                        continue
                    dl = s_["place"]["l"]
                    if dl == 0:
                        escaped = True
                    if dl not in S:
                        S.add(dl)
                        changed = True
                for blk2, t2 in b.calls():
                    if not any(_op_local(o) in S for o in t2.get("args", [])):
                        continue
                    if re.search(r"ManuallyDrop::<.*>::(drop|take|into_inner)$", t2.get("callee") or ""):
                        released = True
                    else:
                        escaped = True
            root = f
            what = (t.get("callee") or "").split("::")[-1]
            where = b.line_at((blk, 10 ** 6))
            if stored or released:
                ctx.holds("R19.8", root, "owner-share-ledger:%s" % what, where, "the ManuallyDrop'd share made by `%s` is %s" % (what, "moved into the new handle's `%s`" % counter if stored else "released explicitly"))
            elif escaped:
                ctx.undecided("R19.8", root, "owner-share-ledger:%s" % what, where, "the ManuallyDrop'd share made by `%s` leaves `%s` (returned or passed on)" % (what, f.path))
            else:
                ctx.violated("R19.8", root, "owner-share-ledger:%s" % what, where,
                             "`%s` makes an owned share of the owner counter (`%s`, a ManuallyDrop so no drop glue) that is neither stored in a new handle nor released: every call leaks one count - observable_count grows for ever, subscriber_count shrinks, and the observable is never closed" % (f.path, what))
    ctx.floor("R19.8", n, 3)



OWNING = r"(?<!\w)(Arc<|SharedReadLock<|Owned\w*Guard<)"
COUNTED = ("shared::SharedObservable", "subscriber::Subscriber", "subscriber::async_lock::AsyncSubscriberState", "unique::Observable")


def r19_9(ctx):
    """type ledger: a strong reference to the shared state may be owned only by the counted handle types. A guard / helper type
    handed to users that owns one (e.g. an `Owned*Guard` as a Lock impl's guard type) is counted by strong_count while it lives."""
    F = ctx.facts
    n = 0
    # associated types of the Lock trait that are owning types in some impl (`SubscriberState = SharedReadLock<..>`, `Shared = ..`):
    # a field typed `<L as Lock>::SubscriberState<T>` owns whatever the impls say
    owning_assoc = set()
    for im in [x for x in F.impls if x.get("crate") == EY and x.get("trait") == "lock::Lock"]:
        for at in im.get("assoc_types", []):
            if re.search(OWNING, at["ty"]) or re.search(r"AsyncSubscriberState<|readlock(_tokio)?::Shared<", at["ty"]):
                owning_assoc.add(at["name"])
    for a in [x for x in F.adts.values() if x.get("crate") == EY]:
        if a["path"] in COUNTED or a["path"].startswith("state::"):
            continue
        for v in a["variants"]:
            for fd in v["fields"]:
                n += 1
                m = re.search(OWNING, fd["ty"])
                if not m and not fd["ty"].startswith("&"):
                    pm = re.search(r"(?:<\w+ as lock::Lock>|\b[A-Z]\w*)::(\w+)<", fd["ty"])
                    if pm and pm.group(1) in owning_assoc and not pm.group(1).endswith("Guard"):
                        m = pm
                where = "%s:%s" % (a["span"]["file"], a["span"]["line"])
                if m and not fd["ty"].startswith("&"):
                    ctx.violated("R19.9", "type:" + a["path"], "owns-state-reference:%s" % fd["name"], where,
                                 "`%s.%s: %s` owns a strong reference although `%s` is not a counted handle: strong_count / subscriber_count include every live value of this type" % (a["path"], fd["name"], fd["ty"], a["path"]))
                else:
                    ctx.holds("R19.9", "type:" + a["path"], "owns-state-reference:%s" % fd["name"], where, "`%s` owns no state reference" % fd["ty"])
    for im in [x for x in F.impls if x.get("crate") == EY]:
        if im.get("trait") != "lock::Lock":
            continue
        for at in im.get("assoc_types", []):
            if not at["name"].endswith("Guard"):
                continue
            n += 1
            where = "%s:%s" % (im["span"]["file"], im["span"]["line"])
            m = re.search(OWNING, at["ty"])
            if m:
                ctx.violated("R19.9", "impl:" + im["self_ty"], "guard-type-borrows:%s" % at["name"], where,
                             "`%s::%s = %s` is a guard that owns a strong reference to the state: every live read/write guard is counted by strong_count and by subscriber_count" % (im["self_ty"], at["name"], at["ty"]))
            else:
                ctx.holds("R19.9", "impl:" + im["self_ty"], "guard-type-borrows:%s" % at["name"], where, "`%s` borrows the lock" % at["ty"])
    ctx.floor("R19.9", n, 6)



def move_sinks(b, start):
    """where an owned value ends up by moves: list of ("agg", kind, name) | ("call", callee) | ("ret",)."""
    S = {start}
    sinks = []
    changed = True
    while changed:
        changed = False
        for loc, s_ in b.iter_stmts():
            if s_["k"] != "assign":
                continue
            rv = s_["rv"]
            ops = [rv.get("op"), rv.get("x")] + list(rv.get("ops") or [])
            if not any(isinstance(o, dict) and o.get("k") in ("move", "copy") and o["place"]["l"] in S and not o["place"]["proj"] for o in ops):
                continue
            if rv["k"] == "agg" and rv.get("of") != "tuple":
                sk = ("agg", rv.get("of"), rv.get("adt") or rv.get("def"))
                if sk not in sinks:
                    sinks.append(sk)
                    changed = True
                continue
            dl = s_["place"]["l"]
            if dl == 0 and ("ret",) not in sinks:
                sinks.append(("ret",))
            if dl not in S:
                S.add(dl)
                changed = True
        for blk, t in b.calls():
            if any(a.get("k") == "move" and a["place"]["l"] in S and not a["place"]["proj"] for a in t["args"]):
                sk = ("call", t.get("callee") or "?")
                if sk not in sinks:
                    sinks.append(sk)
    return sinks


def r19_11(ctx):
    """the library does not keep handles of its own: a clone of a SharedObservable (or Subscriber) made inside the crate is either the
    value a public function returns as such a handle, or it is a hidden holder - moved into a future / closure it is counted by
    observable_count / strong_count for as long as that future exists, although the user never made a handle."""
    F = ctx.facts
    n = 0
    for f in F.find(crate=EY):
        b = f.built
        if not b:
            continue
        for blk, t in b.calls(r"Clone>?::clone$"):
            if t["dest"]["proj"]:
                continue
            ty = str(b.locals[t["dest"]["l"]]["ty"])
            if not re.match(r"(shared::SharedObservable|subscriber::Subscriber)<", ty):
                continue
            n += 1
            sinks = move_sinks(b, t["dest"]["l"])
            hidden = [x for x in sinks if x[0] == "agg" and x[1] in ("closure", "coroutine", "coroutine_closure")]
            root = root_fn(F, f)
            where = b.line_at((blk, 10 ** 6))
            if hidden:
                ctx.violated("R19.11", root, "no-hidden-handle", where,
                             "`%s` clones a `%s` and moves the clone into the %s it returns: every such future / closure that exists is counted as a handle (observable_count and strong_count are too high while it lives - e.g. while it waits for the lock)" % (
                                 root.path, ty.split("<")[0], hidden[0][1]))
            elif sinks == [("ret",)] or not sinks:
                ctx.holds("R19.11", root, "no-hidden-handle", where, "the clone is the returned handle / a temporary")
            else:
                ctx.undecided("R19.11", root, "no-hidden-handle", where, "the clone flows into %s" % (sinks,))
    if n == 0:
        ctx.holds("R19.11", None, "no-hidden-handle", None, "no function of the crate clones a SharedObservable / Subscriber handle for itself")



def r19_12(ctx):
    """no handle is created before an await inside the async API: a Subscriber / SharedObservable that an `async fn` makes and then
    keeps across a suspension point lives in the pending future - it is counted (strong_count, subscriber_count, observable_count)
    although the caller has not received any handle yet. Handles are created after the last await (on the value read under the lock)."""
    F = ctx.facts
    n = 0
    k = 0
    for f in F.find(crate=EY):
        if f.kind != "coroutine" or not f.built:
            continue
        b = f.built
        yields = [blk for blk in b.reachable() if b.term(blk)["k"] == "yield"]
        if not yields:
            continue
        k += 1
        for blk, t in b.calls():
            if t["dest"]["proj"]:
                continue
            ty = str(b.locals[t["dest"]["l"]]["ty"])
            if not re.match(r"(shared::SharedObservable|subscriber::Subscriber|unique::Observable)<", ty):
                continue
            n += 1   # any call that returns a handle (constructor, helper, clone) - by result type, not by name
            later = [y for y in yields if y in b.reachable_from(t["target"])] if t.get("target") is not None else []
            root = root_fn(F, f)
            ctx.verdict(not later, "R19.12", root, "handle-created-after-the-last-await", b.line_at((blk, 10 ** 6)), "the handle is created after the last suspension point",
                        "`%s` creates a `%s` and then awaits (bb%s): while that future is pending - e.g. waiting for a write guard to be released - it owns the handle, so the counts include a handle nobody has received yet (strong_count / subscriber_count too high at a quiescent moment)" % (
                            root.path, ty.split("<")[0].split("::")[-1], later[0] if later else "-"))
    if not n:
        ctx.holds("R19.12", None, "handle-created-after-the-last-await", None, "no async body of the crate creates a handle")
