"""Linear normal forms of index expressions under path assumptions (a small relational abstract domain).

Used by R09.10: the view index emitted by Head / Skip (always) and by Tail while the view is not full is a known
linear function of the incoming index; the emitted expression is normalised symbolically (no execution, no solver:
sums of symbols with integer coefficients, `saturating_sub` resolved only when its sign is provable from the path
assumptions by a non-negative combination of them) and compared with that function.
"""
import itertools, re
from ..facts import strip, ecall_matches, fmt


class Lin:
    """sum(coef * symbol) + const ; symbols are strings; opaque sub-terms become fresh symbols starting with '?'."""

    def __init__(self, terms=None, const=0):
        self.t = {k: v for k, v in (terms or {}).items() if v != 0}
        self.c = const

    def __add__(self, o):
        t = dict(self.t)
        for k, v in o.t.items():
            t[k] = t.get(k, 0) + v
        return Lin(t, self.c + o.c)

    def __neg__(self):
        return Lin({k: -v for k, v in self.t.items()}, -self.c)

    def __sub__(self, o):
        return self + (-o)

    def scale(self, n):
        return Lin({k: v * n for k, v in self.t.items()}, self.c * n)

    def is_const(self):
        return not self.t

    def opaque(self):
        return any(k.startswith("?") for k in self.t)

    def __eq__(self, o):
        return isinstance(o, Lin) and self.t == o.t and self.c == o.c

    def __hash__(self):
        return hash((tuple(sorted(self.t.items())), self.c))

    def __repr__(self):
        parts = []
        for k, v in sorted(self.t.items()):
            parts.append(("%s" % k) if v == 1 else ("-%s" % k) if v == -1 else "%d*%s" % (v, k))
        if self.c or not parts:
            parts.append(str(self.c))
        return " + ".join(parts).replace("+ -", "- ")


def sym(name):
    return Lin({name: 1})


def provable_nonneg(d, assumptions):
    """d >= 0 follows from the assumptions (each g >= 0) by a 0/1/2 combination:  d = sum(lambda_i * g_i) + c, c >= 0."""
    if d.opaque():
        return False
    gs = list(assumptions)
    for lam in itertools.product((0, 1, 2), repeat=len(gs)):
        r = d
        for l, g in zip(lam, gs):
            if l:
                r = r - g.scale(l)
        if r.is_const() and r.c >= 0:
            return True
    return False


class Normaliser:
    def __init__(self, body, symbols, assumptions):
        """symbols: function expr -> symbol name or None; assumptions: list of Lin (each >= 0)."""
        self.body = body
        self.symbols = symbols
        self.assume = assumptions
        self.n_opaque = 0
        self.notes = []
        self.sat = {}  # opaque symbol -> Lin d, the symbol stands for max(d, 0)

    def fresh(self, why):
        self.n_opaque += 1
        self.notes.append(why)
        return sym("?%d" % self.n_opaque)

    def nf(self, e, depth=0):
        if depth > 30:
            return self.fresh("depth")
        s = self.symbols(e)
        if s is not None:
            return sym(s)
        k = e[0]
        if k in ("ref", "deref", "cast"):
            return self.nf(e[1], depth + 1)
        if k == "const" and e[3] is not None:
            return Lin(const=int(e[3]))
        if k == "field" and e[2] == "0" and e[1][0] == "bin" and re.match(r"(Add|Sub)", e[1][1]):
            return self.nf(e[1], depth + 1)
        if k == "bin" and re.match(r"Add", e[1]):
            return self.nf(e[2], depth + 1) + self.nf(e[3], depth + 1)
        if k == "bin" and re.match(r"Sub", e[1]):
            return self.nf(e[2], depth + 1) - self.nf(e[3], depth + 1)
        if k == "call" and isinstance(e[1], str):
            if re.search(r"::saturating_sub$", e[1]) and len(e[3]) == 2:
                d = self.nf(e[3][0], depth + 1) - self.nf(e[3][1], depth + 1)
                if provable_nonneg(-d, self.assume):
                    return Lin()
                if provable_nonneg(d, self.assume):
                    return d
                r = self.fresh("saturating_sub with undecided sign")
                self.sat[next(iter(r.t))] = d
                return r
            if re.search(r"std::cmp::min$", e[1]) and len(e[3]) == 2:
                a, b = self.nf(e[3][0], depth + 1), self.nf(e[3][1], depth + 1)
                if provable_nonneg(b - a, self.assume):
                    return a
                if provable_nonneg(a - b, self.assume):
                    return b
                return self.fresh("min")
            if re.search(r"Clone>?::clone$|Deref>?::deref$", e[1]) and e[3]:
                return self.nf(e[3][0], depth + 1)
        if k == "phi":
            forms = [self.nf(x, depth + 1) for x in e[1]]
            if all(f == forms[0] for f in forms) and not forms[0].opaque():
                return forms[0]
            return self.fresh("phi")
        return self.fresh(fmt(e, 2))

    def as_sat(self, r):
        """if r is exactly one saturating term max(d, 0): return d."""
        if len(r.t) == 1 and r.c == 0:
            k, v = next(iter(r.t.items()))
            if v == 1 and k in self.sat:
                return self.sat[k]
        return None
