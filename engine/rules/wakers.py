"""Waker typestate for poll functions (C14/R14.1-R14.3, reused by C09-C11, C16)."""
import os
import re
from ..facts import strip, ecall_matches, contains, find_all, fmt, mentions_field
from .. import conds
from .common import *

POLL_PAT = (r"(^|[:<\s])((futures_core::)?Stream|(std|core)::future::Future|futures_core::Future)(>| as .*>)?::(poll_next|poll)$"
            r"|ReusableBoxRecvFuture::<.*>::poll$|ReusableBoxFuture::<.*>::poll$|ObservableState::<.*>::poll_update$")
REARM_PAT = r"ReusableBoxRecvFuture::<.*>::set$|ReusableBoxFuture::<.*>::set$|ReusableBoxFuture::<.*>::try_set$"
GATE_TY = r"^std::task::Poll<[\w:]*(ReadGuard|WriteGuard|MutexGuard)<"  # a future that only grants access (a lock acquisition), by its output type


def is_poll_call(t):
    for k in ("callee", "resolved"):
        v = t.get(k)
        if v and re.search(POLL_PAT, v):
            return True
    full = (t.get("extra") or {}).get("full")
    return bool(full and re.search(POLL_PAT, full))


def input_name(body, t):
    """which field of self the poll call polls."""
    e = body.expr_of_op(t["args"][0])
    names = []

    def f(x):
        if x[0] == "field" and isinstance(x[2], str) and not x[2].isdigit():
            names.append(x[2])
        return False
    from ..facts import walk
    walk(e, f)
    if re.search(r"ObservableState::<.*>::poll_update$", t.get("callee") or ""):
        return "<waker list>"
    if not is_poll_call(t) and not re.search(REARM_PAT, t.get("callee") or "") and (t.get("callee") or "").split("::")[-1] not in ("set", "try_set"):
        return "helper:" + (t.get("callee") or "?").split("::")[-1]
    # innermost field names first in walk order: take the outermost meaningful one
    for n in names:
        if n not in ("0", "pointer", "__pointer"):
            return n
    return "?"


def cx_param(body):
    for i in range(1, body.arg_count + 1):
        if "task::Context<" in body.locals[i]["ty"]:
            return i
    return None


def poll_body(F, f):
    """the body the typestate runs on: no helper is inlined, but combinator calls with closures (`map_or(Poll::Pending, ..)`,
    `.map(|ready| ..)`) are rewritten into the branches they stand for, so a Pending hidden in an argument is seen."""
    if not f.built:
        return None
    if os.environ.get("VERIF_NO_POLL_DESUGAR"):
        return f.built
    from ..inline import inlined
    try:
        return inlined(F, f, keep=lambda c: True, tag="wakers-desugar", desugar=True) or f.built
    except Exception:
        return f.built


def poll_fns(F, crates):
    """functions that poll an input themselves (not mere delegating wrappers)."""
    out = []
    for f in F.fns.values():
        if f.crate not in crates:
            continue
        b = poll_body(F, f)
        if not b or cx_param(b) is None:
            continue
        sites = [(blk, t) for blk, t in b.calls() if is_poll_call(t)]
        sites += [(blk, t) for blk, t, c in local_poll_helper_calls(F, f)]
        if sites:
            out.append((f, sites))
        elif (f.raw.get("sig") or {}).get("output", "").startswith("std::task::Poll<") and f.kind != "closure" and not any(f is l_ for l_ in find_poll_leaf(F)) and \
                any(s_["k"] == "assign" and s_["rv"]["k"] == "agg" and s_["rv"].get("adt") == "std::task::Poll" and s_["rv"].get("variant") == "Pending" for _, s_ in b.iter_stmts()):
            # a poll function (other than eyeball's audited poll leaf) that answers Pending without polling anything: whatever it registers the waker with is not an
            # input this analysis knows; the typestate reports the Pending as not caused by an input
            out.append((f, []))
    return out


def is_delegation(F, f, t):
    """kept for callers: a call to a local poll function is NOT excluded any more - it is an input whose own
    Pending discipline is checked in the callee (interprocedural summary)."""
    return False


def local_poll_helper_calls(F, f):
    """calls of local functions that take a Context and return Poll<..> (private poll helpers, projections)."""
    b = poll_body(F, f)
    out = []
    for blk, t in b.calls():
        c = F.local_callee(f, t)
        if c is None or c is f or not c.built:
            continue
        if c.raw.get("sig") and c.raw["sig"]["output"].startswith("std::task::Poll<") and cx_param(c.built) is not None and not is_poll_call(t):
            out.append((blk, t, c))
    return out


def check_poll_fn(ctx, rule, f, sites):
    b = poll_body(ctx.facts, f)
    cx = cx_param(b)
    site_by_loc = {}
    inputs = []
    for blk, t in sites:
        name = input_name(b, t)
        if name not in inputs:
            inputs.append(name)
        site_by_loc[(blk, len(b.blocks[blk]["stmts"]))] = name
        ctx.call_sites += 1
        # R14.2 foreign context
        cx_args = [a for a in t["args"] if a["k"] in ("move", "copy") and "task::Context<" in b.locals[a["place"]["l"]]["ty"]] or [t["args"][-1]]
        cxe = b.expr_of_op(cx_args[0])
        own = contains(cxe, lambda x: x[0] == "param" and x[1] == cx) or contains(cxe, lambda x: x[0] == "call" and ecall_matches(x, r"get_context$"))
        if own and strip(cxe)[0] != "param":
            # a context built here (`Context::from_waker(..)`): it is the caller's only if its waker is the caller's waker as of THIS
            # poll - not one remembered in a field of self from an earlier poll (the task may have moved on to another waker)
            cached = contains(cxe, lambda x: x[0] == "field" and contains(x[1], lambda y: y[0] == "param" and y[1] == 1) and not contains(x, lambda y: y[0] == "param" and y[1] == cx))
            if cached and contains(cxe, lambda x: x[0] == "call" and ecall_matches(x, r"Context::<?.*>?::from_waker$|::from_waker$")):
                own = False
        if not own:
            ctx.violated(rule.replace(".1", ".2"), f, "foreign-context:" + name, b.line_at((blk, 10 ** 6)),
                         "input `%s` is polled with `%s`, not with the caller's context: the caller's waker is not registered with that input" % (name, fmt(cxe, 4)))
    idx = {n: i for i, n in enumerate(inputs)}
    gate_inputs = set()
    for blk, t in sites:
        if is_poll_call(t) and not t["dest"]["proj"] and re.search(GATE_TY, str(b.locals[t["dest"]["l"]]["ty"])):
            gate_inputs.add(input_name(b, t))
    rearming_helpers = set()
    for blk, t in sites:
        if not is_poll_call(t):
            c = ctx.facts.local_callee(f, t)
            if c is not None and c.built and c.built.calls(REARM_PAT):
                rearming_helpers.add(input_name(b, t))
    site_blocks = {loc[0]: n for loc, n in site_by_loc.items()}
    rearm_blocks = {}
    for blk, t in b.calls(REARM_PAT):
        n = input_name(b, t)
        if n in idx:
            rearm_blocks[blk] = n
    # which blocks assign _0 and how
    ret_kind = {}
    for loc, kind, payload in blocks_assigning_ret(b):
        if loc[0] not in b.reachable():
            continue
        if kind == "assign":
            rv = payload
            if rv["k"] == "agg" and rv.get("adt") == "std::task::Poll" and rv["variant"] == "Pending":
                ret_kind[loc[0]] = ("PL", loc)
            else:
                e = b.expr_of_rv(rv, 10, ())
                x = strip(e, through_calls=False)
                if x[0] == "agg" and x[1] == "adt" and x[2] == "std::task::Poll" and x[3] == "Pending":
                    ret_kind[loc[0]] = ("PL", loc)   # a Pending built earlier (e.g. the default of `map_or`) and moved into the return place
                    continue
                fw = forwarded_site(e, site_by_loc)
                ret_kind[loc[0]] = ("FW", fw, loc) if fw else ("O", loc)
        else:
            if loc in site_by_loc:
                ret_kind[loc[0]] = ("FW", site_by_loc[loc], loc)
            else:
                e = b.expr_of_call(payload, 10, ())
                fw = forwarded_site(e, site_by_loc)
                ret_kind[loc[0]] = ("FW", fw, loc) if fw else ("O", loc)

    # a Pending that is first bound to a local (`let poll = match .. { .. => Poll::Pending, .. }; self.inner.set(rx); poll`): remembered
    # on the path that builds it and turned into a Pending return where that local is moved into the return place
    pend_local = {}
    for loc_, s_ in b.iter_stmts():
        if s_["k"] == "assign" and s_["place"]["l"] != 0 and not s_["place"]["proj"] and s_["rv"]["k"] == "agg" and s_["rv"].get("adt") == "std::task::Poll" and s_["rv"].get("variant") == "Pending":
            pend_local[loc_[0]] = loc_
    o_takes = {}
    for blk_, rk_ in ret_kind.items():
        if rk_[0] == "O":
            for loc2, kind2, payload2 in blocks_assigning_ret(b):
                if loc2[0] == blk_ and kind2 == "assign":
                    e2 = b.expr_of_rv(payload2, 10, ())
                    o_takes[blk_] = {a_[6] for a_ in find_all(e2, lambda y: y[0] == "agg" and y[1] == "adt" and y[2] == "std::task::Poll" and y[3] == "Pending")}
    # termination memory: a bool field of self that is set to `true` under the None edge of an input's poll ("this stream has ended")
    # and tested before that input is polled. On an edge where such a field is known to be true the input counts as Ended.
    ended_mem = {}
    cand, bad = {}, set()
    for loc_, s_ in b.iter_stmts():
        if s_["k"] != "assign" or not s_["place"]["proj"]:
            continue
        fld = last_field(s_["place"])
        if not fld:
            continue
        rv_ = s_["rv"]
        if rv_["k"] == "use" and rv_["op"]["k"] == "const" and "bool" in str(rv_["op"].get("ty")):
            if rv_["op"].get("int") == 1:
                ins_ = set()
                for fct in conds.bare(conds.dominating_facts(b, loc_[0])):
                    if fct[0] == "variant" and fct[2] == frozenset(["None"]):
                        for c_ in find_all(fct[1], lambda y: y[0] == "call" and y[4] in site_by_loc):
                            ins_.add(site_by_loc[c_[4]])
                if len(ins_) == 1:
                    cand.setdefault(fld, set()).update(ins_)
                else:
                    bad.add(fld)
        else:
            bad.add(fld)   # written with something that is not a constant: not a pure termination memory
    for fld, ins_ in cand.items():
        if fld in bad or len(ins_) != 1:
            continue
        if _written_elsewhere(ctx.facts, f, fld):
            continue
        ended_mem[fld] = ins_
    if os.environ.get("VERIF_DEBUG_TS"): print("ended_mem", f.path, ended_mem, inputs)
    init = (tuple("U" for _ in inputs), None)

    def transfer(blk, st):
        tags, ret = st
        tags = list(tags)
        if blk in pend_local and blk not in ret_kind:
            ret = ("PLX", pend_local[blk])
        if blk in ret_kind:
            rk_ = ret_kind[blk]
            if rk_[0] == "O" and ret is not None and ret[0] == "PLX" and ret[1] in o_takes.get(blk, ()):
                ret = ("PL", ret[1])
            else:
                ret = rk_
        if blk in rearm_blocks:
            i_ = idx[rearm_blocks[blk]]
            # replacing a future that is still Pending discards the waker registered with it
            tags[i_] = "D" if tags[i_] in ("P", "Q") else "A"
        if blk in site_blocks:
            tags[idx[site_blocks[blk]]] = "Q"
        return [(tuple(tags), ret)]

    def edge(bk, nx, st):
        tags, ret = st
        fs = conds.edge_facts(b, bk, nx)
        if not fs:
            return st
        tags = list(tags)
        for fct in fs:
            if fct[0] == "truth" and ended_mem:
                # `if self.x_done` / `while !self.x_done`: on the edge where the memory field is true the input has ended earlier
                val = fct[2]
                e_ = fct[1]
                while e_[0] == "un" and e_[1] == "Not":
                    e_ = e_[2]
                    val = not val
                x_ = strip(e_)
                if x_[0] == "field" and x_[2] in ended_mem and val is True:
                    for nm_ in ended_mem[x_[2]]:
                        # the field is true only after a None of that input (every write of `true` sits under its None edge, in
                        # this function and nowhere else): whatever the walk assumed before, the input has ended
                        tags[idx[nm_]] = "E"
                continue
            if fct[0] != "variant":
                continue
            x = strip(fct[1], through_calls=False)
            if x[0] == "call" and x[4] in site_by_loc:
                i = idx[site_by_loc[x[4]]]
                vs = fct[2]
                if vs and vs <= frozenset(["Pending"]):
                    tags[i] = "P"
                elif vs and vs <= frozenset(["Ready"]):
                    if tags[i] == "Q":
                        tags[i] = "A" if site_by_loc[x[4]] in rearming_helpers else "R"
                elif vs and vs <= frozenset(["None"]):
                    tags[i] = "E"
                elif vs and vs <= frozenset(["Some", "Ok", "Err"]):
                    tags[i] = "R"
        return (tuple(tags), ret)

    ins, outs = forward_states(b, init, transfer, edge_filter=edge)
    # gate dominance: inputs whose every poll site is only reachable after another input is Ready
    def gated_by(j):
        gs = set()
        for g in inputs:
            if g == j:
                continue
            ok = True
            for loc, n in site_by_loc.items():
                if n != j:
                    continue
                # every path to this site passes through a poll site of g
                gsites = [l[0] for l, nn in site_by_loc.items() if nn == g]
                if not b.must_pass(0, loc[0], gsites) or loc[0] in gsites:
                    ok = False
            if ok:
                gs.add(g)
        return gs
    gates = {j: gated_by(j) for j in inputs}
    n_pending = 0
    reported = set()
    all_ok = True
    for rb in b.return_blocks():
        for tags, ret in outs.get(rb, ()):
            if ret is None or ret[0] in ("O", "PLX"):
                continue
            tags = list(tags)
            if ret[0] == "FW":
                # the returned value is the poll result itself: if it is Pending, that input is pending
                if tags[idx[ret[1]]] != "D":
                    tags[idx[ret[1]]] = "P"
                loc = ret[2]
            else:
                loc = ret[1]
            n_pending += 1
            where = b.line_at(loc)
            desc = ", ".join("%s=%s" % (n, tags[idx[n]]) for n in inputs)
            # (i) caused by an input polled in this invocation
            if not any(t in ("P", "D") for t in tags):
                key = ("thin-air", loc)
                if key not in reported:
                    reported.add(key)
                    all_ok = False
                    ctx.violated(rule, f, "pending-not-caused-by-an-input", where,
                                 "`%s` returns Poll::Pending on a path where no input was left pending by this invocation (%s): nothing will wake the caller" % (f.path, desc))
                continue
            for n in inputs:
                t = tags[idx[n]]
                if t in ("P", "E"):
                    continue
                if t in ("U", "A") and any(tags[idx[g]] == "P" for g in gates[n]):
                    continue  # cannot be polled before its gate is ready; the gate's waker fires first
                if t == "A" and (n in gate_inputs or n in rearming_helpers):
                    continue  # re-armed gate: polled at the next invocation, which the event source's waker triggers
                key = (n, t, loc)
                if key in reported:
                    continue
                reported.add(key)
                all_ok = False
                why = {"R": "last answered Ready (an item) and was not polled again", "Q": "was polled but its result was not examined",
                       "U": "was not polled in this invocation", "A": "was re-armed but not polled",
                       "D": "was Pending and was then replaced (re-armed), which drops the future holding the registered waker"}[t]
                ctx.violated(rule, f, "pending-with-unsettled-input:" + n, where,
                             "`%s` returns Poll::Pending while its input `%s` %s (%s): no waker is registered with `%s`, so a later item / end of that input never wakes the task (the 0.5.0 limit-stream bug class)" % (
                                 f.path, n, why, desc, n))
    if f.kind != "coroutine":
        check_owned_inputs(ctx, rule, f, sites)
    if all_ok:
        ctx.holds(rule, f, "pending=>all-inputs-settled", f.loc(),
                  "inputs %s: at each of the %d (Pending-returning path, state) pairs every input polled with the caller's cx is Pending/Ended (or gated)" % (inputs, n_pending))
    return inputs


def _written_elsewhere(F, f, fld):
    """is the bool field `fld` given a value other than `false` outside `f` (another method's assignment, a constructor literal)?"""
    def owner_mod(bb, place=None, adt=None):
        # module of the struct that owns the field: structs of other modules with a field of the same name are other structs
        if adt is None:
            ty = str(bb.locals[place["l"]]["ty"])
            for el in place["proj"]:
                if isinstance(el, dict) and "f" in el:
                    if el["name"] == fld:
                        break
                    ty = str(el.get("ty") or ty)
            adt = re.sub(r"^(&('\w+ )?(mut )?|std::pin::Pin<)+", "", ty)
        adt = adt.split("<")[0]
        return adt.rsplit("::", 1)[0] if "::" in adt else ""
    mine = None
    for loc_, s_ in f.built.iter_stmts():
        if s_["k"] == "assign" and s_["place"]["proj"] and last_field(s_["place"]) == fld:
            mine = owner_mod(f.built, place=s_["place"])
            break
    for g in F.find(crate=f.crate):
        if g is f or not g.built or g.path == f.path:
            continue
        bb = g.built
        for loc_, s_ in bb.iter_stmts():
            if s_["k"] != "assign":
                continue
            rv_ = s_["rv"]
            if s_["place"]["proj"] and last_field(s_["place"]) == fld and owner_mod(bb, place=s_["place"]) == mine:
                if not (rv_["k"] == "use" and rv_["op"]["k"] == "const" and rv_["op"].get("int") == 0):
                    return True
            if rv_["k"] == "agg" and rv_.get("of") == "adt" and owner_mod(bb, adt=rv_["adt"]) == mine:
                for nm_, o_ in zip(rv_.get("fields") or [], rv_["ops"]):
                    if nm_ != fld:
                        continue
                    if o_["k"] == "const":
                        if o_.get("int") != 0:
                            return True
                    elif not o_["place"]["proj"] and str(bb.locals[o_["place"]["l"]]["ty"]) == "bool":
                        return True    # a computed initial value
                    elif o_["place"]["proj"] and not str(bb.locals[o_["place"]["l"]]["ty"]).startswith("&"):
                        pass           # `&mut self.field` of a projection struct and the like: a reference, not a value
    return False


def polled_owner(b, op, depth=0):
    """the local that OWNS the object a poll call polls, or None when the object is borrowed from elsewhere (a field of self, a
    Pin<&mut S> kept in a projection struct ...). Follows `&mut place`, moves and the Pin / as_mut / deref_mut wrappers."""
    if depth > 8 or op.get("k") not in ("move", "copy"):
        return None
    pl = op["place"]
    l = pl["l"]
    if pl["proj"]:
        return None
    whole, _ = b.defs
    ds = whole.get(l, [])
    if len(ds) != 1 or 0 < l <= b.arg_count:
        return None
    loc, kind, payload = ds[0]
    if kind == "assign":
        rv = payload
        if rv["k"] in ("ref", "raw"):
            p2 = rv["place"]
            if "deref" in p2["proj"]:
                return None
            ty = str(b.locals[p2["l"]]["ty"])
            for el in p2["proj"]:
                if isinstance(el, dict) and "ty" in el:
                    ty = str(el["ty"])
            if ty.startswith("&") or ty.startswith("std::pin::Pin<&") or 0 < p2["l"] <= b.arg_count:
                return None
            return p2["l"]
        if rv["k"] in ("use", "cast"):
            return polled_owner(b, rv.get("op") or rv.get("x"), depth + 1)
        return None
    t = payload
    if re.search(r"Pin::<.*>::(new|new_unchecked|as_mut|get_mut|get_unchecked_mut|into_ref)$|DerefMut>?::deref_mut$|Deref>?::deref$", t.get("callee") or "") and t["args"]:
        return polled_owner(b, t["args"][0], depth + 1)
    return None


def check_owned_inputs(ctx, rule, f, sites):
    """a future that lives in a local of the poll function and is left Pending must be stored back before the function returns
    Pending: dropping it at the return drops the registration of the caller's waker with it."""
    b = poll_body(ctx.facts, f)
    pend = [loc for loc, kind, payload in blocks_assigning_ret(b) if kind == "assign" and payload["k"] == "agg" and payload.get("adt") == "std::task::Poll" and payload["variant"] == "Pending"]
    for blk, t in sites:
        if not is_poll_call(t) or not t["args"]:
            continue
        r = polled_owner(b, t["args"][0])
        if r is None:
            continue
        movers = set()
        for loc, s_ in b.iter_stmts():
            if s_["k"] != "assign":
                continue
            rv = s_["rv"]
            ops = [rv.get("op"), rv.get("x")] + list(rv.get("ops") or [])
            if any(isinstance(o, dict) and o.get("k") == "move" and o["place"]["l"] == r and not o["place"]["proj"] for o in ops):
                movers.add(loc[0])
        for blk2, t2 in b.calls():
            if any(a.get("k") == "move" and a["place"]["l"] == r and not a["place"]["proj"] for a in t2["args"]):
                movers.add(blk2)
        name = b.locals[r].get("name") or ("_%d" % r)
        reach = b.reachable_from(blk, avoid_blocks=movers - {blk})
        bad = [loc for loc in pend if loc[0] in reach]
        # .. or hands the poll's own result back (`recv.poll(cx)` as the tail expression): Pending whenever the future is pending
        site_loc = (blk, len(b.blocks[blk]["stmts"]))
        for loc, kind, payload in blocks_assigning_ret(b):
            if loc[0] not in reach and loc != site_loc and loc[0] != blk:
                continue
            e_ = b.expr_of_rv(payload, 10, ()) if kind == "assign" else (b.expr_of_call(payload, 10, ()) if kind == "call" else None)
            if kind == "call" and loc == site_loc:
                bad.append(loc)
            elif e_ is not None and forwarded_site(e_, {site_loc: "x"}):
                bad.append(loc)
        where = b.line_at((blk, 10 ** 6))
        if bad:
            ctx.violated(rule, f, "pending-with-dropped-input:%s" % name, b.line_at(bad[0]),
                         "`%s` polls the future in its local `%s` (created / taken out of self in this call) and can return Poll::Pending without putting it back: the future is dropped at the return, and with it the registration of the caller's waker - nothing wakes the task" % (f.path, name))
        else:
            ctx.holds(rule, f, "pending-with-dropped-input:%s" % name, where, "the locally owned future `%s` is stored back before any Pending return" % name)


def forwarded_site(e, site_by_loc):
    """the poll site whose result is returned unchanged (possibly through Poll::map / Option::map)."""
    x = e
    for _ in range(6):
        x = strip(x, through_calls=False)
        if x[0] == "call" and x[4] in site_by_loc:
            return site_by_loc[x[4]]
        if x[0] == "call" and isinstance(x[1], str) and re.search(r"Poll::<.*>::map$|Poll::<.*>::map_ok$", x[1]) and x[3]:
            x = x[3][0]
            continue
        break
    return None


def check_rearm(ctx, rule, f, sites):
    """R14.3: after a Ready result of a re-armable future, every path to return re-arms it (set) or parks the receiver in a state that does."""
    b = poll_body(ctx.facts, f)
    n = 0
    for blk, t in sites:
        if not re.search(r"ReusableBox(Recv)?Future::<.*>::poll$", t.get("callee") or ""):
            continue
        name = input_name(b, t)
        n += 1
        # Ready edge target
        sw = t["target"]
        info = None
        for _ in range(3):
            info = conds.switch_info(b, sw)
            if info:
                break
            sw = b.succ[sw][0] if len(b.succ[sw]) == 1 else None
            if sw is None:
                break
        if not info:
            ctx.undecided(rule, f, "re-arm:" + name, b.line_at((blk, 10 ** 6)), "no switch on the poll result")
            continue
        ready_t = [tt for tt, fs in info["edges"].items() if any(x[0] == "variant" and x[2] == frozenset(["Ready"]) for x in fs)]
        if not ready_t:
            ctx.undecided(rule, f, "re-arm:" + name, b.line_at((blk, 10 ** 6)), "Ready edge not found")
            continue
        rearm = [rblk for rblk, rt in b.calls(REARM_PAT) if input_name(b, rt) == name]
        # alternative: the receiver is parked in a state value (YieldBatch { rx })
        parks = [loc[0] for loc, s in b.iter_stmts() if s["k"] == "assign" and s["rv"]["k"] == "agg" and s["rv"].get("variant") == "YieldBatch"]
        ok = b.post_dominated_by(ready_t[0], rearm + parks)
        ctx.verdict(ok, rule, f, "re-arm:" + name, b.line_at((blk, 10 ** 6)),
                    "every path from the Ready edge (bb%d) to return re-arms `%s` (bb%s) or parks the receiver in YieldBatch (bb%s)" % (ready_t[0], name, rearm, parks),
                    "after `%s` completed, a path returns without re-arming it: the next poll would poll a finished future (panic) / never receive again" % name)
    return n



SAFE_BEFORE_REARM = (r"Clone>?::clone$|::lock_owned$|::read_owned$|Deref(Mut)?>?::deref(_mut)?$|Pin::<.*>::(new|as_mut|get_mut|new_unchecked|get_unchecked_mut)$|"
                     r"ReusableBox(Recv)?Future::<.*>::(set|try_set)$|ops::Try>?::branch$|FromResidual.*::from_residual$|get_context$|IntoFuture>?::into_future$")


def check_rearm_immediate(ctx, rule, f, sites):
    """the async subscriber owns its second state reference through the prepared lock future; once that future has completed the
    reference lives in the guard it returned. Re-arming must therefore come before anything that can run foreign code (the value's
    `Clone`, the waker's `clone`, a caller's closure): a panic there unwinds with the guard dropped and the future not re-armed - the
    subscriber then holds one reference instead of two for the rest of its life, and its next poll polls a finished future."""
    b = poll_body(ctx.facts, f)
    n = 0
    for blk, t in sites:
        if not re.search(r"ReusableBoxFuture::<.*>::poll$", t.get("callee") or ""):
            continue
        name = input_name(b, t)
        rearm = [rblk for rblk, rt in b.calls(REARM_PAT) if input_name(b, rt) == name]
        if not rearm:
            continue
        n += 1
        between = b.reachable_from(t["target"], avoid_blocks=rearm) if t.get("target") is not None else set()
        bad = []
        for x in sorted(between):
            tt = b.term(x)
            if tt["k"] == "call" and not re.search(SAFE_BEFORE_REARM, tt.get("callee") or "") and any(r_ in b.reachable_from(x) for r_ in rearm):
                # only calls clone of the handle itself are harmless; a Clone::clone of anything else was excluded by type below
                bad.append((x, tt))
        for x in sorted(between):
            tt = b.term(x)
            if tt["k"] == "call" and re.search(r"Clone>?::clone$", tt.get("callee") or "") and any(r_ in b.reachable_from(x) for r_ in rearm):
                ty = str(b.locals[tt["dest"]["l"]]["ty"]) if not tt["dest"]["proj"] else ""
                if not re.search(r"SharedReadLock<|Arc<", ty):
                    bad.append((x, tt))
        where = b.line_at((blk, 10 ** 6))
        if bad:
            x, tt = bad[0]
            ctx.violated(rule, f, "re-arm-before-foreign-code:" + name, b.line_at((x, 10 ** 6)),
                         "`%s` calls `%s` after `%s` completed and before it is re-armed: if that call panics (a panicking `Clone` of the value, a waker's clone, a caller's closure), the subscriber is left with a finished lock future - it owns one state reference instead of two, so strong_count / subscriber_count are off by one for every such subscriber, and its next poll panics" % (
                             f.path, (tt.get("callee") or "?").split("::")[-1], name))
        else:
            ctx.holds(rule, f, "re-arm-before-foreign-code:" + name, where, "`%s` is re-armed right after it completed" % name)
    return n


def check_flag_then_pending(ctx, rule, f):
    """a poll function that answers Ready on the strength of a flag of its own alone (`if self.x_ended && .. { return Ready(None) }`,
    no input polled on that path) must not set that flag and then answer Pending in the same invocation: the next poll would be
    Ready although nothing wakes the task in between."""
    b = poll_body(ctx.facts, f)
    if b is None:
        return 0
    sites = {blk for blk, t in b.calls() if is_poll_call(t)}
    sets = {}
    for loc, s_ in b.iter_stmts():
        if s_["k"] == "assign" and s_["place"]["proj"] and s_["rv"]["k"] == "use" and s_["rv"]["op"]["k"] == "const" and s_["rv"]["op"].get("int") == 1 and "bool" in str(s_["rv"]["op"].get("ty")):
            fld = last_field(s_["place"])
            if fld:
                sets.setdefault(fld, []).append(loc)
    if not sets:
        return 0
    pend, ready_on = [], {}
    for loc, kind, payload in blocks_assigning_ret(b):
        if kind != "assign":
            if kind == "call" and loc[0] in sites:
                pend.append(loc)
            continue
        rv = payload
        if rv["k"] == "agg" and rv.get("adt") == "std::task::Poll":
            if rv.get("variant") == "Pending":
                pend.append(loc)
            elif rv.get("variant") == "Ready":
                facts = conds.bare(conds.dominating_facts(b, loc[0]))
                polled_before = any(b.dominates(sb, loc[0]) for sb in sites)
                for fld in sets:
                    if not polled_before and any(fc[0] == "truth" and fc[2] is True and mentions_field(fc[1], fld) for fc in facts):
                        ready_on.setdefault(fld, []).append(loc)
        else:
            e = b.expr_of_rv(rv, 10, ())
            if forwarded_site(e, {(sb, len(b.blocks[sb]["stmts"])): "x" for sb in sites}):
                pend.append(loc)
    n = 0
    for fld, rlocs in sorted(ready_on.items()):
        # only the tests that guard such a Ready answer count as "re-examined" (a `while !flag` loop condition that merely leaves the loop does not)
        tests = {blk for blk in range(b.n) if b.term(blk)["k"] == "switch" and mentions_field(b.expr_of_op(b.term(blk)["on"]), fld) and any(b.dominates(blk, rl[0]) for rl in rlocs)}
        for sloc in sets[fld]:
            n += 1
            reach = b.reachable_from(sloc[0], avoid_blocks=sorted(tests - {sloc[0]}))
            bad = [pl for pl in pend if pl[0] in reach]
            ctx.verdict(not bad, rule, f, "flag-set-then-pending:%s" % fld, b.line_at(bad[0] if bad else sloc), "after `%s` is set the function re-examines it before it can answer Pending" % fld,
                        "`%s` sets `%s` and can then answer Pending in the same invocation, while a later invocation answers Ready on the strength of that flag alone (without polling anything): "
                        "the stream has become ready but no waker will ever announce it - the consumer is only told if it happens to poll again" % (f.path, fld))
    return n
