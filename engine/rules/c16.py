"""C16 — the async-lock flavour obeys the same observable semantics as the sync flavour."""
import re
from ..facts import strip, ecall_matches, contains, find_all, fmt, mentions_field, mentions_call, is_param_named
from .. import conds
from .common import *
from .c01 import logical_bodies, SETTERS
from . import c01, c02, c03, c04, wakers

NEEDS_ASYNC = True

CRATES = (EY,)

META = {
    "explanation": (
        "Needs a configuration with the async-lock feature (the pinned test command never builds it; the driver does). R16.1 sibling agreement over an "
        "explicit pair table (Observable, SharedObservable, Subscriber: async method <-> sync twin): the effect skeletons - which ObservableState method "
        "is called with which provenance class of every argument, which sibling method of the same handle is called, what is written to "
        "observed_version, what the subscriber constructor receives - extracted from the async method's coroutine body and from the sync method are "
        "equal (one enumerated composition: async `next` = next_ref + clone). Since the sync side is decided by C01-C04, agreement carries those clauses "
        "over; in addition the C01, C02, C03 and C04 rule sets themselves are evaluated on the async configuration. R16.2 both async poll paths end in "
        "the same poll leaf with &mut self.observed_version and the caller's context; R16.3 waker typestate and re-arm pairing of the lock future "
        "(a completed lock future is re-armed on every path; the leaf is never polled on a path that leaves the lock future unpolled and un-re-armed). "
        "tokio's RwLock fairness and wake-on-release are trusted."),
    "trusted_base": ["tokio::sync::RwLock wakes queued waiters on release; readlock_tokio::SharedReadLock::lock_owned", "rustc coroutine lowering (MIR of async fn bodies)", "rustc MIR construction"],
    "assumptions": [],
    "not_decided": "tokio's lock fairness / wake-on-release (contract)",
}
META["explanation"] += ' R16.4 every Ready(Some(..)) the async poll paths build is dominated by the call of the poll leaf (so its closed test and version bookkeeping run first). R16.5 an effect (state method, sibling method, wait for an update) that the sync twin performs on every completing path is performed on every completing path of the async method as well (cut check on the coroutine body; a closure that performs the effect counts where it is constructed).'
META["explanation"] += ' Shared with C19: R19.10 (re-arm before foreign code).'

POLLISH = ("poll_next_ref", "poll_update", "poll_next_nopin")


def arg_class(body, op):
    e = body.expr_of_op(op)
    x = strip(e, through_calls=False)
    if x[0] == "param":
        return "param:%s" % x[2]
    if x[0] == "field" and is_param_named(x, x[2]):
        return "param:%s" % x[2]
    if x[0] == "const":
        return "const:%s" % x[3]
    if x[0] == "call" and ecall_matches(x, r"Default>?::default$"):
        return "default"
    if x[0] == "call" and ecall_matches(x, r"ObservableState::<.*>::version$"):
        return "version()"
    if x[0] == "call" and ecall_matches(x, r"ObservableState::<.*>::new$"):
        return "state-new"
    if x[0] == "field" and x[2] == "observed_version":
        return "self.observed_version"
    if mentions_call(e, r"ObservableState::<.*>::version$"):
        return "version()"
    return "other"


def skeleton(F, fn, _depth=0):
    sfns = state_fns(F)
    ev = []
    for lb in logical_bodies(F, fn):
        b = inl(F, lb)
        if not b:
            continue
        order = sorted(b.reachable())
        for blk in order:
            t = b.term(blk)
            if t["k"] == "call":
                c = F.local_callee(lb, t)
                if c is not None and c.kind == "coroutine" and root_fn(F, c) is not root_fn(F, lb) and root_fn(F, c).vis not in ("pub", "crate"):
                    c = root_fn(F, c)   # awaiting a private local async fn: `Future::poll` resolves to its coroutine body
                same_ty = c is not None and (c.raw.get("self_ty") or "").split("<")[0] == (fn.raw.get("self_ty") or "").split("<")[0]
                if c is not None and c not in sfns and same_ty and c is not fn and c.kind == "assoc" and not c.raw.get("impl_trait") \
                        and c.vis not in ("pub", "crate") and _depth < 3 and c.name not in ("from_inner", "new", "new_async"):
                    # a private helper of the same type (possibly async: a coroutine of its own): its events are the caller's
                    ev.extend(skeleton(F, c, _depth + 1))
                elif c in sfns:
                    ev.append(("state." + c.name,) + tuple(arg_class(b, a) for a in t["args"][1:]))
                elif c is not None and (c.raw.get("self_ty") or "").startswith("subscriber::Subscriber<") and not c.raw.get("impl_trait"):
                    nm = c.name.replace("_async", "")
                    if nm in POLLISH:
                        nm = "<poll>"
                    if nm in ("new",):
                        ev.append(("Subscriber::new", arg_class(b, t["args"][1])))
                    else:
                        ev.append(("self." + nm,))
                elif c is not None and not c.raw.get("impl_trait") and c is not fn and (c.raw.get("self_ty") or "").split("<")[0] == (fn.raw.get("self_ty") or "").split("<")[0] and c.kind == "assoc" \
                        and c.vis not in ("pub", "crate") and _depth < 3 and c.name not in ("from_inner",):
                    # a private helper of the same type (possibly async: a coroutine of its own): its events are the caller's
                    ev.extend(skeleton(F, c, _depth + 1))
                elif c is not None and not c.raw.get("impl_trait") and c is not fn and (c.raw.get("self_ty") or "").split("<")[0] == (fn.raw.get("self_ty") or "").split("<")[0] and c.kind == "assoc" \
                        and c.name not in ("from_inner",):
                    # a same-type wrapper that is itself a pure pass-through to one state method (`Self::set` -> state.set) is
                    # expanded, so `take` may be written against the wrapper or against the state directly
                    sub = skeleton(F, c, _depth + 1) if _depth < 2 else []
                    if len(sub) == 1 and sub[0][0].startswith("state.") and all(isinstance(x, str) and x.startswith("param:") for x in sub[0][1:]) \
                            and len(sub[0]) - 1 == len(t["args"]) - 1:
                        ev.append((sub[0][0],) + tuple(arg_class(b, a) for a in t["args"][1:]))
                    else:
                        ev.append(("Self::" + c.name.replace("_async", ""),) + tuple(arg_class(b, a) for a in t["args"][1:]))
            for s in b.blocks[blk]["stmts"]:
                if s["k"] == "assign" and last_field(s["place"]) == "observed_version":
                    x = b.expr_of_rv(s["rv"], 8, ())
                    cls = "version()" if mentions_call(x, r"ObservableState::<.*>::version$") else ("const:%s" % strip(x)[3] if strip(x)[0] == "const" else "other")
                    ev.append(("observed_version:=", cls))
    return ev


def r16_4(ctx, f, leaves, rule="R16.4"):
    """every item / completion the async poll path reports is derived from the leaf: a `Ready(Some(..))` built on a path that has not
    asked `ObservableState::poll_update` skips its closed test (version 0 = closed) and its version bookkeeping."""
    F = ctx.facts
    b = inl(F, f, *leaves, desugar=True, tag="r16.4") or f.built
    leaf_blocks = [blk for blk, t in b.calls() if F.local_callee(f, t) in leaves or any((t.get("resolved") or t.get("callee") or "").endswith(l.path.split("::")[-1]) and "ObservableState" in (t.get("callee") or "") for l in leaves)]
    if not leaf_blocks:
        return
    for loc, kind, payload in blocks_assigning_ret(b):
        if kind != "assign":
            continue
        e = strip(b.expr_of_rv(payload, 6, (), loc), through_calls=False)
        v = agg_variant(e)
        if not v or v[1] != "Ready":
            continue
        inner = strip(e[5][0], through_calls=False) if len(e) > 5 and e[5] else None
        some = inner is not None and agg_variant(inner) and agg_variant(inner)[1] == "Some"
        dominated = any(b.dominates(lb, loc[0]) for lb in leaf_blocks)
        if dominated:
            ctx.holds(rule, f, "ready-derives-from-leaf", b.line_at(loc), "this Ready result is built after the leaf was asked")
        elif some:
            ctx.violated(rule, f, "ready-derives-from-leaf", b.line_at(loc),
                         "`%s` returns Ready(Some(..)) on a path that never asks ObservableState::poll_update: the closed test (version 0) is skipped, so the stream yields an item where the default flavour ends" % f.path)
        else:
            ctx.undecided(rule, f, "ready-derives-from-leaf", b.line_at(loc), "a Ready result without the leaf")


def ready_from_leaf(ctx, rule):
    """R16.4 for every poll function of the eyeball crate that asks the leaf (both flavours)."""
    F = ctx.facts
    leaves = find_poll_leaf(F)
    n = 0
    for f, sites in wakers.poll_fns(F, (EY,)):
        if any(f is l for l in leaves) or not f.built:
            continue
        if not any(F.local_callee(f, t) in leaves for blk, t in f.built.calls()):
            continue
        n += 1
        r16_4(ctx, f, leaves, rule)
    ctx.floor(rule, n, 1)


def _event_name(F, fn, c, sfns):
    if c is None:
        return None
    if c in sfns:
        return "state." + c.name
    st = (c.raw.get("self_ty") or "")
    if not c.raw.get("impl_trait") and c is not fn and c.kind == "assoc" and (st.startswith("subscriber::Subscriber<") or st.split("<")[0] == (fn.raw.get("self_ty") or "").split("<")[0]):
        nm = c.name.replace("_async", "")
        if nm in ("new", "from_inner", "new_async"):
            return None
        return "self.<poll>" if nm in POLLISH else "self." + nm
    return None


def event_blocks(F, fn):
    """per top-level logical body (the fn or its coroutine): event name -> blocks where the event happens (a closure that performs
    the event counts at the block that constructs it)."""
    sfns = state_fns(F)
    lbs = logical_bodies(F, fn)
    closure_events = {}
    for lb in lbs:
        if lb.kind == "closure" and lb.built:
            names = set()
            for blk, t in lb.built.calls():
                nm = _event_name(F, fn, F.local_callee(lb, t), sfns)
                if nm:
                    names.add(nm)
            closure_events[lb.raw["path"]] = names
    out = []
    for lb in lbs:
        if lb.kind == "closure" or not lb.built:
            continue
        b = lb.built
        ev = {}
        for blk, t in b.calls():
            nm = _event_name(F, fn, F.local_callee(lb, t), sfns)
            if nm:
                ev.setdefault(nm, set()).add(blk)
        for loc, s_ in b.iter_stmts():
            if s_["k"] == "assign" and s_["rv"]["k"] == "agg" and s_["rv"].get("of") == "closure":
                for nm in closure_events.get(s_["rv"].get("def"), ()):
                    ev.setdefault(nm, set()).add(loc[0])
        out.append((lb, b, ev))
    return out


def unconditional(F, fn):
    """(all event names, names whose sites cut every entry -> return path)"""
    names, unc = set(), set()
    for lb, b, ev in event_blocks(F, fn):
        rets = set(b.return_blocks())
        for nm, blks in ev.items():
            names.add(nm)
            if rets and not (b.reachable_from(0, avoid_blocks=blks) & rets):
                unc.add(nm)
    return names, unc


def r16_5(ctx, af, sf):
    """an effect the sync method performs on every completing path is not optional in the async twin (e.g. the wait for an update
    skipped under a flag kept in the subscriber state)."""
    F = ctx.facts
    an, au = unconditional(F, af)
    sn, su = unconditional(F, sf)
    k = 0
    for nm in sorted(su & an):
        k += 1
        if nm in au:
            ctx.holds("R16.5", af, "unconditional:%s:%s" % (af.name, nm), af.loc(), "`%s` happens on every completing path, as in `%s`" % (nm, sf.path))
        else:
            ctx.violated("R16.5", af, "unconditional:%s:%s" % (af.name, nm), af.loc(),
                         "the sync `%s` performs `%s` on every path to its return, the async `%s` has a path that returns without it: for the histories that take that path the results differ from the default flavour" % (sf.path, nm, af.path))
    return k


def pairs(F):
    out = []
    # inherent API only: the Stream / Future impls are the poll paths, decided by R16.2 / R16.3 (typestate), not by skeletons
    fns = [f for f in F.find(crate=EY) if (f.vis == "pub" or f.name in ("new_async", "new")) and not f.raw.get("impl_trait")]
    by = {}
    for f in fns:
        by.setdefault((f.raw.get("self_ty") or ""), {})[f.name] = f
    fam = [("unique::Observable<T, lock::AsyncLock>", "unique::Observable<T>", True),
           ("shared::SharedObservable<T, lock::AsyncLock>", "shared::SharedObservable<T>", False),
           ("subscriber::Subscriber<T, lock::AsyncLock>", "subscriber::Subscriber<T>", False)]
    for a_ty, s_ty, suffix in fam:
        for name, af in sorted(by.get(a_ty, {}).items()):
            sname = name[:-6] if name.endswith("_async") else name
            sf = by.get(s_ty, {}).get(sname)
            if sf is not None:
                out.append((af, sf))
    return out


def run(ctx):
    F = ctx.facts
    ps = pairs(F)
    n = 0
    for af, sf in ps:
        if af.name in ("next",):  # enumerated composition: async next = next_ref().await.map(clone); sync next is the named future
            continue
        if af.name in ("try_read", "try_write", "write", "read") and "SharedObservable" in (af.raw.get("self_ty") or ""):
            # lock handles only (no state method): compared for guard construction in C04/R04.2
            continue
        n += 1
        # compared as multisets: the order of independent events (read the value / mark as observed under one guard) is not an effect
        a, s = sorted(skeleton(F, af)), sorted(skeleton(F, sf))
        if a == s:
            ctx.holds("R16.1", af, "sibling:%s" % af.name, af.loc(), "same effect skeleton as `%s`: %s" % (sf.path, a))
        else:
            ctx.violated("R16.1", af, "sibling:%s" % af.name, af.loc(),
                         "the async `%s` does not have the effect skeleton of its sync twin `%s`:\n    async: %s\n    sync:  %s" % (af.path, sf.path, a, s))
    ctx.floor("R16.1", n, 22)
    k5 = 0
    for af, sf in ps:
        k5 += r16_5(ctx, af, sf)
    ctx.floor("R16.5", k5, 15)
    # R16.2 / R16.3: the async poll paths
    leaves = find_poll_leaf(F)
    k = 0
    for f, sites in wakers.poll_fns(F, (EY,)):
        if "async_lock" not in f.path:
            continue
        b = f.built
        k += 1
        for blk, t in b.calls():
            if F.local_callee(f, t) in leaves:
                a1 = strip(b.expr_of_op(t["args"][1]), through_calls=False)
                cxe = b.expr_of_op(t["args"][2])
                ok = a1[0] == "field" and a1[2] == "observed_version" and contains(cxe, lambda x: x[0] == "param" and x[1] == wakers.cx_param(b))
                ctx.verdict(ok, "R16.2", f, "same-leaf", b.line_at((blk, 10 ** 6)), "poll leaf called with &mut self.observed_version and the caller's cx",
                            "the async poll path calls the leaf with `%s` / `%s`" % (fmt(a1, 3), fmt(cxe, 3)))
        r16_4(ctx, f, leaves)
        wakers.check_poll_fn(ctx, "R16.3", f, sites)
        wakers.check_rearm(ctx, "R16.3", f, sites)
    ctx.floor("R16.3", k, 2)
    # a panic in foreign code (the value's Clone) between the completed lock future and its re-arm leaves a finished future behind:
    # every later poll panics, where the default flavour keeps delivering
    kk = 0
    for f, sites in wakers.poll_fns(F, (EY,)):
        if "async_lock" in f.path:
            kk += wakers.check_rearm_immediate(ctx, "R19.10", f, sites)
    ctx.floor("R19.10", kk, 1)
    # the C01-C04 rule sets on this (async) configuration
    for m in (c01, c02, c03):
        m.run(ctx)
    c04.r04_1(ctx)
    c04.r04_3(ctx)
    c04.r04_5(ctx)
