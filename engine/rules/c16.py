"""C16 — the async-lock flavour obeys the same observable semantics as the sync flavour."""
import os
import re
from ..facts import strip, ecall_matches, contains, find_all, fmt, mentions_field, mentions_call, is_param_named
from .. import conds
from .common import *
from .c01 import logical_bodies, SETTERS
from . import c01, c02, c03, c04, wakers

NEEDS_ASYNC = True

CRATES = (EY,)

META = {
    "explanation": (
        "Needs a configuration with the async-lock feature (the pinned test command never builds it; the driver does). R16.1 sibling agreement over an "
        "explicit pair table (Observable, SharedObservable, Subscriber: async method <-> sync twin): the effect skeletons - which ObservableState method "
        "is called with which provenance class of every argument, which sibling method of the same handle is called, what is written to "
        "observed_version, what the subscriber constructor receives - extracted from the async method's coroutine body and from the sync method are "
        "equal (one enumerated composition: async `next` = next_ref + clone). Since the sync side is decided by C01-C04, agreement carries those clauses "
        "over; in addition the C01, C02, C03 and C04 rule sets themselves are evaluated on the async configuration. R16.2 both async poll paths end in "
        "the same poll leaf with &mut self.observed_version and the caller's context; R16.3 waker typestate and re-arm pairing of the lock future "
        "(a completed lock future is re-armed on every path; the leaf is never polled on a path that leaves the lock future unpolled and un-re-armed). "
        "tokio's RwLock fairness and wake-on-release are trusted."),
    "trusted_base": ["tokio::sync::RwLock wakes queued waiters on release; readlock_tokio::SharedReadLock::lock_owned", "rustc coroutine lowering (MIR of async fn bodies)", "rustc MIR construction"],
    "assumptions": [],
    "not_decided": "tokio's lock fairness / wake-on-release (contract)",
}
META["explanation"] += ' R16.4 every Ready(Some(..)) the async poll paths build is dominated by the call of the poll leaf (so its closed test and version bookkeeping run first). R16.5 an effect (state method, sibling method, wait for an update) that the sync twin performs on every completing path is performed on every completing path of the async method as well (cut check on the coroutine body; a closure that performs the effect counts where it is constructed).'
META["explanation"] += ' Shared with C19: R19.10 (re-arm before foreign code).'
META["explanation"] += " R16.4 end-of-stream-derives-from-leaf: a None leaving an async poll path is the leaf's answer, not the residual of a failed try_lock (`?` on an Option). R16.5 wait-once: after the leaf answered Ready the async path does not return to waiting (the update is already marked observed)."
META["explanation"] += " R16.6 cancel safety: in every coroutine, after the observed version is marked (field assignment, or the Ready edge of a poll whose body reaches the poll leaf with the subscriber's own observed_version) no suspension point (MIR yield) is reachable - a dropped future loses no update (F13, repaired by e2e0410). R16.7 a lock-request future stored in the subscriber is not polled from inside an async method's future unless a drop guard re-arms it (tokio grants a queued request its permit without a poll): re-derives the known finding F14 for next / next_ref. R16.2 accepts a private helper that is handed the version when every caller passes the field or a copy of it."

POLLISH = ("poll_next_ref", "poll_update", "poll_next_nopin")


def arg_class(body, op):
    e = body.expr_of_op(op)
    x = strip(e, through_calls=False)
    if x[0] == "param":
        return "param:%s" % x[2]
    if x[0] == "field" and is_param_named(x, x[2]):
        return "param:%s" % x[2]
    if x[0] == "const":
        return "const:%s" % x[3]
    if x[0] == "call" and ecall_matches(x, r"Default>?::default$"):
        return "default"
    if x[0] == "call" and ecall_matches(x, r"ObservableState::<.*>::version$"):
        return "version()"
    if x[0] == "call" and ecall_matches(x, r"ObservableState::<.*>::new$"):
        return "state-new"
    if x[0] == "field" and x[2] == "observed_version":
        return "self.observed_version"
    if mentions_call(e, r"ObservableState::<.*>::version$"):
        return "version()"
    return "other"


def _capture_class(F, lb, name):
    """class of what the closure `lb` captured under `name`, judged in the body that builds the closure."""
    par = F.fns.get(lb.crate + "::" + (lb.raw.get("parent") or "")) if lb.kind == "closure" else None
    if par is None or not par.built:
        return None
    names = [c_["name"] for c_ in (lb.raw.get("built") or {}).get("captures", [])]
    for loc, s_ in par.built.iter_stmts():
        if s_["k"] == "assign" and s_["rv"]["k"] == "agg" and s_["rv"].get("of") == "closure" and s_["rv"].get("def") == lb.path:
            for nm, op_ in zip(names, s_["rv"]["ops"]):
                if nm == name:
                    return arg_class(par.built, op_)
    return None


def _cap_class(F, lb, cls):
    """`param:NAME` read off a closure's capture: a parameter of the enclosing fn keeps its class, a captured local variable is
    classified in the body that captured it."""
    if cls.startswith("param:") and lb.kind == "closure":
        root = root_fn(F, lb)
        pnames = [root.built.locals[k].get("name") for k in range(1, root.built.arg_count + 1)] if root.built else []
        if cls[len("param:"):] not in pnames:
            return _capture_class(F, lb, cls[len("param:"):]) or cls
    return cls


def _subst_params(F, lb, events, c, b, t):
    """events of an expanded private helper, with its own parameters replaced by what this call site passes for them."""
    if not c.built:
        return events
    m = {}
    for i in range(1, min(c.built.arg_count, len(t["args"])) + 1):
        nm = c.built.locals[i].get("name")
        if nm and nm not in ("self", "cx"):
            cls = arg_class(b, t["args"][i - 1])
            if cls.startswith("param:") and lb.kind == "closure":
                # a capture: a parameter of the enclosing fn keeps its class, a captured local is classified where it was captured
                root = root_fn(F, lb)
                pnames = [root.built.locals[k].get("name") for k in range(1, root.built.arg_count + 1)] if root.built else []
                if cls[len("param:"):] not in pnames:
                    cls = _capture_class(F, lb, cls[len("param:"):]) or cls
            m["param:%s" % nm] = cls
    return [tuple(m.get(x, x) if isinstance(x, str) else x for x in e) for e in events]


def skeleton(F, fn, _depth=0):
    sfns = state_fns(F)
    ev = []
    for lb in logical_bodies(F, fn):
        b = inl(F, lb)
        if not b:
            continue
        order = sorted(b.reachable())
        for blk in order:
            t = b.term(blk)
            if t["k"] == "call":
                c = F.local_callee(lb, t)
                if c is not None and c.kind == "coroutine" and root_fn(F, c) is not root_fn(F, lb) and root_fn(F, c).vis not in ("pub", "crate"):
                    c = root_fn(F, c)   # awaiting a private local async fn: `Future::poll` resolves to its coroutine body
                same_ty = c is not None and (c.raw.get("self_ty") or "").split("<")[0] == (fn.raw.get("self_ty") or "").split("<")[0]
                if c is not None and c not in sfns and same_ty and c is not fn and c.kind == "assoc" and not c.raw.get("impl_trait") \
                        and c.vis not in ("pub", "crate") and _depth < 3 and c.name not in ("from_inner", "new", "new_async"):
                    # a private helper of the same type (possibly async: a coroutine of its own): its events are the caller's
                    ev.extend(_subst_params(F, lb, skeleton(F, c, _depth + 1), c, b, t))
                elif c in sfns:
                    ev.append(("state." + c.name,) + tuple(_cap_class(F, lb, arg_class(b, a)) for a in t["args"][1:]))
                elif c is not None and (c.raw.get("self_ty") or "").startswith("subscriber::Subscriber<") and not c.raw.get("impl_trait"):
                    nm = c.name.replace("_async", "")
                    if nm in POLLISH:
                        nm = "<poll>"
                    if nm in ("new",):
                        ev.append(("Subscriber::new", arg_class(b, t["args"][1])))
                    else:
                        ev.append(("self." + nm,))
                elif c is not None and not c.raw.get("impl_trait") and c is not fn and (c.raw.get("self_ty") or "").split("<")[0] == (fn.raw.get("self_ty") or "").split("<")[0] and c.kind == "assoc" \
                        and c.vis not in ("pub", "crate") and _depth < 3 and c.name not in ("from_inner",):
                    # a private helper of the same type (possibly async: a coroutine of its own): its events are the caller's
                    ev.extend(_subst_params(F, lb, skeleton(F, c, _depth + 1), c, b, t))
                elif c is not None and not c.raw.get("impl_trait") and c is not fn and (c.raw.get("self_ty") or "").split("<")[0] == (fn.raw.get("self_ty") or "").split("<")[0] and c.kind == "assoc" \
                        and c.name not in ("from_inner",):
                    # a same-type wrapper that is itself a pure pass-through to one state method (`Self::set` -> state.set) is
                    # expanded, so `take` may be written against the wrapper or against the state directly
                    sub = skeleton(F, c, _depth + 1) if _depth < 2 else []
                    if len(sub) == 1 and sub[0][0].startswith("state.") and all(isinstance(x, str) and x.startswith("param:") for x in sub[0][1:]) \
                            and len(sub[0]) - 1 == len(t["args"]) - 1:
                        ev.append((sub[0][0],) + tuple(arg_class(b, a) for a in t["args"][1:]))
                    else:
                        ev.append(("Self::" + c.name.replace("_async", ""),) + tuple(arg_class(b, a) for a in t["args"][1:]))
            for s in b.blocks[blk]["stmts"]:
                if s["k"] == "assign" and last_field(s["place"]) == "observed_version":
                    x = b.expr_of_rv(s["rv"], 8, ())
                    cls = "version()" if mentions_call(x, r"ObservableState::<.*>::version$") else ("const:%s" % strip(x)[3] if strip(x)[0] == "const" else "other")
                    ev.append(("observed_version:=", cls))
    return ev


def r16_4(ctx, f, leaves, rule="R16.4"):
    """every item / completion the async poll path reports is derived from the leaf: a `Ready(Some(..))` built on a path that has not
    asked `ObservableState::poll_update` skips its closed test (version 0 = closed) and its version bookkeeping."""
    F = ctx.facts
    b = inl(F, f, *leaves, desugar=True, tag="r16.4") or f.built
    leaf_blocks = [blk for blk, t in b.calls() if F.local_callee(f, t) in leaves or any((t.get("resolved") or t.get("callee") or "").endswith(l.path.split("::")[-1]) and "ObservableState" in (t.get("callee") or "") for l in leaves)]
    if not leaf_blocks:
        return
    for loc, kind, payload in blocks_assigning_ret(b):
        if kind != "assign":
            continue
        e = strip(b.expr_of_rv(payload, 6, (), loc), through_calls=False)
        v = agg_variant(e)
        if not v or v[1] != "Ready":
            continue
        inner = strip(e[5][0], through_calls=False) if len(e) > 5 and e[5] else None
        some = inner is not None and agg_variant(inner) and agg_variant(inner)[1] == "Some"
        dominated = any(b.dominates(lb, loc[0]) for lb in leaf_blocks)
        if dominated:
            ctx.holds(rule, f, "ready-derives-from-leaf", b.line_at(loc), "this Ready result is built after the leaf was asked")
        elif some:
            ctx.violated(rule, f, "ready-derives-from-leaf", b.line_at(loc),
                         "`%s` returns Ready(Some(..)) on a path that never asks ObservableState::poll_update: the closed test (version 0) is skipped, so the stream yields an item where the default flavour ends" % f.path)
        else:
            ctx.undecided(rule, f, "ready-derives-from-leaf", b.line_at(loc), "a Ready result without the leaf")
    # every None that can end up inside a returned Ready(..) is the leaf's own None
    for loc, kind, payload in blocks_assigning_ret(b):
        if kind != "assign":
            continue
        e0 = b.expr_of_rv(payload, 12, (), loc)
        readys = find_all(e0, lambda y: y[0] == "agg" and y[1] == "adt" and y[2] == "std::task::Poll" and y[3] == "Ready" and y[5])
        for inner in [r_[5][0] for r_ in readys]:
          for nn in find_all(inner, lambda y: y[0] == "agg" and y[1] == "adt" and y[2] == "std::option::Option" and y[3] == "None" and y[6] is not None):
            facts = conds.bare(conds.dominating_facts(b, nn[6][0]))
            ok_none = any(x[0] == "variant" and x[2] == frozenset(["None"]) and contains(x[1], lambda y: y[0] == "call" and y[4] is not None and y[4][0] in leaf_blocks) for x in facts)
            if ok_none:
                ctx.holds(rule, f, "end-of-stream-derives-from-leaf", b.line_at(nn[6]), "a None inside the returned Ready(..) is built under the leaf's None")
          for rc in find_all(inner, lambda y: y[0] == "call" and ecall_matches(y, r"FromResidual(<.*>)?>?::from_residual$")):
            src = find_all(rc, lambda y: y[0] == "call" and ecall_matches(y, r"ops::Try>?::branch$"))
            from_leaf = any(contains(c_, lambda y: y[0] == "call" and y[4] is not None and y[4][0] in leaf_blocks) for c_ in src) if src else False
            ctx.verdict(from_leaf, rule, f, "end-of-stream-derives-from-leaf", b.line_at(rc[4]) if rc[4] else f.loc(), "`?` on the leaf's own Option",
                        "`%s` can put a None that is not the poll leaf's answer into the Ready(..) it returns (a `?` on something else - e.g. a try_lock that lost against a writer): the stream then reports its END although the observable is alive and writing" % f.path)
    # `x?` on an Option inside a function returning Poll<Option<_>> answers Ready(None) - the end of the stream - when x is None:
    # x must be the leaf's own answer, not e.g. a failed try_lock
    for blk, t in b.calls(r"FromResidual(<.*>)?>?::from_residual$"):
        g = t.get("gargs") or []
        if len(g) < 2 or not g[0].startswith("std::task::Poll<std::option::Option<") or "std::option::Option<std::convert::Infallible>" not in g[1]:
            continue
        e = b.expr_of_op(t["args"][0])
        src = find_all(e, lambda y: y[0] == "call" and ecall_matches(y, r"ops::Try>?::branch$"))
        from_leaf = any(contains(c_, lambda y: y[0] == "call" and y[4] is not None and y[4][0] in leaf_blocks) for c_ in src) if src else False
        ctx.verdict(from_leaf, rule, f, "end-of-stream-derives-from-leaf", b.line_at((blk, 10 ** 6)), "`?` on the leaf's own Option",
                    "`%s` applies `?` to an Option that is not the poll leaf's answer inside a function returning Poll<Option<_>>: when it is None (e.g. a try_lock that lost against a writer) the stream reports its END although the observable is alive" % f.path)


def ready_from_leaf(ctx, rule):
    """R16.4 for every poll function of the eyeball crate that asks the leaf (both flavours)."""
    F = ctx.facts
    leaves = find_poll_leaf(F)
    n = 0
    for f, sites in wakers.poll_fns(F, (EY,)):
        if any(f is l for l in leaves) or not f.built:
            continue
        ib = inl(F, f, *leaves, desugar=True, tag="r16.4") or f.built
        if not any(F.local_callee(f, t) in leaves for blk, t in ib.calls()):
            continue
        n += 1
        r16_4(ctx, f, leaves, rule)
    ctx.floor(rule, n, 1)


def _event_name(F, fn, c, sfns):
    if c is None:
        return None
    if c in sfns:
        return "state." + c.name
    st = (c.raw.get("self_ty") or "")
    if not c.raw.get("impl_trait") and c is not fn and c.kind == "assoc" and (st.startswith("subscriber::Subscriber<") or st.split("<")[0] == (fn.raw.get("self_ty") or "").split("<")[0]):
        nm = c.name.replace("_async", "")
        if nm in ("new", "from_inner", "new_async"):
            return None
        return "self.<poll>" if nm in POLLISH else "self." + nm
    return None


def event_blocks(F, fn):
    """per top-level logical body (the fn or its coroutine): event name -> blocks where the event happens (a closure that performs
    the event counts at the block that constructs it)."""
    sfns = state_fns(F)
    lbs = logical_bodies(F, fn)
    closure_events = {}
    for lb in lbs:
        if lb.kind == "closure" and lb.built:
            names = set()
            for blk, t in lb.built.calls():
                nm = _event_name(F, fn, F.local_callee(lb, t), sfns)
                if nm:
                    names.add(nm)
            closure_events[lb.raw["path"]] = names
    out = []
    for lb in lbs:
        if lb.kind == "closure" or not lb.built:
            continue
        b = lb.built
        ev = {}
        for blk, t in b.calls():
            nm = _event_name(F, fn, F.local_callee(lb, t), sfns)
            if nm:
                ev.setdefault(nm, set()).add(blk)
        for loc, s_ in b.iter_stmts():
            if s_["k"] == "assign" and s_["rv"]["k"] == "agg" and s_["rv"].get("of") == "closure":
                for nm in closure_events.get(s_["rv"].get("def"), ()):
                    ev.setdefault(nm, set()).add(loc[0])
        out.append((lb, b, ev))
    return out


def unconditional(F, fn):
    """(all event names, names whose sites cut every entry -> return path)"""
    names, unc = set(), set()
    for lb, b, ev in event_blocks(F, fn):
        rets = set(b.return_blocks())
        for nm, blks in ev.items():
            names.add(nm)
            if rets and not (b.reachable_from(0, avoid_blocks=blks) & rets):
                unc.add(nm)
    return names, unc


def r16_5(ctx, af, sf):
    """an effect the sync method performs on every completing path is not optional in the async twin (e.g. the wait for an update
    skipped under a flag kept in the subscriber state)."""
    F = ctx.facts
    an, au = unconditional(F, af)
    sn, su = unconditional(F, sf)
    k = 0
    for nm in sorted(su & an):
        k += 1
        if nm in au:
            ctx.holds("R16.5", af, "unconditional:%s:%s" % (af.name, nm), af.loc(), "`%s` happens on every completing path, as in `%s`" % (nm, sf.path))
        else:
            ctx.violated("R16.5", af, "unconditional:%s:%s" % (af.name, nm), af.loc(),
                         "the sync `%s` performs `%s` on every path to its return, the async `%s` has a path that returns without it: for the histories that take that path the results differ from the default flavour" % (sf.path, nm, af.path))
    # the wait for an update happens at most once per call: a `<poll>` event inside a cycle of the async method means that after an
    # update was found (and marked observed by the leaf) the method can go back to waiting - that update is then never handed out
    for lb, b, ev in event_blocks(F, af):
        for blk in sorted(ev.get("self.<poll>", ())):
            k += 1
            t = b.term(blk)
            succ = b.normal_succ(blk)
            in_cycle = any(blk in b.reachable_from(x) for x in succ)
            if t["k"] == "call" and F.local_callee(lb, t) is not None and in_cycle:
                # a direct poll call inside the await loop of its own future is the await itself; only a re-created wait counts
                in_cycle = False
            ctx.verdict(not in_cycle, "R16.5", af, "wait-once:%s" % af.name, b.line_at((blk, 10 ** 6)), "the wait for an update is set up once per call",
                        "`%s` sets up its wait for an update inside a loop: after an update was found - and marked as observed by the poll leaf - it can go back to waiting (e.g. because a lock probe failed); if nothing else changes, that update is never delivered although the default flavour delivers it" % af.path)
    return k



# ---------------------------------------------------------------------------
# R16.6 cancel safety: the update is marked as observed in the resumption that hands it out

def _param_rooted(b, e):
    out = set()
    for n in find_all(e, lambda y: y[0] == "param"):
        if n[1] >= 2:
            out.add(n[1])
    return out


def mark_summary(F, g, leaves, _memo=None, _depth=0):
    """(marks the observed version of the subscriber it works on, set of parameter positions through which it marks)."""
    _memo = {} if _memo is None else _memo
    if g.path in _memo:
        return _memo[g.path]
    _memo[g.path] = (False, frozenset())
    if not g.built or _depth > 6:
        return _memo[g.path]
    b = g.built
    own, via = False, set()
    for loc, s_ in b.iter_stmts():
        if s_["k"] == "assign" and s_["place"]["proj"] and last_field(s_["place"]) == "observed_version":
            if obs_rooted(g, b.expr_of_place(s_["place"])) or g.kind not in ("closure", "coroutine"):
                own = True
    for blk, t in b.calls():
        if wakers.is_poll_call(t) and not any(F.local_callee(g, t) is l_ for l_ in leaves):
            # polling a local future / a closure handed to poll_fn runs its body
            for pb in _polled_bodies(F, g, t):
                if pb is not g and mark_summary(F, pb, leaves, _memo, _depth + 1)[0]:
                    own = True
            continue
        c = F.local_callee(g, t)
        if c is None:
            continue
        if any(c is l_ for l_ in leaves):
            e = b.expr_of_op(t["args"][1])
            if obs_rooted(g, e):
                own = True
            else:
                via |= _param_rooted(b, e)
            continue
        if c is g:
            continue
        co, cvia = mark_summary(F, c, leaves, _memo, _depth + 1)
        if co and not c.raw.get("is_async"):
            own = True
        for i in cvia:
            if i - 1 < len(t["args"]):
                e = b.expr_of_op(t["args"][i - 1])
                if obs_rooted(g, e):
                    own = True
                else:
                    via |= _param_rooted(b, e)
    _memo[g.path] = (own, frozenset(via))
    return _memo[g.path]


def _polled_bodies(F, lb, t):
    """the local bodies a `Future::poll` / `Stream::poll_next` call inside the coroutine `lb` runs: the coroutine of a local async fn
    (resolved by the driver), or the closure handed to `poll_fn` (matched through the closure's position in the printed type)."""
    out = []
    c = F.local_callee(lb, t)
    if c is not None:
        out.append(c)
    full = (t.get("extra") or {}).get("full") or ""
    for m in re.finditer(r"\{closure@([^:}]+):(\d+):(\d+)", full):
        for ch in F.children.get(lb.key, []):
            sp = ch.raw.get("span") or {}
            if ch.kind == "closure" and sp.get("file") == m.group(1) and sp.get("line") == int(m.group(2)) and sp.get("col") == int(m.group(3)) and ch not in out:
                out.append(ch)
    return out


def r16_6(ctx):
    """Futures can be dropped at any suspension point (timeout, select!).  The default flavour's `Next` checks, marks and clones under
    one guard within one poll, so dropping it loses nothing.  The async flavour must keep that: once a resumption of an async method
    has marked an update as observed (the poll leaf answered Ready with `&mut self.observed_version`, or the field is assigned), the
    method returns in that same resumption - no suspension point is reachable after the mark.  Otherwise a future dropped at that
    point leaves the update marked but never delivered, and the next call waits for a *further* update."""
    if getattr(ctx, "_r166", (None, 0))[0] == ctx.config:   # once per configuration (C16 reaches it twice: directly and through C01)
        return ctx._r166[1]
    F = ctx.facts
    leaves = find_poll_leaf(F)
    memo = {}
    n = 0
    for lb in F.find(crate=EY):
        if lb.kind != "coroutine" or not lb.built:
            continue
        b = lb.built
        yields = {blk for blk in range(b.n) if b.term(blk)["k"] == "yield" and not b.blocks[blk].get("cleanup")}
        starts = []   # (block where the mark happened, [blocks to start the search from], description)
        for loc, s_ in b.iter_stmts():
            if s_["k"] == "assign" and s_["place"]["proj"] and last_field(s_["place"]) == "observed_version" and obs_rooted(lb, b.expr_of_place(s_["place"])):
                starts.append((loc[0], [loc[0]], "the assignment to `observed_version`", "assign"))
        for blk, t in b.calls():
            if not wakers.is_poll_call(t):
                continue
            marking = [g for g in _polled_bodies(F, lb, t) if mark_summary(F, g, leaves, memo)[0]]
            if not marking:
                continue
            # the mark is made when that poll answers Ready: follow only the edges on which its result may be Ready
            front = []
            seen = set()
            work = list(b.normal_succ(blk))
            site = (blk, len(b.blocks[blk]["stmts"]))
            while work:
                x = work.pop()
                if x in seen:
                    continue
                seen.add(x)
                tk = b.term(x)["k"]
                if tk != "switch":
                    if tk in ("goto", "false_edge", "false_unwind") and not b.blocks[x]["stmts"]:
                        work.extend(b.normal_succ(x))
                    else:
                        front.append(x)
                    continue
                for nx in b.normal_succ(x):
                    pend_only = False
                    for fct in conds.bare(conds.edge_facts(b, x, nx)):
                        if fct[0] == "variant" and fct[2] and fct[2] <= frozenset(["Pending"]) and any(c_[4] == site for c_ in find_all(fct[1], lambda y: y[0] == "call")):
                            pend_only = True
                    if not pend_only:
                        front.append(nx)
            mroot = root_fn(F, marking[0])
            starts.append((blk, front, "the poll of `%s` (which marks the update as observed when it answers Ready)" % marking[0].path,
                           "poll_fn" if mroot is root_fn(F, lb) else (mroot.name or "?")))
        for mblk, front, what, tag in starts:
            n += 1
            reach = set()
            for x in front:
                reach |= b.reachable_from(x)
                reach.add(x)
            if mblk in [x for x in front]:
                # statements after an assignment in its own block never suspend; the terminator might
                pass
            hit = sorted(reach & yields)
            root = root_fn(F, lb)
            ctx.verdict(not hit, "R16.6", root, "marked-then-suspended:%s:%s" % (root.name or "?", tag), b.line_at((mblk, 10 ** 6)),
                        "after %s no suspension point is reachable: the update is handed out in the resumption that marks it" % what,
                        "`%s`: after %s the future can still suspend (await at %s) before it returns the value. A future dropped there (timeout, select!) leaves the update marked as observed although it was never handed out: "
                        "the next `next()` / `next_ref()` is Pending until a further update, where the default flavour (check, mark and read under one guard in one poll) delivers it" % (
                            root.path, what, ", ".join(b.line_at((y, 10 ** 6)) for y in hit[:2])))
    ctx._r166 = (ctx.config, n)
    return n



# ---------------------------------------------------------------------------
# R16.7 no lock request left queued by a dropped future

def _stored_gate_polls(F, g, memo, depth=0):
    """names of the fields of the subscriber whose stored lock-acquisition future (a boxed future with a guard as output, kept in a
    field so that it outlives the call) is polled when `g` runs - directly or through local helpers."""
    if g.path in memo:
        return memo[g.path]
    memo[g.path] = set()
    if not g.built or depth > 6:
        return memo[g.path]
    b = g.built
    out = set()
    for blk, t in b.calls():
        if wakers.is_poll_call(t) and not t["dest"]["proj"] and re.search(wakers.GATE_TY, str(b.locals[t["dest"]["l"]]["ty"])):
            e = b.expr_of_op(t["args"][0])
            flds = [n[2] for n in find_all(e, lambda y: y[0] == "field" and isinstance(y[2], str) and not y[2].isdigit())]
            rooted_self = contains(e, lambda y: (y[0] == "param" and y[1] == 1))
            if flds and rooted_self:
                out.add(wakers.input_name(b, t))
            continue
        if wakers.is_poll_call(t):
            for pb in _polled_bodies(F, g, t):
                if pb is not g:
                    out |= _stored_gate_polls(F, pb, memo, depth + 1)
            continue
        c = F.local_callee(g, t)
        if c is not None and c is not g and not c.raw.get("is_async"):
            out |= _stored_gate_polls(F, c, memo, depth + 1)
    memo[g.path] = out
    return out


def r16_7(ctx):
    """A lock request that was polled once is queued in the lock's (fair) wait list; when the lock is released the request is GRANTED
    the permit whether or not anybody polls it again (contract of tokio's RwLock / batch semaphore).  A request future that lives in
    the subscriber therefore must not be polled from a context that can be dropped half-way - an async method's future - unless its
    drop re-arms the stored request: otherwise `timeout(sub.next())` under a held write guard leaves a queued request behind, the
    release hands it a read permit, and every later writer (`set().await`, `try_write`) fails although no guard exists - forever, if
    the task that would poll the subscriber again is the one waiting in the setter."""
    F = ctx.facts
    memo = {}
    n = 0
    per_entry = {}
    for lb in F.find(crate=EY):
        if lb.kind != "coroutine" or not lb.built:
            continue
        b = lb.built
        fields = set()
        for blk, t in b.calls():
            if wakers.is_poll_call(t):
                for pb in _polled_bodies(F, lb, t):
                    if pb.kind == "closure" or not pb.raw.get("is_async"):
                        if pb.kind != "coroutine":
                            fields |= _stored_gate_polls(F, pb, memo)
        if not fields:
            continue
        root = root_fn(F, lb)
        # a reset-on-drop guard: a local of a crate type whose Drop re-arms a stored future
        guarded = False
        for l_ in b.locals:
            ty = str(l_["ty"]).split("<")[0].lstrip("&").replace("mut ", "").strip()
            for im in F.impls:
                if im.get("trait") == "std::ops::Drop" and im["crate"] == EY and im["self_ty"].split("<")[0] == ty:
                    for pth in im["fns"]:
                        d = F.fn(EY, pth)
                        if d is not None and d.built and d.built.calls(wakers.REARM_PAT):
                            guarded = True
        # the finding belongs to the public methods whose future contains this one (a private async helper is awaited inside them)
        entries, frontier, seen = [], [root], set()
        while frontier:
            r_ = frontier.pop()
            if r_.path in seen:
                continue
            seen.add(r_.path)
            if r_.vis == "pub" or len(seen) > 12:
                entries.append(r_)
                continue
            ups = []
            for g in F.find(crate=EY):
                if g.built and root_fn(F, g) is not r_ and any(F.local_callee(g, t) is r_ for blk, t in g.built.calls()):
                    ups.append(root_fn(F, g))
            if ups:
                frontier.extend(ups)
            else:
                entries.append(r_)
        for e_ in entries:
            per_entry.setdefault(e_.path, (e_, set(), []))
            per_entry[e_.path][1].update(fields)
            per_entry[e_.path][2].append(guarded)
    for pth, (e_, fields, gs) in sorted(per_entry.items()):
        n += 1
        guarded = all(gs)
        ctx.verdict(guarded, "R16.7", e_, "queued-request-outlives-future:%s" % (e_.name or "?"), e_.loc(),
                    "a drop guard re-arms the stored request when the future is dropped",
                    "`%s` polls the lock request stored in the subscriber (field %s) from inside its own future: if that future is dropped while the request is queued (timeout / select! while a write guard is held or a writer is queued), the request stays queued, is granted a read permit at the next release and keeps it until the subscriber is polled again or dropped - "
                    "`try_write()` then fails and `set().await` / `write().await` wait although no guard exists (a self-deadlock when the same task continues with a setter); the default flavour has no such state" % (e_.path, ", ".join("`%s`" % x for x in sorted(fields))))
    return n



def _callers_pass_observed(F, f, pidx):
    callers = 0
    for g in F.find(crate=EY):
        if not g.built or g is f:
            continue
        gb = g.built
        for blk, t in gb.calls():
            if F.local_callee(g, t) is not f or pidx - 1 >= len(t["args"]):
                continue
            callers += 1
            e = gb.expr_of_op(t["args"][pidx - 1])
            if mentions_field(e, "observed_version"):
                continue
            # a local captured by the closure that makes the call: look at what the enclosing body captured
            caps = [n for n in find_all(e, lambda y: y[0] == "field" and isinstance(y[2], str))]
            par = F.fns.get(g.crate + "::" + (g.raw.get("parent") or "")) if g.kind == "closure" else None
            good = False
            if par is not None and par.built:
                names = [c["name"] for c in (g.raw.get("built") or {}).get("captures", [])]
                for loc, s_ in par.built.iter_stmts():
                    if s_["k"] == "assign" and s_["rv"]["k"] == "agg" and s_["rv"].get("of") == "closure" and s_["rv"].get("def") == g.path:
                        for nm, op_ in zip(names, s_["rv"]["ops"]):
                            if any(c_[2] == nm for c_ in caps) and mentions_field(par.built.expr_of_op(op_), "observed_version"):
                                good = True
            if not good:
                return False
    return callers > 0


def pairs(F):
    out = []
    # inherent API only: the Stream / Future impls are the poll paths, decided by R16.2 / R16.3 (typestate), not by skeletons
    fns = [f for f in F.find(crate=EY) if (f.vis == "pub" or f.name in ("new_async", "new")) and not f.raw.get("impl_trait")]
    by = {}
    for f in fns:
        by.setdefault((f.raw.get("self_ty") or ""), {})[f.name] = f
    fam = [("unique::Observable<T, lock::AsyncLock>", "unique::Observable<T>", True),
           ("shared::SharedObservable<T, lock::AsyncLock>", "shared::SharedObservable<T>", False),
           ("subscriber::Subscriber<T, lock::AsyncLock>", "subscriber::Subscriber<T>", False)]
    for a_ty, s_ty, suffix in fam:
        for name, af in sorted(by.get(a_ty, {}).items()):
            sname = name[:-6] if name.endswith("_async") else name
            sf = by.get(s_ty, {}).get(sname)
            if sf is not None:
                out.append((af, sf))
    return out


def run(ctx):
    F = ctx.facts
    ps = pairs(F)
    n = 0
    for af, sf in ps:
        if af.name in ("next",):  # enumerated composition: async next = next_ref().await.map(clone); sync next is the named future
            continue
        if af.name in ("try_read", "try_write", "write", "read") and "SharedObservable" in (af.raw.get("self_ty") or ""):
            # lock handles only (no state method): compared for guard construction in C04/R04.2
            continue
        n += 1
        # compared as multisets: the order of independent events (read the value / mark as observed under one guard) is not an effect
        a, s = sorted(skeleton(F, af)), sorted(skeleton(F, sf))
        if a == s:
            ctx.holds("R16.1", af, "sibling:%s" % af.name, af.loc(), "same effect skeleton as `%s`: %s" % (sf.path, a))
        else:
            ctx.violated("R16.1", af, "sibling:%s" % af.name, af.loc(),
                         "the async `%s` does not have the effect skeleton of its sync twin `%s`:\n    async: %s\n    sync:  %s" % (af.path, sf.path, a, s))
    ctx.floor("R16.1", n, 22)
    k5 = 0
    for af, sf in ps:
        k5 += r16_5(ctx, af, sf)
    ctx.floor("R16.5", k5, 15)
    ctx.floor("R16.6", r16_6(ctx), 4)
    ctx.floor("R16.7", r16_7(ctx), 1)
    # R16.2 / R16.3: the async poll paths
    leaves = find_poll_leaf(F)
    k = 0
    for f, sites in wakers.poll_fns(F, (EY,)):
        if "async_lock" not in f.path:
            continue
        b = f.built
        k += 1
        for blk, t in b.calls():
            if F.local_callee(f, t) in leaves:
                a1 = strip(b.expr_of_op(t["args"][1]), through_calls=False)
                cxe = b.expr_of_op(t["args"][2])
                ok = a1[0] == "field" and a1[2] == "observed_version" and contains(cxe, lambda x: x[0] == "param" and x[1] == wakers.cx_param(b))
                if not ok and a1[0] == "param" and a1[1] >= 2 and f.vis not in ("pub",) and contains(cxe, lambda x: x[0] == "param" and x[1] == wakers.cx_param(b)):
                    # a private helper that is handed the version to compare with: every caller passes the subscriber's own observed
                    # version - the field, or a copy of it made in the calling method (whose write-back R16.6 / R16.1 judge)
                    ok = _callers_pass_observed(F, f, a1[1])
                ctx.verdict(ok, "R16.2", f, "same-leaf", b.line_at((blk, 10 ** 6)), "poll leaf called with &mut self.observed_version and the caller's cx",
                            "the async poll path calls the leaf with `%s` / `%s`" % (fmt(a1, 3), fmt(cxe, 3)))
        r16_4(ctx, f, leaves)
        wakers.check_poll_fn(ctx, "R16.3", f, sites)
        wakers.check_rearm(ctx, "R16.3", f, sites)
    ctx.floor("R16.3", k, 2)
    # a panic in foreign code (the value's Clone) between the completed lock future and its re-arm leaves a finished future behind:
    # every later poll panics, where the default flavour keeps delivering
    kk = 0
    for f, sites in wakers.poll_fns(F, (EY,)):
        if "async_lock" in f.path:
            kk += wakers.check_rearm_immediate(ctx, "R19.10", f, sites)
    ctx.floor("R19.10", kk, 1)
    # the C01-C04 rule sets on this (async) configuration
    for m in (c01, c02, c03):
        m.run(ctx)
    c04.r04_1(ctx)
    c04.r04_3(ctx)
    c04.r04_5(ctx)
