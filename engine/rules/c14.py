"""C14 — vector streams and adapters never lose a wakeup from any of their inputs."""
from .common import *
from . import wakers

CRATES = (IM,)

META = {
    "explanation": (
        "Static typestate analysis on MIR of every poll function the library provides on top of an ObservableVector (Head, Tail, Skip, the two "
        "filter loops, Sort, both subscriber streams; the async observable subscriber's two poll paths in configurations with async-lock): a "
        "set-of-states forward dataflow tracks for each input (pinned stream field, receive future, lock future, waker-list leaf) whether its last poll "
        "with the caller's context answered Pending, ended, or yielded an item, refined on the discriminant switches of the poll result. R14.1 at every "
        "Pending return (literal or forwarded poll result) the Pending is caused by an input left pending in this invocation (never out of thin air) and "
        "every input is Pending/Ended - or gated behind a pending input, or a re-armed gate; R14.2 no input is polled with a foreign context; R14.3 a "
        "completed re-armable future (receive future, lock future) is re-armed or its receiver parked on every path. This is the 0.5.0 limit-stream bug "
        "class, decided for all paths. That tokio / Subscriber wake their registered wakers is trusted (C02 covers eyeball's own)."),
    "trusted_base": ["tokio broadcast recv future and tokio RwLock wake the registered waker", "user-supplied limit/count streams obey the Stream contract", "rustc MIR construction"],
    "assumptions": [],
}
META["explanation"] += " The dynamic limit / count input of Head, Tail and Skip is an eyeball Subscriber: its poll functions are checked with the same typestate (R02.7) and the leaf's pending => registered clause (R02.2)."
META["explanation"] += ' The waker-list inventory (R02.3 wake all, R02.4 full drain after every version write, R02.5 only push / drain / take) is evaluated here: a registered waker stays registered until it is woken.'
META["explanation"] += ' Also evaluated here: the ready-buffer rules (R13.1, R13.3, R13.5-R13.8) - returning Pending whenever the source is Pending is right only because nothing is parked in the ready buffer across such a return (batched containers cannot buffer). The typestate runs on combinator-desugared bodies and has the locally-owned-input clause (see C02).'
META["explanation"] += " Poll functions that build Pending without polling anything (other than eyeball's audited poll leaf) are included: their Pending is reported as not caused by an input (a hand-rolled waker list whose wake discipline no rule verifies)."
META["explanation"] += ' Shared with C08: R08.2 / R08.4 (one long-lived Sender that is never cloned, moved out or kept from being dropped - mem::forget / ptr::read around the vector leave the channel open and parked streams are never woken). Termination memories (see C09 R09.18) are understood by the typestate.'
META["explanation"] += " R14.2 plumbing-forwards-the-context: the future wrappers excluded from the typestate poll the wrapped future with the caller's context itself (not one rebuilt around a remembered waker)."
META["explanation"] += ' R14.5 a vector subscriber stream does not answer Pending while one of its fields holds diffs already taken out of the channel.'
META["explanation"] += ' R14.6 a poll function that answers Ready on the strength of a flag of its own alone does not set that flag and then answer Pending in the same invocation.'


def run(ctx):
    F = ctx.facts
    have = set(F.crates)
    fns = wakers.poll_fns(F, tuple(c for c in (IM, UT) if c in have) + ((EY,) if (EY in have and ctx.has_async) else ()))
    # eyeball's sync subscriber is the C02 leaf's direct caller; keep only functions with their own Pending decision or forwarding
    n = 0
    for f, sites in sorted(fns, key=lambda x: x[0].key):
        if f.crate == EY and "async_lock" not in f.path:
            continue
        if f.path.startswith("reusable_box::") or "ReusableBoxRecvFuture" in f.path or "make_recv_future" in f.path:
            # plumbing: forwards the boxed future's poll unchanged - which is checked, not assumed: the inner poll gets the caller's
            # context itself (not one rebuilt around a waker remembered from an earlier poll: the task may poll with another waker
            # next time, and the boxed future would keep waking the stale one)
            if f.kind != "coroutine":
                pb = wakers.poll_body(F, f)
                cxp = wakers.cx_param(pb)
                for blk, t in sites:
                    if not wakers.is_poll_call(t):
                        continue
                    cx_args = [a for a in t["args"] if a["k"] in ("move", "copy") and "task::Context<" in pb.locals[a["place"]["l"]]["ty"]] or [t["args"][-1]]
                    x = strip(pb.expr_of_op(cx_args[0]))
                    ok = x[0] == "param" and x[1] == cxp
                    ctx.verdict(ok, "R14.2", f, "plumbing-forwards-the-context", pb.line_at((blk, 10 ** 6)), "the wrapped future is polled with the caller's context itself",
                                "`%s` polls the future it wraps with `%s` instead of the context it was given: the waker registered with the channel is not (necessarily) the one of the current poll - "
                                "a task that polls with a different waker the second time is never woken" % (f.path, fmt(pb.expr_of_op(cx_args[0]), 4)[:160]))
            continue
        n += 1
        wakers.check_poll_fn(ctx, "R14.1", f, sites)
        wakers.check_rearm(ctx, "R14.3", f, sites)
        wakers.check_flag_then_pending(ctx, "R14.6", f)
    floor = 2 + (6 if UT in have else 0) + (2 if (EY in have and ctx.has_async) else 0)
    ctx.floor("R14.1", n, floor)
    r14_5(ctx)
    # the adapters return Pending whenever the source is Pending, without looking at their ready buffers again: that is only right
    # because nothing is parked there across such a return (single diffs: drained at the top of the loop; batches: cannot buffer)
    if UT in have:
        from . import groups
        groups.util_buffers(ctx)
    # "the source being dropped wakes": the channel closes when the vector goes - one long-lived Sender that is never cloned, moved out
    # or kept from being dropped (mem::forget / ManuallyDrop around the vector)
    if IM in have:
        from . import c08
        c08.r08_2(ctx)
        c08.r08_4(ctx)
    # the dynamic limit / count of Head, Tail and Skip is an eyeball Subscriber: its poll paths are inputs of the adapters
    if EY in have:
        from . import groups, leaf
        leaf.check_pending_registered(ctx, "R02.2")
        groups.eyeball_poll_typestate(ctx)
        # ... and a registered waker stays registered until it is woken: the waker list is only pushed to (poll), drained
        # (update) and taken (close); update and close wake all of them
        from . import c02
        wakes = find_wake_fn(F)
        if len(wakes) == 1:
            c02.r02_3(ctx, wakes[0])
            c02.r02_4(ctx, wakes[0])
            c02.r02_5(ctx, wakes[0])


def im_stream_typestate(ctx):
    """the waker typestate of the eyeball-im poll functions only (shared with C05: "what is received does not depend on when or how
    often the subscriber is polled" includes the subscriber that is polled by an executor - once, and then only when woken)."""
    F = ctx.facts
    if IM not in set(F.crates):
        return
    for f, sites in sorted(wakers.poll_fns(F, (IM,)), key=lambda x: x[0].key):
        if f.path.startswith("reusable_box::") or "ReusableBoxRecvFuture" in f.path or "make_recv_future" in f.path:
            continue
        wakers.check_poll_fn(ctx, "R14.1", f, sites)
        wakers.check_rearm(ctx, "R14.3", f, sites)


def r14_5(ctx):
    """a vector subscriber stream does not answer Pending while it holds diffs it has already taken out of the channel: nothing will
    wake the task for them.  For every field of the stream that can hold diffs (a collection / iterator of VectorDiff, or a state
    enum with such a variant), each path to a Pending answer carries the fact that the field is empty / in a variant without
    diffs."""
    F = ctx.facts
    if IM not in set(F.crates):
        return
    n = 0
    for f in F.find(crate=IM, name="poll_next"):
        st = (f.raw.get("self_ty") or "")
        if f.raw.get("impl_trait") != "futures_core::Stream" or "VectorSubscriber" not in st or not f.built:
            continue
        adt = F.adt(IM, st.split("<")[0])
        if adt is None:
            continue
        b = wakers.poll_body(F, f)
        holders = []
        for fd in adt["variants"][0]["fields"]:
            ty = str(fd["ty"])
            if "ReusableBox" in ty or "Receiver<" in ty:
                continue
            if "VectorDiff<" in ty:
                holders.append((fd["name"], None))
                continue
            inner = F.adt(IM, ty.split("<")[0])
            if inner is not None and len(inner["variants"]) > 1:
                with_diffs = {v["name"] for v in inner["variants"] if any("VectorDiff<" in str(x["ty"]) for x in v["fields"])}
                if with_diffs:
                    holders.append((fd["name"], with_diffs))
        if not holders:
            ctx.holds("R14.5", f, "pending-with-parked-diffs", f.loc(), "the stream has no field that can hold diffs")
            continue
        # Pending answers: explicit Poll::Pending aggregates and returns that forward a poll result
        sites = [(blk, t) for blk, t in b.calls() if wakers.is_poll_call(t)]
        site_by_loc = {(blk, len(b.blocks[blk]["stmts"])): "x" for blk, t in sites}
        pend_locs = []
        for loc, kind, payload in blocks_assigning_ret(b):
            if kind == "assign":
                rv = payload
                if rv["k"] == "agg" and rv.get("adt") == "std::task::Poll" and rv.get("variant") == "Pending":
                    pend_locs.append(loc)
                else:
                    e = b.expr_of_rv(rv, 10, ())
                    if wakers.forwarded_site(e, site_by_loc):
                        pend_locs.append(loc)
            elif kind == "call" and loc in site_by_loc:
                pend_locs.append(loc)
        for name, with_diffs in holders:
            for loc in pend_locs:
                n += 1
                facts = conds.bare(conds.dominating_facts(b, loc[0]))
                if with_diffs is None:
                    ok = any(fc[0] == "truth" and fc[2] is True and fc[1][0] == "call" and ecall_matches(fc[1], r"::is_empty$") and mentions_field(fc[1], name) for fc in facts) or \
                        any(bl in b.blocks and False for bl in ())
                    # .. or the field was emptied (mem::take / drain / clear) on the way here and not refilled
                    if not ok:
                        takes = [blk for blk, t in b.calls(r"^std::mem::take$|::clear$|::drain$") if t["args"] and mentions_field(b.expr_of_op(t["args"][0]), name)]
                        writes = [l2[0] for l2, s_ in assigns_to_field(b, name)]
                        ok = bool(takes) and any(b.dominates(tb, loc[0]) for tb in takes) and not any(w in b.reachable_from(tb) and loc[0] in b.reachable_from(w) for tb in takes for w in writes)
                else:
                    vs = [fc for fc in facts if fc[0] == "variant" and mentions_field(fc[1], name)]
                    ok = bool(vs) and all(not (fc[2] & with_diffs) for fc in vs)
                ctx.verdict(ok, "R14.5", f, "pending-with-parked-diffs:%s" % name, b.line_at(loc), "a Pending answer is only reachable where `%s` holds no diffs" % name,
                            "`%s` can answer Pending while `%s` still holds diffs that were already taken out of the channel (they are only looked at after a *new* message has arrived): the task is not woken for them - "
                            "a subscriber that polls until Pending has not seen every update although nothing further will happen" % (f.path, name))
    return n
