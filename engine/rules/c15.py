"""C15 — a fixed-limit Head/Tail view never exceeds its limit, even between two diffs."""
import re
from ..facts import strip, ecall_matches, contains, find_all, fmt, mentions_field, has_arith, local_depends_on
from .. import conds
from .common import *
from .vecdiff import *
from .adapters import *

CRATES = (UT,)

META = {
    "explanation": (
        "Static decision on MIR of the Head and Tail translators (22 arms): R15.1 room before entry - a set-of-states walk over every path of every arm "
        "classifies emitted units as shrinking (Pop*, Remove, Truncate, Clear; a repeat(..).take(n) group is one unit), growing (Push*, Insert, Append) "
        "or neutral; a growing unit is allowed only after a shrinking unit on the same path or once the path has passed an edge establishing "
        "prev_len < limit (view not full). Anything else takes a full view above its limit for one diff - the property's own wording. R15.1b the "
        "length the translator judges fullness by is read inside the per-diff closure (not hoisted out of it, where it is stale for batches). "
        "R15.2 the initial values of Head/Tail/Skip constructors depend on the limit/count through truncate / truncate_from_end / skeep. Whether a "
        "shrinking group has enough elements is arithmetic and not judged."),
    "trusted_base": ["imbl::Vector::truncate / split_at / skip", "rustc MIR construction"],
    "assumptions": [],
    "not_decided": "nothing arithmetic any more for the translators (R15.6 decides the running length exactly); the update functions only change the view between two polls and are covered by R09.12",
}
META["technique"] = "static analysis: dominance / provenance / typestate rules over rustc MIR facts (rustc_private driver) + path-partitioned abstract interpretation in a linear-inequality domain (view-length balance; Fourier-Motzkin emptiness, no execution, no external solver)"
META["explanation"] += " R15.5 a Reset emitted by the Head / Tail translators is cut to the limit (truncate / take / local cutting helper with a limit-dependent argument, or skip relative to the skipped vector's own length; a skip position computed from the previous length in a length-changing arm is a violation)."
META["explanation"] += " R15.6 (balance.py, the same abstract interpretation as R09.12): after every emitted diff of every path of every arm the running length of the consumer's view is at most L in every feasible case; where it decides an arm, the syntactic R15.1 is subordinate to it. R09.14 (no untranslated forward of a source item) is evaluated here as well."
META["explanation"] += ' R15.7 the local helper Tail cuts whole vectors with returns the part after the split position on every path (split_at(..).1, the value split_off returns, skip) - never what split_off / truncate left in place.'
META["explanation"] += ' Shared with C12: R12.5 (the adapter handed to the next stage keeps its replica: the limit is enforced from it).'
META["explanation"] += ' Shared with C12: R12.4 (the adapter handed on drops the diffs it has already folded into the view).'


def run(ctx):
    F = ctx.facts
    ads = find_adapters(F)
    register_roles(ctx, ads)
    n = 0
    for name in ("head", "tail"):
        a = ads[name]
        if a.translator is None:
            ctx.missing("R15.1", "translator (handle_diff) of %s" % name)
            continue
        from . import balance
        balance.run_adapter(ctx, a, want=("bound", "balance"))   # the bound relies on the adapter and the consumer agreeing on the view length
        n += r15_1(ctx, a)
        per_diff_length(ctx, "R15.1b", a)
        r15_34(ctx, a)
        r15_5(ctx, a)
    ctx.floor("R15.1", n, 22)
    r15_2(ctx)
    r15_7(ctx, ads)
    # the bound also rests on the Head/Tail structural rules and on the order in which buffered diffs leave
    from . import groups, c09 as _c09
    for _n in ("head", "tail"):
        _a = ads[_n]
        if None not in (_a.translator, _a.poll, _a.update, _a.closure):
            _c09.r09_3(ctx, _a)
            _c09.r09_5(ctx, _a)
            _c09.r09_8(ctx, _a)
            _c09.r09_14(ctx, _a)
    groups.util_buffers(ctx)
    # an adapter handed to the next stage keeps its replica: the PopBack / PopFront that enforce the limit are computed from it
    from . import c12 as _c12
    _c12.r12_5(ctx)
    _c12.r12_6(ctx)   # the hand-over cuts a Tail's replica at len - limit
    _c12.r12_4(ctx)   # .. and drops the diffs it has already folded into the view it hands over (replayed, they push the view past its limit)



def r15_1(ctx, a):
    f = a.translator
    b = f.built
    sw, info, arms = arms_of(b)
    ev = {}
    for blk, kind, vs, e, cnt in emits(b):
        ev[blk] = (kind, vs)
    LIMIT, PREV = 2, 3

    def is_prev(e):
        x = strip(e)
        return x[0] == "param" and x[1] == PREV

    def is_lim(e):
        x = strip(e)
        return x[0] == "param" and x[1] == LIMIT
    n = 0
    for v in VARIANTS:
        if v not in arms:
            continue
        n += 1
        start = arms[v]
        bad = []

        def transfer(blk, st):
            room, notfull = st
            if blk in ev:
                kind, vs = ev[blk]
                cls = set()
                for x in vs:
                    cls.add("g" if x in GROW else "s" if x in SHRINK else "n")
                if "s" in cls and "g" not in cls:
                    room = 1
                elif "g" in cls:
                    if room:
                        room = 0
                    elif notfull:
                        pass
                    else:
                        bad.append((blk, vs))
            return [(room, notfull)]

        def edge(bk, nx, st):
            room, notfull = st
            fs = conds.edge_facts(b, bk, nx)
            if fs and conds.cmp_holds(fs, "Lt", is_prev, is_lim):
                notfull = 1
            return (room, notfull)
        # facts dominating the arm entry (e.g. the early `limit == 0` return) do not establish room
        forward_states(b, (0, 0), transfer, start=start, edge_filter=edge)
        where = b.line_at((start, 0))
        exact = getattr(ctx, "balance_verdicts", {}).get((a.name, "bound", v))
        if bad and exact == "HOLDS":
            # the guard is not in a form this syntactic rule recognises, but the exact analysis (R15.6: running view length in
            # every feasible case of every path) proves the bound for this arm
            ctx.undecided("R15.1", f, "arm=%s" % v, where, "room-before-entry not recognised syntactically; the bound itself is decided by R15.6")
        elif bad:
            blk, vs = bad[0]
            ctx.violated("R15.1", f, "arm=%s" % v, b.line_at((blk, 10 ** 6)),
                         "%s translator, arm %s: a growing diff (%s) is emitted on a path with no preceding shrinking diff and no `prev_len < limit` edge: a full view holds limit+1 items after this diff" % (a.name, v, "/".join(vs)))
        else:
            ctx.holds("R15.1", f, "arm=%s" % v, where, "every growing diff in arm %s follows a shrinking unit or a not-full edge" % v)
    return n


def per_diff_length(ctx, rule, a):
    """the prev_len / limit handed to the translator are evaluated inside the per-diff closure, before apply."""
    F = ctx.facts
    c = a.closure
    if c is None or a.translator is None:
        ctx.missing(rule, "per-diff closure of %s" % a.name)
        return
    b = inl(F, c, a.translator)
    tcalls = [(blk, t) for blk, t in b.calls() if F.local_callee(c, t) is a.translator]
    applies = [blk for blk, t in b.calls(r"VectorDiff::<.*>::apply$")]
    nested = None
    if not tcalls:
        # the translator may be called from a closure nested in the per-diff closure (e.g. count.map_or_else(.., |count| handle_diff(..)))
        for nc in F.children.get(c.key, []):
            if nc.built and any(F.local_callee(nc, t) is a.translator for _, t in nc.built.calls()):
                nested = nc
        if nested is None:
            ctx.violated(rule, c, "translator-called-per-diff", c.loc(), "the per-diff closure of %s never calls the translator" % a.name)
            return
        nb = nested.built
        for blk, t in nb.calls():
            if F.local_callee(nested, t) is not a.translator:
                continue
            x = strip(nb.expr_of_op(t["args"][2]), through_calls=False)
            # a captured variable: resolve it to the enclosing per-diff closure's local of that name
            src = None
            if x[0] == "field":
                for i, l in enumerate(b.locals):
                    if l["name"] == x[2]:
                        src = strip(b.expr_of_local(i), through_calls=False)
            if src is not None and src[0] == "call" and ecall_matches(src, r"::len$"):
                ctx.holds(rule, c, "length-read-per-diff", nb.line_at((blk, 10 ** 6)), "prev_len is the per-diff closure's local `%s` = buffered_vector.len()" % x[2])
            else:
                ctx.undecided(rule, c, "length-read-per-diff", nb.line_at((blk, 10 ** 6)), "translator called from a nested closure; provenance of prev_len not resolved")
        return
    for blk, t in tcalls:
        e = b.expr_of_op(t["args"][2])  # prev_len
        x = strip(e, through_calls=False)
        where = b.line_at((blk, 10 ** 6))
        if x[0] == "call" and ecall_matches(x, r"::len$") and mentions_field(x[3][0], "buffered_vector") or (x[0] == "call" and ecall_matches(x, r"::len$")):
            lloc = x[4]
            before = all(b.loc_dominates(lloc, (ab, 10 ** 6)) and lloc[0] != ab or lloc[0] < ab for ab in applies) if applies else True
            ctx.verdict(before, rule, c, "length-read-per-diff", where, "prev_len = buffered_vector.len() read in the closure before apply",
                        "the length given to the translator is read after the diff was applied to the replica")
        elif x[0] == "field" and x[1][0] in ("param", "deref") and not contains(x, lambda y: y[0] == "call"):
            ctx.violated(rule, c, "length-read-per-diff", where,
                         "the `previous length` given to the %s translator is the captured value `%s`, computed once per polled item outside the per-diff closure: for a batch of several diffs every diff after the first is judged against a stale length (full/not-full, indices and free space are wrong)" % (a.name, fmt(x, 3)))
        else:
            ctx.undecided(rule, c, "length-read-per-diff", where, "provenance of prev_len not recognised: %s" % fmt(e, 4))


def r15_2(ctx):
    F = ctx.facts
    want = {"head": (r"::truncate$", "dynamic_with_initial_limit"), "tail": (r"truncate_from_end$", "dynamic_with_initial_limit"), "skip": (r"::skeep$|::skip$", "dynamic_with_initial_count")}
    n = 0
    for name, (pat, ctor) in want.items():
        fs = [f for f in F.find(crate=UT, name=ctor) if f.path.startswith("vector::%s::" % name)]
        if not fs:
            ctx.missing("R15.2", "vector::%s::..::%s" % (name, ctor))
            continue
        f = fs[0]
        b = f.built
        n += 1
        # returned tuple's first component
        e = ret_expr(b)
        first = e[5][0] if e[0] == "agg" and e[1] == "tuple" else e
        cuts = b.calls(pat)
        dep = False
        for blk, t in cuts:
            if any(contains(b.expr_of_op(a), lambda x: x[0] == "param" and x[1] == 3) for a in t["args"][1:]):
                # the cut acts on the returned vector (receiver is the local that is returned, or its result is returned)
                dep = True
        uses_param = contains(first, lambda x: x[0] == "param" and x[1] == 3) or dep
        ctx.verdict(uses_param, "R15.2", f, "initial-values-cut-to-parameter", f.loc(), "the returned initial values are cut with the %s parameter (%s)" % ("count" if name == "skip" else "limit", pat),
                    "`%s` returns the initial values without cutting them to the initial %s: the view starts above its bound" % (f.path, "count" if name == "skip" else "limit"))
    ctx.floor("R15.2", n, 3)


def r15_34(ctx, a):
    """R15.3 a growing group is not larger than the shrinking group that made room for it; R15.4 nothing grows while limit may be 0."""
    f = a.translator
    b = f.built
    sw, info, arms = arms_of(b)
    LIMIT, PREV = 2, 3
    evs = emits(b)
    # R15.4
    for blk, kind, vs, e, cnt in evs:
        if not (set(vs) & GROW):
            continue
        facts = conds.dominating_facts(b, blk)
        is_lim = lambda x: strip(x)[0] == "param" and strip(x)[1] == LIMIT
        anyx = lambda x: True
        pos = (conds.cmp_holds(facts, "Ne", is_lim, lambda x: is_const_int(x, 0)) or conds.cmp_holds(facts, "Gt", is_lim, anyx) or conds.cmp_holds(facts, "Lt", anyx, is_lim)
               or conds.cmp_holds(facts, "Ge", is_lim, lambda x: is_const_int(x) and strip(x)[3] >= 1))
        ctx.verdict(pos, "R15.4", f, "no-growth-at-limit-0:%s" % "/".join(sorted(set(vs) & GROW)), b.line_at((blk, 10 ** 6)),
                    "the growing diff is emitted only where limit >= 1 is established",
                    "%s translator: `%s` can be emitted while the limit is 0 (no dominating test excludes limit == 0): a view with limit 0 would hold an item" % (a.name, "/".join(sorted(set(vs) & GROW))))
    # R15.3: extend-groups in one arm
    for v, t in arms.items():
        region = arm_region(b, sw, t)
        groups_ = [(blk, kind, vs, e, cnt) for blk, kind, vs, e, cnt in evs if blk in region and kind == "extend" and cnt is not None]
        shr = [g for g in groups_ if set(g[2]) & SHRINK]
        gro = [g for g in groups_ if set(g[2]) & GROW]
        for g in gro:
            for s_ in shr:
                if not b.dominates(s_[0], g[0]):
                    continue
                gc, sc = strip(g[4]), strip(s_[4])
                where = b.line_at((g[0], 10 ** 6))
                if gc == sc or fmt(gc, 8) == fmt(sc, 8):
                    ctx.holds("R15.3", f, "growth<=room:%s" % v, where, "the growing group has exactly the multiplicity of the shrinking group (`%s`)" % fmt(gc, 3))
                elif sc[0] == "call" and isinstance(sc[1], str) and sc[1].endswith("cmp::min") and len(sc[3]) == 2 and any(fmt(strip(x), 8) == fmt(gc, 8) for x in sc[3]) \
                        and any(strip(x)[0] == "param" and strip(x)[1] == LIMIT for x in sc[3]):
                    ctx.violated("R15.3", f, "growth<=room:%s" % v, where,
                                 "%s translator, arm %s: room is made for min(limit, n) items but n = `%s` items are pushed back: when more than `limit` items are affected the view is refilled beyond its limit" % (a.name, v, fmt(gc, 3)))
                else:
                    ctx.undecided("R15.3", f, "growth<=room:%s" % v, where, "multiplicities `%s` (grow) and `%s` (shrink) not comparable" % (fmt(gc, 3), fmt(sc, 3)))


LEN_CHANGING = {"Append", "Clear", "PushFront", "PushBack", "PopFront", "PopBack", "Insert", "Remove", "Truncate", "Reset"}


def r15_5(ctx, a):
    """a Reset emitted by Head / Tail replaces the consumer's view wholesale, so its payload is cut to the limit: it passes
    through truncate / take / a local cutting helper with a limit-dependent argument, or through `skip(n)` with
    n = len(of that same vector) - limit. A `skip` whose position is computed from the *previous* length while the skipped
    vector already contains the diff (length-changing arms) keeps more than `limit` items."""
    F = ctx.facts
    f = a.translator
    b = f.built
    sw, info, arms = arms_of(b)
    LIMIT, PREV = 2, 3
    lim = lambda x: x[0] == "param" and x[1] == LIMIT
    n = 0
    for v, t in arms.items():
        region = arm_region(b, sw, t)
        for loc, s in b.iter_stmts(sorted(region)):
            if not (s["k"] == "assign" and s["rv"]["k"] == "agg" and s["rv"].get("variant") == "Reset" and (s["rv"].get("adt") or "").endswith("VectorDiff")):
                continue
            n += 1
            op = s["rv"]["ops"][0]
            e = b.expr_of_op(op)
            where = b.line_at(loc)
            key = "reset-cut-to-limit:%s" % v
            dep = contains(e, lim)
            if not dep and op["k"] in ("move", "copy"):
                dep = local_depends_on(b, op["place"]["l"], lim) if not op["place"]["proj"] else dep
                if not dep:
                    x = strip(e)
                    # in-place cut of the matched payload: `values.truncate(limit)` before the aggregate
                    for blk2, t2 in b.calls(r"::(truncate|split_off)$", blocks=sorted(region)):
                        if contains(b.expr_of_op(t2["args"][0]), lambda y: y == x) or fmt(strip(b.expr_of_op(t2["args"][0])), 6) == fmt(x, 6):
                            if any(contains(b.expr_of_op(a_), lim) for a_ in t2["args"][1:]) and b.dominates(blk2, loc[0]):
                                dep = True
            skips = find_all(e, lambda y: y[0] == "call" and ecall_matches(y, r"GenericVector::<.*>::skip$"))
            cuts = find_all(e, lambda y: y[0] == "call" and (ecall_matches(y, r"::(truncate|take)$") or (F.fns.get(UT + "::" + str(y[2] or y[1])) is not None)) and any(contains(z, lim) for z in y[3][1:]))
            if cuts or (dep and not skips):
                ctx.holds("R15.5", f, key, where, "the Reset payload is cut with the limit (%s)" % fmt(e, 4))
            elif skips:
                pos = skips[0][3][1]
                has_len = contains(pos, lambda y: y[0] == "call" and ecall_matches(y, r"::len$"))
                uses_prev = contains(pos, lambda y: y[0] == "param" and y[1] == PREV)
                if contains(pos, lim) and has_len:
                    ctx.holds("R15.5", f, key, where, "skip position `%s` is relative to the vector's own length" % fmt(pos, 4))
                elif contains(pos, lim) and uses_prev and v in LEN_CHANGING:
                    ctx.violated("R15.5", f, key, where,
                                 "%s translator, arm %s: the emitted Reset carries `%s`, whose start is computed from the length *before* this %s while the skipped vector already contains it: the consumer's view is replaced by more than `limit` items" % (
                                     a.name, v, fmt(e, 4), v))
                else:
                    ctx.undecided("R15.5", f, key, where, "skip position `%s` not recognised" % fmt(pos, 4))
            elif not contains(e, lambda y: y[0] in ("unknown", "local", "cycle", "undef")):
                ctx.violated("R15.5", f, key, where, "%s translator, arm %s: the emitted Reset carries `%s`, which does not depend on the limit: the consumer's view is replaced by the unlimited contents" % (a.name, v, fmt(e, 4)))
            else:
                ctx.undecided("R15.5", f, key, where, "payload `%s` not recognised" % fmt(e, 4))
    ctx.floor("R15.5", n, 1)



def r15_7(ctx, ads):
    """the local helper Tail cuts whole vectors with (initial values, Reset, Append) keeps the LAST items: on every return the result is
    the part after the split position (`split_at(..).1`, the value `split_off` returns, `skip(..)`, or the vector after popping
    from the front) - never the vector that `split_off` / `truncate` / `take` left behind, which is the first items."""
    F = ctx.facts
    a = ads.get("tail")
    if a is None or a.translator is None:
        return
    mod = a.translator.path.rsplit("::", 1)[0]
    n = 0
    for g in F.find(crate=UT):
        sig = g.raw.get("sig") or {}
        ins = sig.get("inputs") or []
        if not g.built or g.kind == "closure" or g.file != a.translator.file:
            continue
        if len(ins) != 2 or not ins[0].startswith("imbl::GenericVector<") or ins[1] != "usize" or not (sig.get("output") or "").startswith("imbl::GenericVector<"):
            continue
        b = g.built
        front_cut = [blk for blk, t in b.calls(r"GenericVector::<.*>::(split_off|truncate|pop_back)$") if t["args"] and strip(b.expr_of_op(t["args"][0]))[0] == "param"]
        for loc, kind, payload in blocks_assigning_ret(b):
            e = b.expr_of_rv(payload, 8, (), loc) if kind == "assign" else b.expr_of_call(payload, 8, (), loc)
            x = strip(e, through_calls=False)
            where = b.line_at(loc)
            n += 1
            verdict = None
            why = ""
            sa = find_all(e, lambda y: y[0] == "call" and ecall_matches(y, r"GenericVector::<.*>::split_at$"))
            if sa:
                half = x[2] if x[0] == "field" else None
                if half == "1":
                    verdict, why = True, "the second half of split_at"
                elif half == "0":
                    verdict, why = False, "the FIRST half of split_at"
            elif x[0] == "call" and ecall_matches(x, r"GenericVector::<.*>::(split_off|skip)$"):
                verdict, why = True, "the part after the position (%s)" % x[1].split("::")[-1]
            elif x[0] == "call" and ecall_matches(x, r"GenericVector::<.*>::take$"):
                verdict, why = False, "`take`, i.e. the first items"
            elif x[0] == "param" and x[1] == 1:
                cut = [c for c in front_cut if b.dominates(c, loc[0]) or c in b.reachable_from(0) and loc[0] in b.reachable_from(c)]
                if cut:
                    verdict, why = False, "what `%s` left in place, i.e. the first items" % (b.term(cut[0]).get("callee") or "").split("::")[-1]
                else:
                    verdict, why = True, "the vector itself (nothing cut from its end on this path)"
            elif x[0] == "call" and ecall_matches(x, r"GenericVector::<.*>::new$"):
                verdict, why = True, "an empty vector"
            if verdict is None:
                ctx.undecided("R15.7", g, "cut-keeps-the-last-items", where, "returned value not recognised: %s" % fmt(e, 3))
            elif verdict:
                ctx.holds("R15.7", g, "cut-keeps-the-last-items", where, "returns %s" % why)
            else:
                ctx.violated("R15.7", g, "cut-keeps-the-last-items", where,
                             "`%s` (the helper Tail cuts initial values / Reset / Append payloads with) returns %s: the view then holds the first `len - limit` items - more than the limit whenever len > 2 * limit - instead of the last `limit`" % (g.path, why))
    if n == 0:
        ctx.holds("R15.7", None, "cut-keeps-the-last-items", None, "Tail has no local cutting helper (cuts are made in place and decided by R15.5 / the balance analysis)")
