"""C05 — replaying a subscriber's diffs reproduces each vector state, step by step."""
import re
from ..facts import strip, ecall_matches, contains, find_all, fmt, mentions_field, mentions_call, has_arith
from .. import conds
from .common import *
from .vecdiff import *

WITNESSES = ["W05"]

CRATES = (IM,)

META = {
    "explanation": (
        "Static decision on MIR of how every mutator of ObservableVector and of ObservableVectorTransaction publishes: R05.1 writer/reader table "
        "agreement - the imbl method applied to the contents and the VectorDiff variant handed to the publication function must be the pair that "
        "VectorDiff::apply (read on every run) maps onto each other, with every argument and the matching diff field carrying the same parameter "
        "with no arithmetic in between; R05.2 set-of-states dataflow over every path: exactly one publication after the mutation on mutating paths, "
        "none otherwise; R05.3 polarity of the documented no-op guards (clear on empty, pop on empty, truncate to >= len); R05.4 subscribe builds the "
        "subscriber from values.clone() and sender.subscribe() within one &self call; R05.5 in-order unpacking of Many messages and in-order "
        "concatenation in the batched stream (known-bad reversing idioms flagged); R05.6 no DerefMut on vector/transaction/entries (+ compile_fail "
        "witness). Delivery order of tokio's broadcast channel is trusted."),
    "trusted_base": ["tokio::sync::broadcast delivers messages in send order to every receiver", "imbl::Vector methods behave as documented", "rustc MIR construction"],
    "assumptions": [],
    "not_decided": "that tokio delivers independently of polling; equality of element values (T: Clone is assumed faithful)",
}
META["explanation"] += ' R05.9 the Vec the batched stream accumulates for one item is only ever grown (no clear / truncate / pop / drain of received diffs).'
META["explanation"] += ' R05.11 every public mutator publishes before it returns (publication call post-dominates the structural change). R05.12 who-may-create-a-receiver: Sender::subscribe only in ObservableVector::subscribe (next to the snapshot), Receiver::resubscribe nowhere. R05.1 also accepts a diff built on two branches when both alternatives pair with the method.'
META["explanation"] += ' R05.9 also requires the collected batch to grow at its back only (no swap / replace / insert / reverse of it).'
META["explanation"] += ' R05.5 (c) while the plain stream holds the rest of a multi-diff message, that state is left only where its iterator is known to be exhausted. Shared in the im_core group: R06.3 (a Reset is built only under a Lagged edge - anywhere in the crate, not only in the subscriber module).'
META["explanation"] += ' Shared with C14: the waker typestate of the eyeball-im poll functions (a subscriber polled only when woken receives the same diffs), incl. the locally-owned-input clause for a forwarded poll result.'

VEC_T = "vector::ObservableVector<T>"
TXN_T = "vector::transaction::ObservableVectorTransaction<'o, T>"
UNCOND = {"append", "push_front", "push_back", "insert", "set", "remove"}
GUARDED = {"clear", "truncate"}
POPS = {"pop_front", "pop_back"}
VARIANT_OF = {"append": "Append", "clear": "Clear", "push_front": "PushFront", "push_back": "PushBack", "pop_front": "PopFront",
              "pop_back": "PopBack", "insert": "Insert", "set": "Set", "remove": "Remove", "truncate": "Truncate"}


def publication_fns(F):
    """role: vector -> the private fn that calls Sender::send with a One message; txn -> fn pushing onto `batch`."""
    vec, txn = [], []
    for f in F.find(crate=IM):
        st = f.raw.get("self_ty") or ""
        b = f.built
        if not b or f.vis == "pub":
            continue
        if st == VEC_T and reaches_send(F, f) and any("VectorDiff<" in b.locals[i]["ty"] and "OneOrManyDiffs" not in b.locals[i]["ty"] and "Vec<" not in b.locals[i]["ty"] for i in range(1, b.arg_count + 1)):
            vec.append(f)
        if st.startswith("vector::transaction::ObservableVectorTransaction<") and any(mentions_field(b.expr_of_op(t["args"][0]), "batch") for _, t in b.calls(r"^std::vec::Vec::<.*>::push$")):
            txn.append(f)
    return vec, txn


def reaches_send(F, f, depth=3):
    """f (or a private helper it calls) sends on the broadcast channel."""
    b = f.built
    if not b:
        return False
    if b.calls(r"broadcast::Sender::<.*>::send$"):
        return True
    if depth <= 0:
        return False
    for blk, t in b.calls():
        c = F.local_callee(f, t)
        if c is not None and c is not f and not default_keep(c) and reaches_send(F, c, depth - 1):
            return True
    return False


def mutators(F, self_prefix):
    out = []
    for f in F.find(crate=IM):
        st = f.raw.get("self_ty") or ""
        if f.vis != "pub" or f.raw.get("impl_trait") or not st.startswith(self_prefix):
            continue
        if f.name in VARIANT_OF:
            out.append(f)
    return out


def values_mutations(body):
    """[(blk, term, method)] of mutating imbl calls whose receiver is &mut self.values"""
    out = []
    for blk, t in body.calls(IMBL):
        m = imbl_method(t)
        if m not in MUTATING:
            continue
        a0 = t["args"][0]
        if a0["k"] in ("move", "copy") and body.locals[a0["place"]["l"]]["ty"].startswith("&mut") and mentions_field(body.expr_of_op(a0), "values"):
            out.append((blk, t, m))
    return out


def run(ctx):
    F = ctx.facts
    af, table = apply_table(F)
    if af is None or not table:
        ctx.missing("R05.1", "vector::VectorDiff::<T>::apply (reader table)")
        return
    ctx.touch(af)
    vec_pub, txn_pub = publication_fns(F)
    if len(vec_pub) != 1:
        ctx.missing("R05.1", "publication function of ObservableVector (role: calls Sender::send) - found %d" % len(vec_pub))
        return
    if len(txn_pub) != 1:
        ctx.missing("R05.1", "add-to-batch function of the transaction (role: pushes onto `batch`) - found %d" % len(txn_pub))
        return
    n = 0
    for prefix, pub in (("vector::ObservableVector<", vec_pub[0]), ("vector::transaction::ObservableVectorTransaction<", txn_pub[0])):
        for f in mutators(F, prefix):
            n += 1
            check_mutator(ctx, f, pub, table)
    ctx.floor("R05.1", n, 20)
    r05_4(ctx)
    r05_12(ctx)
    r05_5(ctx)
    r05_6(ctx)
    r05_8(ctx)
    # shared clauses: recorded diffs are never discarded without a replacing Clear (C07/R07.3),
    # a received batch is delivered before the end of the stream (C08/R08.3)
    from . import c07, c08
    from .c06 import find_lag_handler
    c07.r07_3(ctx, c07.txn_fns(F), txn_pub)
    lag = find_lag_handler(F)
    if lag is not None:
        c08.r08_3(ctx, c08.stream_fns(F), lag)
    from . import groups
    groups.im_core(ctx)
    from . import c14
    c14.im_stream_typestate(ctx)   # a subscriber that is only polled when woken receives the same diffs: no Pending without a live registration



def check_mutator(ctx, f, pub, table):
    F = ctx.facts
    b = inl(F, f, pub)
    muts = values_mutations(b)
    pubs = [(blk, t) for blk, t in b.calls() if F.local_callee(f, t) is pub]
    ctx.call_sites += len(muts) + len(pubs)
    name = f.name
    want_variant = VARIANT_OF[name]
    # ---- R05.1 table agreement ------------------------------------------------
    for pblk, pt in pubs:
        d = strip(b.expr_of_op(pt["args"][1]), through_calls=False)
        if d[0] == "agg" and d[1] == "adt" and d[2].endswith("OneOrManyDiffs") and d[3] == "One" and d[5]:
            d = strip(d[5][0], through_calls=False)  # the publication helper takes the message payload: look inside One(..)
        v = diff_agg_variant(d)
        where = b.line_at((pblk, 10 ** 6))
        if v is None and d[0] == "phi":
            # the published diff is chosen in branches (`if index == 0 { PopFront } else if .. { PopBack } else { Remove { index } }`):
            # every alternative must be what `apply` does for the mutation performed, or an equivalent under a dominating
            # equality that was established on the contents *before* the mutation
            alts = [x for x in find_all(d, lambda y: diff_agg_variant(y) is not None)]
            doms0 = [(mb, mt, m) for mb, mt, m in muts if b.dominates(mb, pblk)]
            if alts and doms0:
                mb, mt, m = doms0[-1]
                bad_alt = None
                und_alt = None
                for alt in alts:
                    av = alt[3]
                    ent = table.get(av)
                    if ent and ent[0] == m:
                        continue
                    aloc = alt[6]
                    facts = conds.dominating_facts(b, aloc[0]) if aloc else []
                    is_idx = lambda e: strip(e)[0] == "param" and strip(e)[1] >= 2
                    if m in ("remove", "insert") and av in ("PopFront", "PushFront"):
                        if conds.cmp_holds(facts, "Eq", is_idx, lambda e: is_const_int(e, 0)):
                            continue
                        bad_alt = "`%s` although nothing establishes index == 0" % av
                    elif m in ("remove", "insert") and av in ("PopBack", "PushBack"):
                        # index (+1) == len, with the length read before the mutation
                        lens = []
                        for s_, t_, fct in facts:
                            if fct[0] == "cmp" and fct[1] == "Eq":
                                for side in (fct[2], fct[3]):
                                    lens += find_all(side, lambda y: y[0] == "call" and ecall_matches(y, r"::len$"))
                        if not lens:
                            und_alt = "`%s` under an unrecognised guard" % av
                        elif any(c_[4] is not None and not b.dominates(c_[4][0], mb) for c_ in lens):
                            bad_alt = "`%s` when the index equals a length that is read *after* the `%s` was applied (one less / more than before): the wrong element is reported" % (av, m)
                        else:
                            continue
                    else:
                        bad_alt = "`VectorDiff::%s` for a `%s`" % (av, m)
                if bad_alt:
                    ctx.violated("R05.1", f, "variant<->method", where, "`%s` applies `%s` to the contents but can publish %s: replicas diverge" % (f.path, m, bad_alt))
                elif und_alt:
                    ctx.undecided("R05.1", f, "diff-variant", where, und_alt)
                else:
                    ctx.holds("R05.1", f, "table-agreement", where, "every alternative of the published diff is `%s` or an equivalent under an equality established before the mutation" % m)
                continue
        if v is None:
            ctx.undecided("R05.1", f, "diff-variant", where, "published diff is not a literal VectorDiff aggregate: %s" % fmt(d, 4))
            continue
        entry = table.get(v)
        if not entry:
            ctx.undecided("R05.1", f, "diff-variant", where, "variant %s has no entry in the reader table" % v)
            continue
        method, fields, _ = entry
        # the mutation this publication follows: nearest mutation that dominates the publication
        doms = [(mb, mt, m) for mb, mt, m in muts if b.dominates(mb, pblk)]
        if not doms:
            ctx.violated("R05.1", f, "published-without-mutation", where, "`%s` publishes %s on a path that has not applied any mutation to the contents" % (f.path, v))
            continue
        mb, mt, m = doms[-1]
        if m != method:
            ctx.violated("R05.1", f, "variant<->method", where,
                         "`%s` applies `%s` to the contents but publishes `VectorDiff::%s`, which replicas apply as `%s`: replicas diverge" % (f.path, m, v, method))
            continue
        ok = True
        for i, fld in enumerate(fields):
            if i + 1 >= len(mt["args"]):
                break
            ae = b.expr_of_op(mt["args"][i + 1])
            de = agg_field(d, fld)
            if de is None:
                continue
            if not same_param_no_arith(ae, de):
                ok = False
                ctx.violated("R05.1", f, "operand:%s" % fld, where,
                             "`%s`: contents get `%s(%s)` but the diff carries `%s: %s` - not the same parameter unmodified" % (f.path, m, fmt(ae, 4), fld, fmt(de, 4)))
        if ok:
            ctx.holds("R05.1", f, "table-agreement", where, "contents.%s(..) <-> VectorDiff::%s {%s}: same method as VectorDiff::apply, operands are the same parameters" % (m, v, ", ".join(fields)))
    # ---- R05.2 exactly one publication, after the mutation -----------------------
    mblks = {mb for mb, _, _ in muts}
    pblks = {pb for pb, _ in pubs}

    def transfer(blk, st):
        m_, p_, bad = st
        if blk in mblks:
            m_ = 1
        if blk in pblks:
            if not m_:
                bad = 1
            p_ = min(2, p_ + 1)
        return [(m_, p_, bad)]
    ins, outs = forward_states(b, (0, 0, 0), transfer)
    finals = set()
    for rb in b.return_blocks():
        finals |= outs.get(rb, set())
    where = f.loc()
    probs = []
    is_txn = (f.raw.get("self_ty") or "").startswith("vector::transaction::ObservableVectorTransaction<")
    wipes_batch = any(t["args"] and mentions_field(b.expr_of_op(t["args"][0]), "batch") for blk, t in b.calls(r"::clear$"))
    txn_clear = name == "clear" and is_txn and wipes_batch
    for m_, p_, bad in sorted(finals):
        if bad:
            probs.append("publication before the mutation (subscribers would get a snapshot of the old state)")
        if p_ > 1:
            probs.append("two publications on one path")
        if name in UNCOND and (m_, p_) != (1, 1):
            probs.append("a returning path with mutated=%d published=%d" % (m_, p_))
        if name in GUARDED and m_ != p_ and not (txn_clear and m_ == 1 and p_ == 0):
            # (a transaction's clear that wipes the recorded changes empties its working copy unconditionally and records a Clear
            # only when the committed contents are not empty already: R05.3 judges that guard)
            probs.append("a returning path with mutated=%d published=%d" % (m_, p_))
        if name in POPS and p_ > m_:
            probs.append("published without popping")
    if probs:
        ctx.violated("R05.2", f, "one-publication-per-mutation", where, "`%s`: %s" % (f.path, "; ".join(sorted(set(probs)))))
    else:
        ctx.holds("R05.2", f, "one-publication-per-mutation", where, "states at return (mutated, published, early): %s" % sorted(finals))
    # ---- R05.3 no-op guards ---------------------------------------------------
    if name == "clear" and f.raw.get("self_ty", "").startswith("vector::ObservableVector<"):
        for pblk, pt in pubs:
            facts = conds.bare(conds.dominating_facts(b, pblk))
            tr = [x for x in facts if (x[0] == "truth" and x[1][0] == "call" and ecall_matches(x[1], r"::is_empty$") and mentions_field(x[1][3][0], "values"))]
            ok = bool(tr) and all(x[2] is False for x in tr)
            # evaluated before the clear
            pre = True
            for x in tr:
                loc = x[1][4]
                pre = pre and all(b.loc_dominates(loc, (mb, 10 ** 6)) for mb in mblks)
            if ok and pre:
                ctx.holds("R05.3", f, "noop-guard", b.line_at((pblk, 10 ** 6)), "Clear is published only on the not-empty edge of values.is_empty() evaluated before clearing")
            elif tr:
                ctx.violated("R05.3", f, "noop-guard", b.line_at((pblk, 10 ** 6)), "clear publishes on the *empty* edge (or tests emptiness after clearing): the documented no-op emits a diff / real clears are silent")
            else:
                ctx.violated("R05.3", f, "noop-guard", b.line_at((pblk, 10 ** 6)), "clear publishes a Clear diff even when the vector is already empty")
    if name == "clear" and is_txn:
        # inside a transaction subscribers are at the state from before the transaction. A clear that wipes the recorded changes
        # needs a Clear exactly when that committed state is not empty - whatever the working copy looks like (it may be empty
        # because of recorded pops that the wipe has just forgotten); a clear that keeps the recorded changes is guarded like the
        # direct one, by the working copy before it is cleared
        for pblk, pt in pubs:
            facts = conds.bare(conds.dominating_facts(b, pblk))
            tr = [x for x in facts if (x[0] == "truth" and x[1][0] == "call" and ecall_matches(x[1], r"::is_empty$"))]
            tr_inner = [x for x in tr if mentions_field(x[1][3][0], "inner")]
            tr_work = [x for x in tr if not mentions_field(x[1][3][0], "inner") and mentions_field(x[1][3][0], "values")]
            where_ = b.line_at((pblk, 10 ** 6))
            if wipes_batch:
                if tr_inner and all(x[2] is False for x in tr_inner):
                    ctx.holds("R05.3", f, "noop-guard", where_, "the recorded changes are wiped and Clear is recorded only when the committed contents are not empty")
                elif tr_inner:
                    ctx.violated("R05.3", f, "noop-guard", where_, "`%s` records a Clear on the *empty* edge of the committed contents: the documented no-op publishes a diff, a real clear publishes nothing" % f.path)
                elif tr_work:
                    ctx.violated("R05.3", f, "noop-guard", where_, "`%s` wipes the recorded changes and then decides by the *working copy* whether to record a Clear: after `pop_back` emptied the working copy of a one-item vector the wipe forgets the PopBack and no Clear is recorded - the commit empties the vector and publishes nothing" % f.path)
                else:
                    ctx.violated("R05.3", f, "noop-guard", where_, "`%s` records a Clear even when the vector was already empty before the transaction: committed, the documented no-op `clear on empty` publishes a diff (the direct `clear` has the guard)" % f.path)
            else:
                pre = all(all(b.loc_dominates(x[1][4], (mb, 10 ** 6)) for mb in mblks) for x in tr_work)
                if tr_work and all(x[2] is False for x in tr_work) and pre:
                    ctx.holds("R05.3", f, "noop-guard", where_, "Clear is recorded only when the working copy was not empty before it was cleared")
                else:
                    ctx.violated("R05.3", f, "noop-guard", where_, "`%s` records a Clear without a not-empty guard evaluated before clearing" % f.path)
    if name in POPS:
        for pblk, pt in pubs:
            facts = conds.bare(conds.dominating_facts(b, pblk))
            pop_locs = {(mb, len(b.blocks[mb]["stmts"])) for mb in mblks}
            somes = [x for x in facts if x[0] == "variant" and strip(x[1], through_calls=False)[0] == "call" and strip(x[1], through_calls=False)[4] in pop_locs]
            ok = bool(somes) and all(x[2] == frozenset(["Some"]) for x in somes)
            if ok:
                ctx.holds("R05.3", f, "noop-guard", b.line_at((pblk, 10 ** 6)), "%s is published only when the pop returned Some" % want_variant)
            elif somes:
                ctx.violated("R05.3", f, "noop-guard", b.line_at((pblk, 10 ** 6)), "`%s` publishes on the None edge of the pop result: pop on empty emits a diff replicas cannot apply, real pops are silent" % f.path)
            else:
                ctx.violated("R05.3", f, "noop-guard", b.line_at((pblk, 10 ** 6)), "`%s` publishes regardless of whether anything was popped" % f.path)
    if name == "truncate":
        for pblk, pt in pubs:
            facts = conds.dominating_facts(b, pblk)
            is_len = lambda e: contains(e, lambda x: x[0] == "call" and ecall_matches(x, r"::len$"))
            is_arg = lambda e: strip(e)[0] == "param" and strip(e)[1] == 2
            foreign = lambda e: is_len(e) and mentions_field(e, "inner")
            if conds.cmp_holds(facts, "Lt", is_arg, foreign) or conds.cmp_holds(facts, "Le", is_arg, foreign):
                ctx.violated("R05.3", f, "noop-guard", b.line_at((pblk, 10 ** 6)),
                             "`%s` compares the new length with the length of the *committed* vector (through `inner`), not of the contents it truncates: after the transaction changed the length the documented no-op emits a Truncate / a real truncation is skipped" % f.path)
                continue
            lt = conds.cmp_holds(facts, "Lt", is_arg, is_len)
            le = conds.cmp_holds(facts, "Le", is_arg, is_len)
            if lt:
                ctx.holds("R05.3", f, "noop-guard", b.line_at((pblk, 10 ** 6)), "Truncate is published only on the edge len_arg < values.len()")
            elif le:
                ctx.violated("R05.3", f, "noop-guard", b.line_at((pblk, 10 ** 6)), "truncate to exactly the current length publishes a diff (guard is <=): documented no-op emits")
            else:
                ctx.violated("R05.3", f, "noop-guard", b.line_at((pblk, 10 ** 6)), "truncate publishes without the `len < current length` guard")


def r05_4(ctx):
    F = ctx.facts
    f = F.fn(IM, "vector::ObservableVector::<T>::subscribe")
    if f is None:
        ctx.missing("R05.4", "vector::ObservableVector::<T>::subscribe")
        return
    b = f.built
    first = f.raw["sig"]["inputs"][0]
    ok_sig = first.startswith("&") and not first.startswith("&mut")
    calls = [(blk, t) for blk, t in b.calls() if F.local_callee(f, t) is not None and (F.local_callee(f, t).raw.get("self_ty") or "").startswith("vector::subscriber::VectorSubscriber<")]
    if not calls:
        ctx.undecided("R05.4", f, "snapshot+receiver", f.loc(), "no VectorSubscriber constructor call found")
        return
    blk, t = calls[0]
    e0 = b.expr_of_op(t["args"][0])
    e1 = b.expr_of_op(t["args"][1])
    ok0 = strip(e0)[0] == "field" and strip(e0)[2] == "values" and contains(e0, lambda x: x[0] == "call" and ecall_matches(x, r"Clone>?::clone$"))
    ok1 = contains(e1, lambda x: x[0] == "call" and ecall_matches(x, r"broadcast::Sender::<.*>::subscribe$") and mentions_field(x[3][0], "sender"))
    ctx.verdict(ok_sig and ok0 and ok1, "R05.4", f, "snapshot+receiver", b.line_at((blk, 10 ** 6)),
                "subscribe(&self) builds the subscriber from self.values.clone() and self.sender.subscribe(): no mutator (&mut self) can interleave",
                "subscribe does not pair a clone of the current contents with a fresh receiver of the vector's own sender (values: %s, rx: %s)" % (fmt(e0, 4), fmt(e1, 4)))


def r05_12(ctx):
    """the receiver a stream drains is the one created together with the snapshot: a receiver made anywhere else (`resubscribe`, a
    second `Sender::subscribe`) starts at the channel's tail at that later moment and silently skips what was sent in between."""
    F = ctx.facts
    anchor = F.fn(IM, "vector::ObservableVector::<T>::subscribe")
    n = 0
    for f in F.find(crate=IM):
        b = f.built
        if not b:
            continue
        for blk, t in b.calls(r"broadcast::Sender::<.*>::subscribe$|broadcast::Receiver::<.*>::resubscribe$|broadcast::Sender::<.*>::new_receiver$"):
            n += 1
            root = root_fn(F, f)
            what = (t.get("callee") or "").split("::")[-1]
            ok = root is anchor and what == "subscribe"
            ctx.verdict(ok, "R05.12", root, "receiver-made-with-snapshot:%s" % what, b.line_at((blk, 10 ** 6)), "the only receiver is created in subscribe(&self), next to the snapshot",
                        "`%s` creates a channel receiver through `%s` away from the snapshot: diffs broadcast between the snapshot and this call are never delivered, and no Reset announces it" % (root.path, what))
    ctx.floor("R05.12", n, 1)


REVERSERS = r"Iterator>?::rev$|DoubleEndedIterator>?::next_back$|::reverse$|Vec::<.*>::(swap_remove|pop|remove)$|VecDeque::<.*>::pop_back$"


def r05_5c(ctx, lagh):
    """(c) a multi-diff message is yielded to its end: while the plain stream is in the state that holds the rest of a message (an
    iterator of diffs), that state is replaced only where the iterator is known to be exhausted. Leaving it earlier - "a lag is
    coming anyway", a budget - drops diffs of a received transaction."""
    F = ctx.facts
    for f in F.find(crate=IM, name="poll_next"):
        st = f.raw.get("self_ty") or ""
        if f.raw.get("impl_trait") != "futures_core::Stream" or not st.startswith("vector::subscriber::VectorSubscriberStream<"):
            continue
        b = inl(F, f, lagh, desugar=True, tag="r05.5c") or f.built
        sites = [blk for blk, t in b.calls(r"^std::mem::(replace|take|swap)$") if t["args"] and mentions_field(b.expr_of_op(t["args"][0]), "state")]
        sites += [loc[0] for loc, s_ in assigns_to_field(b, "state")]
        k = 0
        for blk in sorted(set(sites)):
            facts = conds.bare(conds.dominating_facts(b, blk))
            holding = [x for x in facts if x[0] == "variant" and mentions_field(x[1], "state") and not (x[2] <= frozenset(["Recv"]))]
            if not holding:
                continue   # a transition out of the receiving state
            k += 1
            done = any((x[0] == "cmp" and x[1] == "Eq" and contains(x[2], lambda y: y[0] == "call" and ecall_matches(y, r"ExactSizeIterator>?::len$|::len$")) and is_const_int(x[3], 0))
                       or (x[0] == "truth" and x[2] is True and x[1][0] == "call" and ecall_matches(x[1], r"::is_empty$"))
                       or (x[0] == "variant" and x[2] == frozenset(["None"]) and x[1][0] == "call" and ecall_matches(x[1], r"Iterator>?::next$|::pop_front$|::peek$")) for x in facts)
            ctx.verdict(done, "R05.5", f, "message-yielded-to-its-end", b.line_at((blk, 10 ** 6)), "the batch state is left only where its iterator is exhausted",
                        "`%s` leaves the state that holds the rest of a multi-diff message on a path where its iterator is not known to be empty: the remaining diffs of that transaction are dropped, the replica no longer follows the vector" % f.path)
        if not k:
            ctx.undecided("R05.5", f, "message-yielded-to-its-end", f.loc(), "no transition out of a batch-holding state found")


def r05_5(ctx):
    F = ctx.facts
    n = 0
    from .c06 import find_lag_handler
    lagh = find_lag_handler(F)
    r05_5c(ctx, lagh)
    for f in F.find(crate=IM):
        if not f.built:
            continue
        root = root_fn(F, f)
        in_stream = (root.file or "").endswith("vector/subscriber.rs") and root.name == "poll_next"
        of_msg = (root.raw.get("self_ty") or "").startswith("vector::OneOrManyDiffs<") and not root.raw.get("impl_trait")
        if not (in_stream or of_msg):
            continue
        b = inl(F, f, lagh)
        # (a) nothing is taken from the back / reversed while unpacking a multi-diff message
        for blk, t in b.calls(REVERSERS):
            n += 1
            ctx.call_sites += 1
            facts = conds.dominating_facts(b, blk)
            is_len = lambda e: contains(e, lambda x: x[0] == "call" and ecall_matches(x, r"::len$"))
            one = conds.cmp_holds(facts, "Eq", is_len, lambda e: is_const_int(e, 1))
            where = b.line_at((blk, 10 ** 6))
            if one:
                ctx.holds("R05.5", f, "in-order-unpacking", where, "`%s` on a message of exactly one diff (guarded by len() == 1)" % t["callee"].split("::")[-1])
            else:
                ctx.violated("R05.5", f, "in-order-unpacking", where,
                             "`%s` takes diffs from the back / reverses while unpacking a multi-diff message: the subscriber would replay a transaction out of order" % t["callee"])
    # (b) concatenation helper (role: takes a `&mut Vec<VectorDiff>` and a OneOrManyDiffs): later message after earlier ones
    for f in F.find(crate=IM):
        b = f.built
        if not b or f.kind not in ("fn", "assoc"):
            continue
        tys = [b.locals[i]["ty"] for i in range(1, b.arg_count + 1)]
        tgt = [i + 1 for i, t in enumerate(tys) if t.startswith("&mut std::vec::Vec<") and "VectorDiff<" in t]
        src = [i + 1 for i, t in enumerate(tys) if "OneOrManyDiffs<" in t]
        if len(tgt) != 1 or len(src) != 1:
            continue
        for blk, t in b.calls(r"^std::vec::Vec::<.*>::(push|append|extend|insert|extend_from_slice)$"):
            n += 1
            e0 = b.expr_of_op(t["args"][0])
            e1 = b.expr_of_op(t["args"][-1])
            ok = contains(e0, lambda x: x[0] == "param" and x[1] == tgt[0]) and contains(e1, lambda x: x[0] == "param" and x[1] == src[0])
            m = t["callee"].split("::")[-1]
            if m == "insert":
                ctx.violated("R05.5", f, "in-order-concatenation", b.line_at((blk, 10 ** 6)), "the batched stream inserts later diffs before earlier ones")
            else:
                ctx.verdict(ok, "R05.5", f, "in-order-concatenation", b.line_at((blk, 10 ** 6)), "target.%s(source): later message appended after earlier ones" % m,
                            "the batched stream appends the accumulated batch onto the newer message (order of messages reversed)")
    ctx.floor("R05.5", n, 2)


def r05_6(ctx):
    F = ctx.facts
    handles = ("vector::ObservableVector<", "vector::transaction::ObservableVectorTransaction<", "vector::entry::ObservableVectorEntry<",
               "vector::entry::ObservableVectorEntries<", "vector::transaction::ObservableVectorTransactionEntry<", "vector::transaction::ObservableVectorTransactionEntries<")
    bad = False
    for imp in F.impls:
        if imp["crate"] != IM:
            continue
        if imp["trait"] in ("std::ops::DerefMut", "std::convert::AsMut", "std::borrow::BorrowMut", "std::ops::IndexMut") and any(imp["self_ty"].startswith(h) for h in handles):
            bad = True
            ctx.violated("R05.6", imp["path"], "impl=%s for %s" % (imp["trait"], imp["self_ty"]), "%s:%d" % (imp["span"]["file"], imp["span"]["line"]),
                         "`%s` for `%s`: the contents can be mutated without publishing a diff" % (imp["trait"], imp["self_ty"]))
    if not bad:
        ctx.holds("R05.6", None, "no-mutable-escape", None, "no DerefMut/AsMut/BorrowMut/IndexMut impl for the vector, transaction or entry types")
    for f in F.find(crate=IM):
        if f.vis == "pub" and f.raw.get("sig") and any((f.raw.get("self_ty") or "").startswith(h) for h in handles):
            out = f.raw["sig"]["output"]
            if re.search(r"&(?:'\w+ )?mut (imbl::|T\b)", out):
                ctx.violated("R05.6", f, "returns-&mut", f.loc(), "public function returns `%s`" % out)


def r05_8(ctx):
    """changes made through entry / entries / for_each go through the container's own mutators (so they publish like direct calls)."""
    F = ctx.facts
    n = 0
    fam = [("vector::entry::ObservableVectorEntry<", "vector::ObservableVector<"),
           ("vector::transaction::ObservableVectorTransactionEntry<", "vector::transaction::ObservableVectorTransaction<")]
    for entry_p, cont_p in fam:
        for f in F.find(crate=IM):
            st = f.raw.get("self_ty") or ""
            if not st.startswith(entry_p) or not f.built:
                continue
            b = f.built
            # no direct mutation of the contents from an entry
            direct = values_mutations(b)
            for blk, t, m in direct:
                n += 1
                ctx.violated("R05.8", f, "entry-mutates-directly:%s" % m, b.line_at((blk, 10 ** 6)),
                             "entry `%s` applies `%s` to the contents directly: the change is not published as a diff" % (f.path, m))
            if f.name in ("set", "remove") and not f.raw.get("impl_trait"):
                n += 1
                calls = [F.local_callee(f, t) for _, t in b.calls() if F.local_callee(f, t) is not None and (F.local_callee(f, t).raw.get("self_ty") or "").startswith(cont_p) and F.local_callee(f, t).name == f.name]
                ctx.verdict(len(calls) == 1, "R05.8", f, "entry-routes-through-mutator", f.loc(), "entry.%s calls the container's public `%s` exactly once" % (f.name, f.name),
                            "entry `%s` does not go through the container's `%s` (calls: %d): the change would not be published like a direct call" % (f.path, f.name, len(calls)))
    ctx.floor("R05.8", n, 4)


def r05_9(ctx):
    """the batched stream delivers everything it received: the Vec<VectorDiff> it accumulates for one item (the value that
    becomes `Some(batch)`) is only ever grown - a clear / truncate / pop / drain of it drops diffs of messages already taken
    off the channel, so the item is no longer the concatenation of the updates. Expected count 0."""
    F = ctx.facts
    from .c06 import find_lag_handler
    SHRINK = r"^std::vec::Vec::<.*>::(clear|truncate|pop|remove|swap_remove|drain|retain|retain_mut|split_off|dedup|dedup_by|dedup_by_key)$"
    lag = find_lag_handler(F)
    n = 0
    for f in F.find(crate=IM, name="poll_next"):
        if "VectorSubscriberBatchedStream" not in (f.raw.get("self_ty") or "") or not f.built:
            continue
        n += 1
        b = inl(F, f, lag, desugar=True, tag="r05.9") or f.built
        whole, _ = b.defs
        # accumulators: Vec<VectorDiff> locals that flow into the returned Some(..)
        acc = set()
        for loc, kind, payload in blocks_assigning_ret(b):
            if kind != "assign":
                continue
            work = [o for o in (payload.get("ops") or [])] if payload["k"] == "agg" else ([payload["op"]] if payload["k"] == "use" else [])
            seen = set()
            while work:
                o = work.pop()
                if o["k"] not in ("move", "copy") or o["place"]["proj"]:
                    continue
                l = o["place"]["l"]
                if l in seen:
                    continue
                seen.add(l)
                if re.match(r"std::vec::Vec<eyeball_im::VectorDiff<|std::vec::Vec<vector::VectorDiff<", str(b.locals[l]["ty"])):
                    acc.add(l)
                for loc2, kind2, p2 in whole.get(l, []):
                    if kind2 == "assign" and p2["k"] == "agg":
                        work.extend(p2["ops"])
                    elif kind2 == "assign" and p2["k"] == "use":
                        work.append(p2["op"])
        bad = 0
        for blk, t in b.calls(SHRINK):
            a0 = t["args"][0]
            if a0["k"] not in ("move", "copy") or a0["place"]["proj"]:
                continue
            tgt = None
            for loc2, kind2, p2 in whole.get(a0["place"]["l"], []):
                if kind2 == "assign" and p2["k"] == "ref" and not p2["place"]["proj"]:
                    tgt = p2["place"]["l"]
            if tgt in acc:
                bad += 1
                ctx.violated("R05.9", f, "batch-never-shrinks", b.line_at((blk, 10 ** 6)),
                             "the batched stream applies `%s` to the batch it is collecting (the value it returns as Some(batch)): diffs of messages it has already received are dropped, so the item is not the concatenation of the pending updates and the intermediate states cannot be replayed" % (t.get("callee") or "").split("::")[-1])
        # ... and only at its back: swapping / replacing the collected batch, or inserting before its end, puts a later message's
        # diffs in front of earlier ones
        REORDER = r"^std::mem::(swap|replace|take)$|^std::vec::Vec::<.*>::(insert|splice|extend_from_within)$|slice::<impl \[T\]>::(reverse|rotate_left|rotate_right|swap|sort\w*)$"

        def root_of(o, depth=0):
            if depth > 8 or o.get("k") not in ("move", "copy"):
                return None
            pl = o["place"]
            if [x for x in pl["proj"] if x != "deref"]:
                return None
            l = pl["l"]
            if l in acc:
                return l
            for loc2, kind2, p2 in whole.get(l, []):
                if kind2 == "assign" and p2["k"] in ("ref", "raw") and not [x for x in p2["place"]["proj"] if x != "deref"]:
                    if p2["place"]["l"] in acc:
                        return p2["place"]["l"]
                    r_ = root_of({"k": "copy", "place": {"l": p2["place"]["l"], "proj": []}}, depth + 1)
                    if r_ is not None:
                        return r_
                elif kind2 == "assign" and p2["k"] == "use":
                    r_ = root_of(p2["op"], depth + 1)
                    if r_ is not None:
                        return r_
            return None
        for blk, t in b.calls(REORDER):
            hit = [a for a in t["args"] if root_of(a) is not None]
            if hit:
                bad += 1
                ctx.violated("R05.9", f, "batch-grows-at-the-back-only", b.line_at((blk, 10 ** 6)),
                             "the batched stream applies `%s` to the batch it is collecting: diffs of a later message can end up in front of diffs received earlier, so the item is not the concatenation of the pending updates in order" % (t.get("callee") or "").split("::")[-1])
        if not bad:
            ctx.holds("R05.9", f, "batch-never-shrinks", f.loc(), "the collected batch (locals %s) is only grown" % sorted(acc))
    ctx.floor("R05.9", n, 1)


def r05_11(ctx):
    """the vector's publication function publishes before it returns: every path from its entry to a return either passes
    `Sender::send` or takes the "there is no receiver" edge. A path that parks the diff somewhere else (a pending batch, a
    buffer flushed later) leaves a window in which the mutation has happened - the mutator has returned - but a subscriber
    polled now is Pending on a stale replica; and whatever is supposed to flush later may never run (early exit, panic)."""
    F = ctx.facts
    vec_pub, txn_pub = publication_fns(F)
    if len(vec_pub) != 1:
        return
    f = vec_pub[0]
    b = inl(F, f, desugar=True, tag="r05.11") or f.built
    sends = [blk for blk, t in b.calls(r"broadcast::Sender::<.*>::send$")]
    no_rx_edges = []
    for sblk in sorted(b.reachable()):
        info = conds.switch_info(b, sblk)
        if not info:
            continue
        for t_, fs in info["edges"].items():
            for fct in fs:
                if fct[0] == "cmp" and fct[1] in ("Eq", "Le") and ((contains(fct[2], lambda y: y[0] == "call" and ecall_matches(y, r"::receiver_count$")) and is_const_int(fct[3], 0))
                                                                     or (contains(fct[3], lambda y: y[0] == "call" and ecall_matches(y, r"::receiver_count$")) and is_const_int(fct[2], 0))):
                    no_rx_edges.append((sblk, t_))
    silent = [r for r in b.reachable_from(0, avoid_blocks=sends, avoid_edges=no_rx_edges) if b.term(r)["k"] == "return"]
    ctx.verdict(not silent, "R05.11", f, "publication-before-return", b.line_at((silent[0], 0)) if silent else f.loc(),
                "every return of the publication function is behind Sender::send or the no-receiver edge",
                "`%s` can return (bb%s) without having sent the diff although receivers exist: the mutation is visible in the vector but not published - a subscriber polled now is Pending on a stale replica, and a later flush may never happen" % (f.path, silent[0] if silent else ""))
