"""C06 — lagging subscribers are resynchronised by Reset and never diverge."""
import re
from ..facts import strip, ecall_matches, contains, find_all, fmt, mentions_field, mentions_call, has_arith
from .. import conds
from .common import *
from .vecdiff import *
from . import c05

CRATES = (IM,)

META = {
    "explanation": (
        "Static decision on MIR: R06.1 every broadcast message carries the contents *after* the mutation - the `state` field is a clone of the "
        "vector's contents taken after the mutating call (direct mutators: mutation dominates publication; commit: the clone reads inner.values after "
        "the assignment of the new contents, or the working copy before it is moved out); R06.2 the capacity given to with_capacity reaches "
        "broadcast::channel unmodified (shrinking arithmetic is a violation, other arithmetic undecided); R06.3 every construction of VectorDiff::Reset "
        "is tied to a Lagged edge of recv/try_recv; R06.4 the lag handler's loop exits only on Empty/Closed, every received message overwrites the "
        "remembered one, and the value returned on Empty is the remembered message's state; R06.5 the batched stream yields its batch only on "
        "Empty/Closed of try_recv. tokio's retention (>= capacity) is trusted."),
    "trusted_base": ["tokio::sync::broadcast::channel(n) retains >= n messages per receiver; Lagged iff overwritten", "rustc MIR construction"],
    "assumptions": [],
    "not_decided": "applicability of every delivered diff to the replica beyond the table rules of C05",
}
META["explanation"] += ' R06.6 lag => reset: the result of every receive is examined for `Lagged`, and every path from a Lagged edge passes the lag handler before the stream returns or receives again (a swallowed Lagged loses messages without a Reset).'
META["explanation"] += ' R05.4 (snapshot and receiver taken in one `&self` call) and R08.2 (one Sender, never cloned into something that outlives the vector) are part of the shared im_core group.'
META["explanation"] += " R06.7 every Poll::Pending the vector streams build is dominated by a poll of the receive future (Pending is the channel's answer; no Pending while diffs of a message are still in hand)."

SHRINKING = r"bin:(Div|Sub|Shr|Rem)|::(min|saturating_sub|checked_sub|wrapping_sub|div_ceil|checked_div|isqrt|ilog2|ilog10)$"


def run(ctx):
    F = ctx.facts
    r06_1(ctx)
    r06_2(ctx)
    r06_3(ctx)
    lag = find_lag_handler(F)
    if lag is None:
        ctx.missing("R06.4", "lag handler (role: private fn in subscriber.rs looping over try_recv and returning Option<Vector>)")
    else:
        r06_4(ctx, lag)
    r06_5(ctx)
    r06_6(ctx)
    r06_7(ctx)
    from . import groups
    groups.im_core(ctx)



def find_lag_handler(F):
    c = []
    for f in F.find(crate=IM):
        b = f.built
        if f.kind == "fn" and b and b.calls(r"broadcast::Receiver::<.*>::try_recv$") and "Option<imbl::GenericVector<" in b.locals[0]["ty"]:
            c.append(f)
    return c[0] if len(c) == 1 else None


def message_aggs(body):
    out = []
    for loc, s in body.iter_stmts():
        if s["k"] == "assign" and s["rv"]["k"] == "agg" and (s["rv"].get("adt") or "").endswith("vector::BroadcastMessage"):
            out.append((loc, s["rv"]))
    return out


def r06_1(ctx):
    F = ctx.facts
    vec_pub, txn_pub = c05.publication_fns(F)
    n = 0
    # (a) publication helper of the vector
    for f in vec_pub:
        b = inl(F, f)
        for loc, rv in message_aggs(b):
            n += 1
            e = b.expr_of_op(rv["ops"][rv["fields"].index("state")])
            x = strip(e)
            ok = x[0] == "field" and x[2] == "values" and contains(x[1], lambda y: y[0] == "param" and y[1] == 1) and not mentions_field(x[1], "inner") \
                and contains(e, lambda y: y[0] == "call" and ecall_matches(y, r"Clone>?::clone$"))
            ctx.verdict(ok if ok else None, "R06.1", f, "state=contents", b.line_at(loc), "message.state = self.values.clone()")
    # (b) direct mutators: mutation dominates publication
    for f in c05.mutators(F, "vector::ObservableVector<"):
        b = inl(F, f, *vec_pub)
        muts = c05.values_mutations(b)
        pubs = [(blk, t) for blk, t in b.calls() if F.local_callee(f, t) in vec_pub]
        for pblk, pt in pubs:
            n += 1
            ok = any(b.dominates(mb, pblk) and mb != pblk for mb, _, _ in muts)
            ctx.verdict(ok, "R06.1", f, "mutate-before-publish", b.line_at((pblk, 10 ** 6)), "the mutating imbl call dominates the publication",
                        "`%s` publishes (and snapshots the state for a later Reset) before mutating the contents: a lagging subscriber is reset to a stale state" % f.path)
    n += commit_state(ctx)
    ctx.floor("R06.1", n, 12)


def commit_state(ctx):
    """(c) the state snapshot carried by commit's message is the post-transaction contents."""
    F = ctx.facts
    n = 0
    for f in F.find(crate=IM, name="commit"):
        if not (f.raw.get("self_ty") or "").startswith("vector::transaction::ObservableVectorTransaction<"):
            continue
        b = inl(F, f)
        assigns = [loc for loc, s in b.iter_stmts() if s["k"] == "assign" and place_fields(s["place"])[-2:] == ["inner", "values"]]
        takes = [(blk, len(b.blocks[blk]["stmts"])) for blk, t in b.calls(r"^std::mem::(take|replace|swap)$") if strip(b.expr_of_op(t["args"][0]))[0] == "field"
                 and place_chain(strip(b.expr_of_op(t["args"][0])))[-1:] == ["values"] and "inner" not in place_chain(strip(b.expr_of_op(t["args"][0])))]
        for loc, rv in message_aggs(b):
            n += 1
            e = b.expr_of_op(rv["ops"][rv["fields"].index("state")])
            x = strip(e)
            clones = find_all(e, lambda y: y[0] == "call" and ecall_matches(y, r"Clone>?::clone$"))
            cloc = clones[0][4] if clones else loc
            chain = place_chain(x) if x[0] == "field" else []
            where = b.line_at(loc)
            if chain[-2:] == ["inner", "values"]:
                ok = bool(assigns) and all(b.loc_dominates(a, cloc) for a in assigns)
                ctx.verdict(ok, "R06.1", f, "commit-state", where, "state = inner.values.clone() taken after inner.values was assigned the new contents",
                            "commit snapshots inner.values *before* assigning the transaction's contents: the message's state (used for Reset after a lag) is the pre-transaction state")
            elif chain[-1:] == ["values"]:
                ok = all(b.loc_dominates(cloc, t) and cloc != t for t in takes) if takes else True
                ctx.verdict(ok, "R06.1", f, "commit-state", where, "state = working copy cloned before it is moved out",
                            "commit snapshots the transaction's working copy after it was moved out with mem::take: the message's state is an empty vector, so a lagging subscriber is reset to []")
            else:
                ctx.undecided("R06.1", f, "commit-state", where, "provenance of message.state not recognised: %s" % fmt(e, 4))
    return n


def place_chain(x):
    """field names from the root to the leaf of a field/deref chain expression."""
    names = []
    while isinstance(x, tuple):
        if x[0] == "field":
            names.append(x[2])
            x = x[1]
        elif x[0] in ("deref", "ref", "downcast", "cast"):
            x = x[1]
        elif x[0] == "call" and x[3] and re.search(r"Deref(Mut)?>?::deref(_mut)?$", x[1] if isinstance(x[1], str) else ""):
            x = x[3][0]
        else:
            break
    return list(reversed(names))


def r06_2(ctx):
    F = ctx.facts
    n = 0
    for f in F.find(crate=IM):
        b = f.built
        if not b:
            continue
        for blk, t in b.calls(r"^tokio::sync::broadcast::channel$"):
            n += 1
            ctx.call_sites += 1
            e = b.expr_of_op(t["args"][0])
            x = strip(e)
            where = b.line_at((blk, 10 ** 6))
            if x[0] == "param":
                ctx.holds("R06.2", f, "capacity-pass-through", where, "broadcast::channel(%s)" % fmt(e))
            elif x[0] == "const":
                ctx.holds("R06.2", f, "capacity-pass-through", where, "constant capacity %s" % fmt(e))
            else:
                shr = contains(e, lambda y: (y[0] == "bin" and re.match(r"(Div|Sub|Shr|Rem)", y[1])) or (y[0] == "call" and isinstance(y[1], str) and re.search(SHRINKING, y[1])))
                if shr and contains(e, lambda y: y[0] == "param"):
                    ctx.violated("R06.2", f, "capacity-pass-through", where,
                                 "the channel is created with `%s`, less than the requested capacity: subscribers lag (and get Reset) with fewer pending updates than promised" % fmt(e, 5))
                else:
                    ctx.undecided("R06.2", f, "capacity-pass-through", where, "capacity expression not recognised: %s" % fmt(e, 5))
    ctx.floor("R06.2", n, 1)


def r06_3(ctx):
    F = ctx.facts
    n = 0
    for f in F.find(crate=IM):
        b = f.built
        if not b or not (f.file or "").endswith("subscriber.rs"):
            continue
        for loc, s in b.iter_stmts():
            if not (s["k"] == "assign" and s["rv"]["k"] == "agg" and (s["rv"].get("adt") or "").endswith("::VectorDiff") and s["rv"]["variant"] == "Reset"):
                continue
            n += 1
            # the site itself, or - for a closure body - the place where the closure is created
            site_fn, site_blk = f, loc[0]
            found = None
            if f.kind == "closure":
                parent = F.fns.get(f.crate + "::" + f.raw["parent"])
                if parent and parent.built:
                    for ploc, ps in parent.built.iter_stmts():
                        if ps["k"] == "assign" and ps["rv"]["k"] == "agg" and ps["rv"].get("def") == f.path:
                            found = (parent, ploc[0])
            elif f.name != "poll_next":
                # a named helper: the place where it is called or handed to a combinator as a function item
                for g in F.find(crate=IM):
                    gb = g.built
                    if not gb or g is f:
                        continue
                    for blk, t in gb.calls():
                        if F.local_callee(g, t) is f or any(a["k"] == "const" and a.get("fn") == f.path for a in t["args"]):
                            found = (g, blk)
            if found:
                site_fn, site_blk = found
            sb = site_fn.built
            facts = conds.bare(conds.dominating_facts(sb, site_blk))
            if not any(x[0] == "variant" and x[2] == frozenset(["Lagged"]) for x in facts) and site_fn.name != "poll_next":
                # the site itself sits in a helper: look at where that helper is used from the stream
                rootp = [g for g in F.find(crate=IM, name="poll_next") if "VectorSubscriber" in (g.raw.get("self_ty") or "")]
                for g in rootp:
                    ib = inl(F, g, find_lag_handler(F))
                    for blk, t in ib.calls():
                        if any(a["k"] == "const" and a.get("fn") == f.path for a in t["args"]) or F.local_callee(g, t) is f:
                            facts = facts + conds.bare(conds.dominating_facts(ib, blk))
            lag = any(x[0] == "variant" and x[2] == frozenset(["Lagged"]) for x in facts)
            ctx.verdict(lag, "R06.3", root_fn(F, f), "reset-only-on-lag", b.line_at(loc), "Reset is built under the Lagged edge (bb%d of %s)" % (site_blk, site_fn.name),
                        "a VectorDiff::Reset is produced on a path that is not a Lagged receive: a subscriber within capacity would be reset")
    ctx.floor("R06.3", n, 2)


def r06_4(ctx, lag):
    b = lag.built
    recvs = b.calls(r"broadcast::Receiver::<.*>::try_recv$")
    ctx.call_sites += len(recvs)
    if len(recvs) != 1:
        ctx.undecided("R06.4", lag, "drain-to-newest", lag.loc(), "expected one try_recv site, found %d" % len(recvs))
        return
    rblk, rt = recvs[0]
    rloc = (rblk, len(b.blocks[rblk]["stmts"]))
    # accumulator: a local assigned Some(payload of try_recv)
    acc = None
    whole, _ = b.defs
    for l, ds in whole.items():
        for loc, kind, payload in ds:
            if kind == "assign":
                e = b.expr_of_rv(payload, 6, ())
                if e[0] == "agg" and e[3] == "Some" and contains(e, lambda y: y[0] == "call" and y[4] == rloc):
                    acc = l
    # follow `acc2 = move tmp`
    if acc is not None:
        for l, ds in whole.items():
            for loc, kind, payload in ds:
                if kind == "assign" and payload["k"] == "use" and payload["op"]["k"] == "move" and not payload["op"]["place"]["proj"] and payload["op"]["place"]["l"] == acc and b.locals[l]["name"]:
                    acc = l
    if acc is None:
        ctx.undecided("R06.4", lag, "drain-to-newest", lag.loc(), "no local remembers the received message")
        return
    # exits
    ok_exit = True
    for loc, kind, payload in blocks_assigning_ret(b):
        facts = conds.bare(conds.dominating_facts(b, loc[0]))
        vs = [x[2] for x in facts if x[0] == "variant" and x[2] <= frozenset(["Empty", "Closed", "Lagged"])]
        if not vs or not all(v <= frozenset(["Empty", "Closed"]) for v in vs):
            ok_exit = False
            ctx.violated("R06.4", lag, "loop-exits", b.line_at(loc), "the lag handler returns on a path that is not the Empty/Closed edge of try_recv: it stops before reaching the newest message, so the Reset is stale")
    if ok_exit:
        ctx.holds("R06.4", lag, "loop-exits", lag.loc(), "all returns are under the Empty or Closed edge of try_recv")
    # every Ok overwrites the accumulator
    info = None
    sw = rt["target"]
    for _ in range(3):
        info = conds.switch_info(b, sw)
        if info:
            break
        sw = b.succ[sw][0] if len(b.succ[sw]) == 1 else None
        if sw is None:
            break
    ok_t = None
    if info:
        for t, fs in info["edges"].items():
            if any(x[0] == "variant" and x[2] == frozenset(["Ok"]) for x in fs):
                ok_t = t
    if ok_t is None:
        ctx.undecided("R06.4", lag, "newest-wins", lag.loc(), "Ok edge not found")
    else:
        wr = [loc[0] for loc, kind, payload in whole.get(acc, []) if b.edge_dominates((sw, ok_t), loc[0]) or loc[0] == ok_t]
        back = rblk in b.reachable_from(ok_t, avoid_blocks=wr) if ok_t not in wr else False
        ctx.verdict(bool(wr) and not back, "R06.4", lag, "newest-wins", b.line_at((ok_t, 0)), "every path from the Ok edge back to try_recv overwrites the remembered message (bb%s)" % wr,
                    "a received message does not always replace the remembered one: the handler can return an older state than the newest buffered message")
    # value returned on Empty is the state of the remembered message
    for loc, kind, payload in blocks_assigning_ret(b):
        facts = conds.bare(conds.dominating_facts(b, loc[0]))
        if any(x[0] == "variant" and x[2] == frozenset(["Empty"]) for x in facts) and kind == "assign":
            e = b.expr_of_rv(payload, 10, ())
            av = agg_variant(e)
            if av and av[1] == "Some":
                x = strip(e[5][0])
                ok = x[0] == "field" and x[2] == "state" and contains(x, lambda y: y[0] == "call" and y[4] == rloc)
                ctx.verdict(ok, "R06.4", lag, "returns-remembered-state", b.line_at(loc), "Some(msg.state) of the remembered message",
                            "the value returned after draining is `%s`, not the `state` of the last received message" % fmt(e, 4))


def r06_5(ctx):
    F = ctx.facts
    n = 0
    for f in F.find(crate=IM, name="poll_next"):
        if "VectorSubscriberBatchedStream" not in (f.raw.get("self_ty") or ""):
            continue
        msg_helpers = [g for g in F.find(crate=IM) if (g.raw.get("self_ty") or "").startswith("vector::OneOrManyDiffs<")]
        b = inl(F, f, find_lag_handler(F), *msg_helpers)
        trs = b.calls(r"broadcast::Receiver::<.*>::try_recv$")
        if not trs:
            ctx.undecided("R06.5", f, "batch-catches-up", f.loc(), "no try_recv drain loop in the batched stream")
            continue
        tloc = {(blk, len(b.blocks[blk]["stmts"])) for blk, _ in trs}
        for loc, s in b.iter_stmts():
            if s["k"] == "assign" and s["rv"]["k"] == "agg" and s["rv"].get("adt") == "std::option::Option" and s["rv"]["variant"] == "Some":
                e = b.expr_of_op(s["rv"]["ops"][0])
                if not contains(e, lambda y: y[0] == "call" and ecall_matches(y, r"into_vec$")):
                    continue
                n += 1
                facts = conds.bare(conds.dominating_facts(b, loc[0]))
                vs = [x for x in facts if x[0] == "variant" and strip(x[1], through_calls=False)[0] == "call" and strip(x[1], through_calls=False)[4] in tloc]
                inner = [x[2] for x in vs if x[2] <= frozenset(["Empty", "Closed", "Lagged"])]
                ok = bool(inner) and all(v <= frozenset(["Empty", "Closed"]) for v in inner)
                ctx.verdict(ok, "R06.5", f, "batch-catches-up", b.line_at(loc), "Some(batch) is yielded only on the Empty/Closed edge of try_recv",
                            "the batched stream yields its batch while more messages may be buffered (not on the Empty/Closed edge): an item does not bring the subscriber fully up to date")
    ctx.floor("R06.5", n, 1)


RECV_SITE = r"broadcast::Receiver::<.*>::try_recv$|ReusableBoxRecvFuture::<.*>::poll$|broadcast::Receiver::<.*>::recv$"


def r06_6(ctx):
    """lag => reset: once a receive reported `Lagged`, the skipped messages are gone; every path from that edge must go
    through the lag handler (which produces the Reset state) before the stream returns or receives again."""
    F = ctx.facts
    lag = find_lag_handler(F)
    if lag is None:
        return
    n = 0
    for f in F.find(crate=IM, name="poll_next"):
        st = f.raw.get("self_ty") or ""
        if f.raw.get("impl_trait") != "futures_core::Stream" or "VectorSubscriber" not in st:
            continue
        rfut = [g for g in F.find(crate=IM) if (g.raw.get("self_ty") or "").startswith("vector::subscriber::ReusableBoxRecvFuture<")]
        b = inl(F, f, lag, *rfut)
        lag_blks = [blk for blk, t in b.calls() if F.local_callee(f, t) is lag]
        recv_blks = {blk for blk, t in b.calls(RECV_SITE)}
        site_locs = {(blk, len(b.blocks[blk]["stmts"])): blk for blk in recv_blks}
        examined = set()
        for sblk in sorted(b.reachable()):
            info = conds.switch_info(b, sblk)
            if not info:
                continue
            for t, fs in info["edges"].items():
                lf = [x for x in fs if x[0] == "variant" and x[2] == frozenset(["Lagged"])]
                if not lf:
                    continue
                for x in lf:
                    for c in find_all(x[1], lambda y: y[0] == "call" and y[4] in site_locs):
                        examined.add(site_locs[c[4]])
                r = b.reachable_from(t, avoid_blocks=lag_blks)
                bad_ret = [x for x in r if b.term(x)["k"] == "return"]
                bad_recv = [x for x in r if x in recv_blks]
                where = b.line_at((t, 0))
                if bad_ret or bad_recv:
                    ctx.violated("R06.6", f, "lag=>reset", where,
                                 "after a receive answered `Lagged` (bb%d) the stream can %s without going through the lag handler `%s`: the overwritten messages are skipped and no Reset resynchronises the subscriber" % (
                                     sblk, "receive again (bb%d)" % bad_recv[0] if bad_recv else "return (bb%d)" % bad_ret[0], lag.name))
                else:
                    ctx.holds("R06.6", f, "lag=>reset", where, "every path from the Lagged edge (bb%d->bb%d) passes the lag handler (bb%s)" % (sblk, t, lag_blks))
        for blk in sorted(recv_blks):
            n += 1
            if blk not in examined and blk in b.reachable():
                ctx.violated("R06.6", f, "lag-distinguished", b.line_at((blk, 10 ** 6)),
                             "the result of the receive at bb%d is never examined for `Lagged`: a lagging receive is treated like another outcome and the skipped messages are lost without a Reset" % blk)
            elif blk in b.reachable():
                ctx.holds("R06.6", f, "lag-distinguished", b.line_at((blk, 10 ** 6)), "the receive's error is examined for Lagged")
    ctx.floor("R06.6", n, 3)



def r06_7(ctx):
    """Pending means "caught up": the stream reports Pending only as the answer of the channel (the receive future's own Pending).
    A Pending built anywhere else - e.g. a cooperative yield while diffs of a multi-diff message are still in hand - is observed
    with a replica that is a torn prefix of a transaction."""
    F = ctx.facts
    lag = find_lag_handler(F)
    n = 0
    for f in F.find(crate=IM, name="poll_next"):
        st = f.raw.get("self_ty") or ""
        if f.raw.get("impl_trait") != "futures_core::Stream" or "VectorSubscriber" not in st:
            continue
        rfut = [g for g in F.find(crate=IM) if (g.raw.get("self_ty") or "").startswith("vector::subscriber::ReusableBoxRecvFuture<")]
        b = inl(F, f, lag, *rfut)
        recv_blks = [blk for blk, t in b.calls(r"ReusableBoxRecvFuture::<.*>::poll$|Future>?::poll$")]
        for loc, kind, payload in blocks_assigning_ret(b):
            if kind != "assign":
                continue
            e = strip(b.expr_of_rv(payload, 6, (), loc), through_calls=False)
            v = agg_variant(e)
            if not v or v[0] != "std::task::Poll" or v[1] != "Pending":
                continue
            n += 1
            ok = any(b.dominates(rb, loc[0]) for rb in recv_blks)
            ctx.verdict(ok, "R06.7", f, "pending-is-the-channels-answer", b.line_at(loc), "Pending is returned after the receive future was polled",
                        "`%s` returns Pending on a path that has not asked the channel: items it already holds (the rest of a transaction's message) stay undelivered while the consumer sees Pending, i.e. observes a state the vector never had" % f.path)
    if n == 0:
        ctx.holds("R06.7", None, "pending-is-the-channels-answer", None, "the vector streams build no Pending of their own: the only Pending is the receive future's result passed through")
