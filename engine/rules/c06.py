"""C06 — lagging subscribers are resynchronised by Reset and never diverge."""
import re
from ..facts import strip, ecall_matches, contains, find_all, fmt, mentions_field, mentions_call, has_arith
from .. import conds
from .common import *
from .vecdiff import *
from . import c05

CRATES = (IM,)

META = {
    "explanation": (
        "Static decision on MIR: R06.1 every broadcast message carries the contents *after* the mutation - the `state` field is a clone of the "
        "vector's contents taken after the mutating call (direct mutators: mutation dominates publication; commit: the clone reads inner.values after "
        "the assignment of the new contents, or the working copy before it is moved out); R06.2 the capacity given to with_capacity reaches "
        "broadcast::channel unmodified (shrinking arithmetic is a violation, other arithmetic undecided); R06.3 every construction of VectorDiff::Reset "
        "is tied to a Lagged edge of recv/try_recv; R06.4 the lag handler's loop exits only on Empty/Closed, every received message overwrites the "
        "remembered one, and the value returned on Empty is the remembered message's state; R06.5 the batched stream yields its batch only on "
        "Empty/Closed of try_recv. tokio's retention (>= capacity) is trusted."),
    "trusted_base": ["tokio::sync::broadcast::channel(n) retains >= n messages per receiver; Lagged iff overwritten", "rustc MIR construction"],
    "assumptions": [],
    "not_decided": "applicability of every delivered diff to the replica beyond the table rules of C05",
}
META["explanation"] += ' R06.6 lag => reset: the result of every receive is examined for `Lagged`, and every path from a Lagged edge passes the lag handler before the stream returns or receives again (a swallowed Lagged loses messages without a Reset).'
META["explanation"] += ' R05.4 (snapshot and receiver taken in one `&self` call) and R08.2 (one Sender, never cloned into something that outlives the vector) are part of the shared im_core group.'
META["explanation"] += " R06.7 every Poll::Pending the vector streams build is dominated by a poll of the receive future (Pending is the channel's answer; no Pending while diffs of a message are still in hand)."
META["explanation"] += " R06.1 a snapshot that is attached only conditionally (Option, bool::then, a helper returning Option) is VIOLATED, not undecided. R06.3 is judged on the streams' poll_next with private helpers and map-closures spliced in. R06.4's exit clause is stated on the drain loop (the cycle through try_recv is left only over Empty / Closed edges). R06.8 a stream that keeps a buffer of diffs next to its receiver empties it on the path that produces a Reset."
META["explanation"] += ' R06.3 now covers the whole crate (a Reset made up by a mutator or by commit is a violation).'
META["explanation"] += ' R06.6 lag-distinguished now covers every receive site of the crate (a helper that drains the receiver when the subscriber is converted must examine the error for Lagged as well - tokio reports a lag once).'
META["explanation"] += ' R06.1 a broadcast message without the contents field is a violation (the Reset state would be read at another moment than the send).'

SHRINKING = r"bin:(Div|Sub|Shr|Rem)|::(min|saturating_sub|checked_sub|wrapping_sub|div_ceil|checked_div|isqrt|ilog2|ilog10)$"


def run(ctx):
    F = ctx.facts
    r06_1(ctx)
    r06_2(ctx)
    r06_3(ctx)
    lag = find_lag_handler(F)
    if lag is None:
        ctx.missing("R06.4", "lag handler (role: private fn in subscriber.rs looping over try_recv and returning Option<Vector>)")
    else:
        r06_4(ctx, lag)
    r06_5(ctx)
    r06_6(ctx)
    r06_7(ctx)
    r06_8(ctx)
    from . import groups
    groups.im_core(ctx)



def find_lag_handler(F):
    c = []
    for f in F.find(crate=IM):
        b = f.built
        if f.kind == "fn" and b and b.calls(r"broadcast::Receiver::<.*>::try_recv$") and "Option<imbl::GenericVector<" in b.locals[0]["ty"]:
            c.append(f)
    return c[0] if len(c) == 1 else None


def message_aggs(body):
    out = []
    for loc, s in body.iter_stmts():
        if s["k"] == "assign" and s["rv"]["k"] == "agg" and (s["rv"].get("adt") or "").endswith("vector::BroadcastMessage"):
            out.append((loc, s["rv"]))
    return out


def r06_1(ctx):
    F = ctx.facts
    vec_pub, txn_pub = c05.publication_fns(F)
    n = 0
    # (a) publication helper of the vector
    for f in vec_pub:
        b = inl(F, f)
        for loc, rv in message_aggs(b):
            n += 1
            if "state" not in rv["fields"]:
                ctx.violated("R06.1", f, "state=contents", b.line_at(loc),
                             "the broadcast message no longer carries the contents after the mutation: whatever a lagging subscriber is reset to is then read at another moment than the send "
                             "(e.g. from a shared field after draining the channel) - an update that lands in between is contained in the Reset *and* delivered as a diff again, or missing from both")
                continue
            e = b.expr_of_op(rv["ops"][rv["fields"].index("state")])
            x = strip(e)
            ok = x[0] == "field" and x[2] == "values" and contains(x[1], lambda y: y[0] == "param" and y[1] == 1) and not mentions_field(x[1], "inner") \
                and contains(e, lambda y: y[0] == "call" and ecall_matches(y, r"Clone>?::clone$"))
            cond = conditional_snapshot(F, f, b, e)
            if cond and not ok:
                ctx.violated("R06.1", f, "state=contents", b.line_at(loc),
                             "the snapshot a message carries for lagging subscribers is attached only conditionally (`%s`): a subscriber that lags onto a message without it cannot be reset - the lag handler has nothing to return, which the streams treat as the end of the stream" % fmt(cond, 3))
            else:
                ctx.verdict(ok if ok else None, "R06.1", f, "state=contents", b.line_at(loc), "message.state = self.values.clone()")
    # (b) direct mutators: mutation dominates publication
    for f in c05.mutators(F, "vector::ObservableVector<"):
        b = inl(F, f, *vec_pub, desugar=True)
        muts = c05.values_mutations(b)
        pubs = [(blk, t) for blk, t in b.calls() if F.local_callee(f, t) in vec_pub]
        for pblk, pt in pubs:
            n += 1
            ok = any(b.dominates(mb, pblk) and mb != pblk for mb, _, _ in muts)
            ctx.verdict(ok, "R06.1", f, "mutate-before-publish", b.line_at((pblk, 10 ** 6)), "the mutating imbl call dominates the publication",
                        "`%s` publishes (and snapshots the state for a later Reset) before mutating the contents: a lagging subscriber is reset to a stale state" % f.path)
    n += commit_state(ctx)
    ctx.floor("R06.1", n, 12)


def conditional_snapshot(F, f, b, e):
    """the sub-expression that makes a message's state optional (None alternative, bool::then, a helper returning Option), or None."""
    hit = find_all(e, lambda y: (y[0] == "call" and ecall_matches(y, r"bool.*::then(_some)?$|Option::<.*>::(filter|take|and_then|xor)$"))
                   or (y[0] == "agg" and y[1] == "adt" and y[2] == "std::option::Option" and y[3] == "None"))
    if hit:
        return hit[0]
    for y in find_all(e, lambda y: y[0] == "call" and isinstance(y[1], str)):
        g = F.fns.get(f.crate + "::" + (y[2] or y[1])) or F.fns.get(f.crate + "::" + y[1])
        if g is not None and g.raw.get("sig") and g.raw["sig"]["output"].startswith("std::option::Option<"):
            return y
    return None


def commit_state(ctx):
    """(c) the state snapshot carried by commit's message is the post-transaction contents."""
    F = ctx.facts
    n = 0
    for f in F.find(crate=IM, name="commit"):
        if not (f.raw.get("self_ty") or "").startswith("vector::transaction::ObservableVectorTransaction<"):
            continue
        b = inl(F, f)
        assigns = [loc for loc, s in b.iter_stmts() if s["k"] == "assign" and place_fields(s["place"])[-2:] == ["inner", "values"]]
        takes = [(blk, len(b.blocks[blk]["stmts"])) for blk, t in b.calls(r"^std::mem::(take|replace|swap)$") if strip(b.expr_of_op(t["args"][0]))[0] == "field"
                 and place_chain(strip(b.expr_of_op(t["args"][0])))[-1:] == ["values"] and "inner" not in place_chain(strip(b.expr_of_op(t["args"][0])))]
        for loc, rv in message_aggs(b):
            n += 1
            if "state" not in rv["fields"]:
                ctx.violated("R06.1", f, "commit-state", b.line_at(loc), "the message published by commit carries no contents: a lagging subscriber cannot be reset to the committed state")
                continue
            e = b.expr_of_op(rv["ops"][rv["fields"].index("state")])
            x = strip(e)
            clones = find_all(e, lambda y: y[0] == "call" and ecall_matches(y, r"Clone>?::clone$"))
            cloc = clones[0][4] if clones else loc
            chain = place_chain(x) if x[0] == "field" else []
            where = b.line_at(loc)
            if chain[-2:] == ["inner", "values"]:
                ok = bool(assigns) and all(b.loc_dominates(a, cloc) for a in assigns)
                ctx.verdict(ok, "R06.1", f, "commit-state", where, "state = inner.values.clone() taken after inner.values was assigned the new contents",
                            "commit snapshots inner.values *before* assigning the transaction's contents: the message's state (used for Reset after a lag) is the pre-transaction state")
            elif chain[-1:] == ["values"]:
                ok = all(b.loc_dominates(cloc, t) and cloc != t for t in takes) if takes else True
                ctx.verdict(ok, "R06.1", f, "commit-state", where, "state = working copy cloned before it is moved out",
                            "commit snapshots the transaction's working copy after it was moved out with mem::take: the message's state is an empty vector, so a lagging subscriber is reset to []")
            else:
                ctx.undecided("R06.1", f, "commit-state", where, "provenance of message.state not recognised: %s" % fmt(e, 4))
    return n


def place_chain(x):
    """field names from the root to the leaf of a field/deref chain expression."""
    names = []
    while isinstance(x, tuple):
        if x[0] == "field":
            names.append(x[2])
            x = x[1]
        elif x[0] in ("deref", "ref", "downcast", "cast"):
            x = x[1]
        elif x[0] == "call" and x[3] and re.search(r"Deref(Mut)?>?::deref(_mut)?$", x[1] if isinstance(x[1], str) else ""):
            x = x[3][0]
        else:
            break
    return list(reversed(names))


def r06_2(ctx):
    F = ctx.facts
    n = 0
    for f in F.find(crate=IM):
        b = f.built
        if not b:
            continue
        for blk, t in b.calls(r"^tokio::sync::broadcast::channel$"):
            n += 1
            ctx.call_sites += 1
            e = b.expr_of_op(t["args"][0])
            x = strip(e)
            where = b.line_at((blk, 10 ** 6))
            if x[0] == "param":
                ctx.holds("R06.2", f, "capacity-pass-through", where, "broadcast::channel(%s)" % fmt(e))
            elif x[0] == "const":
                ctx.holds("R06.2", f, "capacity-pass-through", where, "constant capacity %s" % fmt(e))
            else:
                shr = contains(e, lambda y: (y[0] == "bin" and re.match(r"(Div|Sub|Shr|Rem)", y[1])) or (y[0] == "call" and isinstance(y[1], str) and re.search(SHRINKING, y[1])))
                if shr and contains(e, lambda y: y[0] == "param"):
                    ctx.violated("R06.2", f, "capacity-pass-through", where,
                                 "the channel is created with `%s`, less than the requested capacity: subscribers lag (and get Reset) with fewer pending updates than promised" % fmt(e, 5))
                else:
                    ctx.undecided("R06.2", f, "capacity-pass-through", where, "capacity expression not recognised: %s" % fmt(e, 5))
    ctx.floor("R06.2", n, 1)


def r06_3(ctx):
    """a Reset is produced only as the answer to a lagging receive. Judged in the stream's poll_next with its private helpers and
    the closures of `map` / `then` .. spliced in: every construction of VectorDiff::Reset there sits under a Lagged edge. Functions
    of the subscriber module that are not spliced into a stream (crate-visible helpers) are judged in their own body."""
    F = ctx.facts
    n = 0
    lagh = find_lag_handler(F)
    streams = [g for g in F.find(crate=IM, name="poll_next") if "VectorSubscriber" in (g.raw.get("self_ty") or "") and g.raw.get("impl_trait") == "futures_core::Stream"]

    def reset_sites(body):
        return [loc for loc, s_ in body.iter_stmts() if s_["k"] == "assign" and s_["rv"]["k"] == "agg" and (s_["rv"].get("adt") or "").endswith("::VectorDiff") and s_["rv"]["variant"] == "Reset"]
    for g in streams:
        ib = inl(F, g, lagh, desugar=True, tag="r06.3") or g.built
        for loc in reset_sites(ib):
            n += 1
            facts = conds.bare(conds.dominating_facts(ib, loc[0]))
            lag = any(x[0] == "variant" and x[2] == frozenset(["Lagged"]) for x in facts)
            ctx.verdict(lag, "R06.3", g, "reset-only-on-lag", ib.line_at(loc), "Reset is built under a Lagged edge of the receive",
                        "a VectorDiff::Reset is produced on a path that is not a Lagged receive: a subscriber within capacity would be reset")
    from ..inline import default_keep
    for f in F.find(crate=IM):
        b = f.built
        if not b:
            continue
        root = root_fn(F, f)
        in_sub = (f.file or "").endswith("subscriber.rs")
        if root in streams or (in_sub and not default_keep(root)):
            continue   # spliced into the streams above (private helper / closure of one)
        if not in_sub and ((root.raw.get("self_ty") or "").startswith("vector::VectorDiff<") or root.raw.get("impl_trait")):
            continue   # VectorDiff's own methods (map rebuilds a Reset from a Reset) and trait impls (Deserialize, Clone)
        for loc in reset_sites(b):
            n += 1
            facts = conds.bare(conds.dominating_facts(b, loc[0]))
            lag = any(x[0] == "variant" and x[2] == frozenset(["Lagged"]) for x in facts)
            ctx.verdict(lag, "R06.3", root, "reset-only-on-lag", b.line_at(loc), "Reset is built under a Lagged edge",
                        "a VectorDiff::Reset is produced on a path that is not a Lagged receive: a subscriber within capacity would be reset")
    ctx.floor("R06.3", n, 2)


def r06_4(ctx, lag):
    b = lag.built
    recvs = b.calls(r"broadcast::Receiver::<.*>::try_recv$")
    ctx.call_sites += len(recvs)
    if len(recvs) != 1:
        ctx.undecided("R06.4", lag, "drain-to-newest", lag.loc(), "expected one try_recv site, found %d" % len(recvs))
        return
    rblk, rt = recvs[0]
    rloc = (rblk, len(b.blocks[rblk]["stmts"]))
    # accumulator: a local assigned Some(payload of try_recv)
    acc = None
    whole, _ = b.defs
    for l, ds in whole.items():
        for loc, kind, payload in ds:
            if kind == "assign":
                e = b.expr_of_rv(payload, 6, ())
                if e[0] == "agg" and e[3] == "Some" and contains(e, lambda y: y[0] == "call" and y[4] == rloc):
                    acc = l
    # follow `acc2 = move tmp` (only from an unnamed temporary to the named local it initialises)
    if acc is not None and not b.locals[acc]["name"]:
        tmp = acc
        for l, ds in whole.items():
            for loc, kind, payload in ds:
                if kind == "assign" and payload["k"] == "use" and payload["op"]["k"] == "move" and not payload["op"]["place"]["proj"] and payload["op"]["place"]["l"] == tmp and b.locals[l]["name"] and acc == tmp:
                    acc = l
    if acc is None:
        ctx.undecided("R06.4", lag, "drain-to-newest", lag.loc(), "no local remembers the received message")
        return
    # exits: the drain loop (the cycle through try_recv) is left only over the Empty / Closed edges of try_recv
    ok_exit = True
    loop = {x for x in b.reachable_from(rblk) if rblk in b.reachable_from(x)} | {rblk}
    n_exit = 0
    for u in sorted(loop):
        for v in b.normal_succ(u):
            if v in loop or not any(b.term(x)["k"] == "return" for x in b.reachable_from(v)):
                continue
            n_exit += 1
            facts = conds.bare(conds.dominating_facts(b, v)) if len([p_ for p_ in b.pred[v] if p_ in b.reachable()]) == 1 else conds.bare(conds.dominating_facts(b, u))
            vs = [x[2] for x in facts if x[0] == "variant" and x[2] <= frozenset(["Empty", "Closed", "Lagged"])]
            if not vs or not all(v_ <= frozenset(["Empty", "Closed"]) for v_ in vs):
                ok_exit = False
                ctx.violated("R06.4", lag, "loop-exits", b.line_at((v, 0)), "the lag handler leaves its drain loop on a path that is not the Empty/Closed edge of try_recv: it stops before reaching the newest message, so the Reset is stale")
    if not n_exit:
        ok_exit = False
        ctx.undecided("R06.4", lag, "loop-exits", lag.loc(), "no exit of the drain loop found")
    if ok_exit:
        ctx.holds("R06.4", lag, "loop-exits", lag.loc(), "the drain loop is left only under the Empty or Closed edge of try_recv")
    # every Ok overwrites the accumulator
    info = None
    sw = rt["target"]
    for _ in range(3):
        info = conds.switch_info(b, sw)
        if info:
            break
        sw = b.succ[sw][0] if len(b.succ[sw]) == 1 else None
        if sw is None:
            break
    ok_t = None
    if info:
        for t, fs in info["edges"].items():
            if any(x[0] == "variant" and x[2] == frozenset(["Ok"]) for x in fs):
                ok_t = t
    if ok_t is None:
        ctx.undecided("R06.4", lag, "newest-wins", lag.loc(), "Ok edge not found")
    else:
        wr = [loc[0] for loc, kind, payload in whole.get(acc, []) if b.edge_dominates((sw, ok_t), loc[0]) or loc[0] == ok_t]
        back = rblk in b.reachable_from(ok_t, avoid_blocks=wr) if ok_t not in wr else False
        ctx.verdict(bool(wr) and not back, "R06.4", lag, "newest-wins", b.line_at((ok_t, 0)), "every path from the Ok edge back to try_recv overwrites the remembered message (bb%s)" % wr,
                    "a received message does not always replace the remembered one: the handler can return an older state than the newest buffered message")
    # value returned on Empty is the state of the remembered message
    for loc, kind, payload in blocks_assigning_ret(b):
        facts = conds.bare(conds.dominating_facts(b, loc[0]))
        if any(x[0] == "variant" and x[2] == frozenset(["Empty"]) for x in facts) and kind == "assign":
            e = b.expr_of_rv(payload, 10, ())
            av = agg_variant(e)
            if av and av[1] == "Some":
                x = strip(e[5][0])
                ok = x[0] == "field" and x[2] == "state" and contains(x, lambda y: y[0] == "call" and y[4] == rloc)
                ctx.verdict(ok, "R06.4", lag, "returns-remembered-state", b.line_at(loc), "Some(msg.state) of the remembered message",
                            "the value returned after draining is `%s`, not the `state` of the last received message" % fmt(e, 4))


def r06_5(ctx):
    F = ctx.facts
    n = 0
    for f in F.find(crate=IM, name="poll_next"):
        if "VectorSubscriberBatchedStream" not in (f.raw.get("self_ty") or ""):
            continue
        msg_helpers = [g for g in F.find(crate=IM) if (g.raw.get("self_ty") or "").startswith("vector::OneOrManyDiffs<")]
        b = inl(F, f, find_lag_handler(F), *msg_helpers)
        trs = b.calls(r"broadcast::Receiver::<.*>::try_recv$")
        if not trs:
            ctx.undecided("R06.5", f, "batch-catches-up", f.loc(), "no try_recv drain loop in the batched stream")
            continue
        tloc = {(blk, len(b.blocks[blk]["stmts"])) for blk, _ in trs}
        for loc, s in b.iter_stmts():
            if s["k"] == "assign" and s["rv"]["k"] == "agg" and s["rv"].get("adt") == "std::option::Option" and s["rv"]["variant"] == "Some":
                e = b.expr_of_op(s["rv"]["ops"][0])
                if not contains(e, lambda y: y[0] == "call" and ecall_matches(y, r"into_vec$")):
                    continue
                n += 1
                facts = conds.bare(conds.dominating_facts(b, loc[0]))
                vs = [x for x in facts if x[0] == "variant" and strip(x[1], through_calls=False)[0] == "call" and strip(x[1], through_calls=False)[4] in tloc]
                inner = [x[2] for x in vs if x[2] <= frozenset(["Empty", "Closed", "Lagged"])]
                ok = bool(inner) and all(v <= frozenset(["Empty", "Closed"]) for v in inner)
                ctx.verdict(ok, "R06.5", f, "batch-catches-up", b.line_at(loc), "Some(batch) is yielded only on the Empty/Closed edge of try_recv",
                            "the batched stream yields its batch while more messages may be buffered (not on the Empty/Closed edge): an item does not bring the subscriber fully up to date")
    ctx.floor("R06.5", n, 1)


RECV_SITE = r"broadcast::Receiver::<.*>::try_recv$|ReusableBoxRecvFuture::<.*>::poll$|broadcast::Receiver::<.*>::recv$"


def r06_6(ctx):
    """lag => reset: once a receive reported `Lagged`, the skipped messages are gone; every path from that edge must go
    through the lag handler (which produces the Reset state) before the stream returns or receives again."""
    F = ctx.facts
    lag = find_lag_handler(F)
    if lag is None:
        return
    n = 0
    for f in F.find(crate=IM, name="poll_next"):
        st = f.raw.get("self_ty") or ""
        if f.raw.get("impl_trait") != "futures_core::Stream" or "VectorSubscriber" not in st:
            continue
        rfut = [g for g in F.find(crate=IM) if (g.raw.get("self_ty") or "").startswith("vector::subscriber::ReusableBoxRecvFuture<")]
        b = inl(F, f, lag, *rfut)
        lag_blks = [blk for blk, t in b.calls() if F.local_callee(f, t) is lag]
        recv_blks = {blk for blk, t in b.calls(RECV_SITE)}
        site_locs = {(blk, len(b.blocks[blk]["stmts"])): blk for blk in recv_blks}
        examined = set()
        for sblk in sorted(b.reachable()):
            info = conds.switch_info(b, sblk)
            if not info:
                continue
            for t, fs in info["edges"].items():
                lf = [x for x in fs if x[0] == "variant" and x[2] == frozenset(["Lagged"])]
                if not lf:
                    continue
                for x in lf:
                    for c in find_all(x[1], lambda y: y[0] == "call" and y[4] in site_locs):
                        examined.add(site_locs[c[4]])
                r = b.reachable_from(t, avoid_blocks=lag_blks)
                bad_ret = [x for x in r if b.term(x)["k"] == "return"]
                bad_recv = [x for x in r if x in recv_blks]
                where = b.line_at((t, 0))
                if bad_ret or bad_recv:
                    ctx.violated("R06.6", f, "lag=>reset", where,
                                 "after a receive answered `Lagged` (bb%d) the stream can %s without going through the lag handler `%s`: the overwritten messages are skipped and no Reset resynchronises the subscriber" % (
                                     sblk, "receive again (bb%d)" % bad_recv[0] if bad_recv else "return (bb%d)" % bad_ret[0], lag.name))
                else:
                    ctx.holds("R06.6", f, "lag=>reset", where, "every path from the Lagged edge (bb%d->bb%d) passes the lag handler (bb%s)" % (sblk, t, lag_blks))
        for blk in sorted(recv_blks):
            n += 1
            if blk not in examined and blk in b.reachable():
                ctx.violated("R06.6", f, "lag-distinguished", b.line_at((blk, 10 ** 6)),
                             "the result of the receive at bb%d is never examined for `Lagged`: a lagging receive is treated like another outcome and the skipped messages are lost without a Reset" % blk)
            elif blk in b.reachable():
                ctx.holds("R06.6", f, "lag-distinguished", b.line_at((blk, 10 ** 6)), "the receive's error is examined for Lagged")
    # receive sites anywhere else in the crate (a helper that drains the receiver when the subscriber is converted, ..): tokio
    # reports a lag exactly once, so a receive whose error is not examined for `Lagged` swallows it for good
    from ..inline import default_keep
    streams_ = {g.key for g in F.find(crate=IM, name="poll_next") if g.raw.get("impl_trait") == "futures_core::Stream" and "VectorSubscriber" in (g.raw.get("self_ty") or "")}
    for g in F.find(crate=IM):
        b = g.built
        if not b or g is lag:
            continue
        root = root_fn(F, g)
        ecs = entry_callers(F, root) if not default_keep(root) else []
        if root.key in streams_ or (ecs and all(ek.key in streams_ for ek in ecs)):
            continue   # judged above (the stream itself, or a private helper spliced into it)
        for blk, t in b.calls(RECV_SITE):
            if re.search(r"ReusableBoxRecvFuture::<.*>::poll$", t.get("callee") or ""):
                continue
            if "make_recv_future" in g.path or g.kind == "coroutine":
                continue   # the boxed receive future itself: its result is examined where it is polled
            n += 1
            loc_ = (blk, len(b.blocks[blk]["stmts"]))
            seen_lag = False
            for sblk in sorted(b.reachable()):
                info = conds.switch_info(b, sblk)
                if not info:
                    continue
                for t_, fs in info["edges"].items():
                    for x in fs:
                        if x[0] == "variant" and x[2] == frozenset(["Lagged"]) and contains(x[1], lambda y: y[0] == "call" and y[4] == loc_):
                            seen_lag = True
            ctx.verdict(seen_lag, "R06.6", root, "lag-distinguished", b.line_at((blk, 10 ** 6)), "the receive's error is examined for Lagged",
                        "`%s` receives from the channel without examining the error for `Lagged`: tokio reports a lag only once and moves the cursor, so the skipped messages are lost without a Reset (the stream later resumes from the oldest retained message on top of stale values)" % root.path)
    ctx.floor("R06.6", n, 3)



def r06_7(ctx):
    """Pending means "caught up": the stream reports Pending only as the answer of the channel (the receive future's own Pending).
    A Pending built anywhere else - e.g. a cooperative yield while diffs of a multi-diff message are still in hand - is observed
    with a replica that is a torn prefix of a transaction."""
    F = ctx.facts
    lag = find_lag_handler(F)
    n = 0
    for f in F.find(crate=IM, name="poll_next"):
        st = f.raw.get("self_ty") or ""
        if f.raw.get("impl_trait") != "futures_core::Stream" or "VectorSubscriber" not in st:
            continue
        rfut = [g for g in F.find(crate=IM) if (g.raw.get("self_ty") or "").startswith("vector::subscriber::ReusableBoxRecvFuture<")]
        b = inl(F, f, lag, *rfut)
        recv_blks = [blk for blk, t in b.calls(r"ReusableBoxRecvFuture::<.*>::poll$|Future>?::poll$")]
        for loc, kind, payload in blocks_assigning_ret(b):
            if kind != "assign":
                continue
            e = strip(b.expr_of_rv(payload, 6, (), loc), through_calls=False)
            v = agg_variant(e)
            if not v or v[0] != "std::task::Poll" or v[1] != "Pending":
                continue
            n += 1
            ok = any(b.dominates(rb, loc[0]) for rb in recv_blks)
            ctx.verdict(ok, "R06.7", f, "pending-is-the-channels-answer", b.line_at(loc), "Pending is returned after the receive future was polled",
                        "`%s` returns Pending on a path that has not asked the channel: items it already holds (the rest of a transaction's message) stay undelivered while the consumer sees Pending, i.e. observes a state the vector never had" % f.path)
    if n == 0:
        ctx.holds("R06.7", None, "pending-is-the-channels-answer", None, "the vector streams build no Pending of their own: the only Pending is the receive future's result passed through")



def r06_8(ctx):
    """a Reset replaces everything: diffs the stream still holds from earlier messages (a buffer field next to the receiver) describe
    states before the Reset and must be discarded on the path that produces it, else they are delivered after the Reset and applied to
    the wrong base."""
    F = ctx.facts
    lag = find_lag_handler(F)
    if lag is None:
        return
    n = 0
    for f in F.find(crate=IM, name="poll_next"):
        st = f.raw.get("self_ty") or ""
        if f.raw.get("impl_trait") != "futures_core::Stream" or "VectorSubscriber" not in st:
            continue
        a = F.adt(IM, st.split("<")[0])
        if not a:
            continue
        bufs = [fd["name"] for fd in a["variants"][0]["fields"] if re.search(r"(Vec|VecDeque|IntoIter|SmallVec|Vector)<.*VectorDiff<", fd["ty"])]
        if not bufs:
            ctx.holds("R06.8", f, "reset-discards-held-diffs", f.loc(), "`%s` keeps no buffer of diffs next to its receive state" % st.split("<")[0])
            continue
        b = inl(F, f, lag, desugar=True, tag="r06.8") or f.built
        lag_blks = [blk for blk, t in b.calls() if F.local_callee(f, t) is lag]
        for name in bufs:
            clears = {loc[0] for loc, s_ in assigns_to_field(b, name)}
            for blk, t in b.calls(r"::(clear|drain|truncate|split_off)$|^std::mem::(take|replace|swap)$"):
                if t["args"] and mentions_field(b.expr_of_op(t["args"][0]), name):
                    clears.add(blk)
            for lb in lag_blks:
                n += 1
                guarded = any(x[0] in ("call_true", "call_false", "bool") and mentions_field(x[-1] if isinstance(x[-1], tuple) else ("const",), name) for x in conds.bare(conds.dominating_facts(b, lb)) if isinstance(x, tuple))
                ok = b.post_dominated_by(lb, clears) or any(b.dominates(c, lb) for c in clears)
                where = b.line_at((lb, 10 ** 6))
                if ok:
                    ctx.holds("R06.8", f, "reset-discards-held-diffs:%s" % name, where, "`%s` is emptied on the path that produces the Reset" % name)
                elif guarded:
                    ctx.undecided("R06.8", f, "reset-discards-held-diffs:%s" % name, where, "the lag path is guarded by a test of `%s`" % name)
                else:
                    ctx.violated("R06.8", f, "reset-discards-held-diffs:%s" % name, where,
                                 "`%s` answers a lag with a Reset but keeps the diffs it still holds in `%s`: they are delivered after the Reset although they belong to states before it (stale Set / Remove indices, duplicated items)" % (f.path, name))
