"""C12 — adapters compose: a chain shows what applying each view in turn would show."""
import re
from ..facts import strip, ecall_matches, contains, find_all, fmt, mentions_field, local_depends_on
from .. import conds
from .common import *
from .adapters import *

CRATES = (UT,)

META = {
    "explanation": (
        "Static decision on MIR: R12.1 VectorObserver::into_parts of the three dynamic adapters (Head, Tail, Skip) hands the next stage a vector that is "
        "data-dependent on the adapter's limit/count (through truncate / truncate_from_end / skeep or an equivalent cut, including in-place cuts through "
        "&mut) - a value that does not depend on the parameter cannot be the view for all parameter values; R12.2 the (Vector, Stream) pair impl returns "
        "its parts unchanged, the subscriber impls call into_values_and_stream / into_values_and_batched_stream, and every VectorObserverExt method "
        "passes exactly the two parts obtained from into_parts to the adapter constructor. A chain's per-stage correctness is the conjunction of the "
        "per-adapter rules, so the structural rules of C09 (Head/Tail/Skip), C10 (Filter/FilterMap) and C11 (Sort*) are evaluated here as well."),
    "trusted_base": ["imbl::Vector", "rustc MIR construction"],
    "assumptions": [],
    "not_decided": "item identity inside a stage beyond lengths / indices / refill positions (C09)",
}
META["technique"] = "static analysis: dominance / provenance / typestate rules over rustc MIR facts (rustc_private driver) + path-partitioned abstract interpretation in a linear-inequality domain (view-length balance; Fourier-Motzkin emptiness, no execution, no external solver)"
META["explanation"] += (" R12.4 an adapter that owns a buffer of diffs waiting to be handed out (ready_values) resets that buffer on every path of its "
                        "into_parts (post-domination): the handed-over view already contains those diffs (F10, repaired by a479776; the reverse patch re-fires).")
META["explanation"] += ' R12.3 the view handed to the next stage is in source order (no odd number of rev() in the chain it is collected from).'
META["explanation"] += " R12.5 into_parts only reads the adapter's own replica / limit / count when it hands the adapter on as the stream (no mem::take / assignment / in-place cut of those fields)."
META["explanation"] += ' R12.4 counts an assignment to the waiting-diff buffer only if it does not store the old buffer again.'
META["explanation"] += " R12.6 the cut position of Tail's hand-over normalises (linear form over limit L and replica length P, under P >= L >= 1) to P - L."


def run(ctx):
    parts_rules(ctx)
    # per-stage rules
    from . import c09, c10, c11
    for m in (c09, c10, c11):
        m.run(ctx)


def parts_rules(ctx):
    """R12.1 / R12.2: what `into_parts` hands to the next stage, and that the ext methods pass both parts on."""
    if getattr(ctx, "_parts_done", None) == ctx.config:   # once per configuration
        return
    ctx._parts_done = ctx.config
    F = ctx.facts
    n = 0
    for imp in F.impls:
        if imp["crate"] != UT or imp["trait"] != "vector::traits::VectorObserver":
            continue
        fn_path = [p for p in imp["fns"] if p.endswith("::into_parts")]
        if not fn_path:
            continue
        f = F.fn(UT, fn_path[0])
        if f is None or not f.built:
            continue
        b = f.built
        st = imp["self_ty"]
        n += 1
        e = ret_expr(b)
        m = re.match(r"vector::(head|tail|skip)::(Head|Tail|Skip)<", st)
        if m:
            param = "count" if m.group(1) == "skip" else "limit"
            # first component of the returned tuple
            ok = None
            if e[0] == "agg" and e[1] == "tuple":
                # find the local moved into component 0
                for loc, kind, payload in blocks_assigning_ret(b):
                    if kind == "assign" and payload["k"] == "agg" and payload["of"] == "tuple":
                        op = payload["ops"][0]
                        if op["k"] in ("move", "copy") and not op["place"]["proj"]:
                            ok = local_depends_on(b, op["place"]["l"], lambda x: x[0] == "field" and x[2] == param)
                        else:
                            ok = contains(b.expr_of_op(op), lambda x: x[0] == "field" and x[2] == param)
            if ok is None:
                ctx.undecided("R12.1", f, "into_parts-hands-out-the-view", f.loc(), "shape of the returned value not recognised: %s" % fmt(e, 4))
            else:
                ctx.verdict(ok, "R12.1", f, "into_parts-hands-out-the-view", f.loc(), "the vector returned by into_parts depends on self.%s" % param,
                            "`%s` returns `%s`, which does not depend on the adapter's %s: the next stage starts from the adapter's internal copy of the source, not from its current view (e.g. dynamic_%s(..).filter(..) starts with every item although the view is empty until a %s arrives)" % (
                                f.path, fmt(e[5][0] if e[0] == "agg" else e, 4), param, m.group(1), param))
            # R12.3 the view is handed over in source order: a vector collected from an iterator chain with an odd number of
            # rev() is the view back to front (the next stage then never converges)
            for loc, kind, payload in blocks_assigning_ret(b):
                if kind == "assign" and payload["k"] == "agg" and payload["of"] == "tuple":
                    ve = b.expr_of_op(payload["ops"][0])
                    cols = find_all(ve, lambda y: y[0] == "call" and ecall_matches(y, r"Iterator>?::collect$|FromIterator<.*>>?::from_iter$"))
                    if cols:
                        revs = find_all(cols[0], lambda y: y[0] == "call" and ecall_matches(y, r"Iterator>?::rev$"))
                        ctx.verdict(len(revs) % 2 == 0, "R12.3", f, "view-in-source-order", f.loc(), "the collected view is in source order (%d rev())" % len(revs),
                                    "`%s` collects the view it hands to the next adapter from an iterator chain with %d `rev()`: the items arrive back to front, so the next stage starts from a reversed view" % (f.path, len(revs)))
            if m.group(1) == "skip":
                # while no count has arrived the skip view is empty: None must not be collapsed into a number
                collapses = [(blk, t) for blk, t in b.calls(r"Option::<usize>::(unwrap_or|unwrap_or_default|unwrap_or_else|map_or|map_or_else)$") if contains(b.expr_of_op(t["args"][0]), lambda x: x[0] == "field" and x[2] == "count") and b.locals[t["dest"]["l"]]["ty"] == "usize"]
                sw_none = any(contains(b.expr_of_op(t["args"][0]), lambda x: x[0] == "field" and x[2] == "count") for _, t in b.calls(r"Option::<usize>::(map_or|map_or_else|map)$"))
                for blk in sorted(b.reachable()):
                    info = conds.switch_info(b, blk)
                    if info and info["kind"] == "variant" and contains(info["subject"], lambda x: x[0] == "field" and x[2] == "count"):
                        sw_none = True
                if collapses:
                    ctx.violated("R12.1", f, "skip-view-empty-until-count", b.line_at((collapses[0][0], 10 ** 6)),
                                 "`%s` treats a count that has not arrived yet as a number (`%s`): a purely dynamic Skip hands its whole copy of the source to the next stage although its view is empty until the first count arrives" % (f.path, collapses[0][1]["callee"].split("::")[-1]))
                else:
                    ctx.verdict(True if sw_none else None, "R12.1", f, "skip-view-empty-until-count", f.loc(), "into_parts distinguishes count = None (empty view) from Some(count)")
        elif st.startswith("("):
            x = strip(e)
            ok = x[0] == "param" and x[1] == 1
            ctx.verdict(ok, "R12.2", f, "pair-is-identity", f.loc(), "the (Vector, Stream) pair is returned unchanged", "the pair impl of into_parts modifies its parts: %s" % fmt(e, 4))
        else:
            want = "into_values_and_batched_stream" if "Batched" in st else "into_values_and_stream"
            x = strip(e, through_calls=False)
            ok = x[0] == "call" and isinstance(x[1], str) and x[1].endswith("::" + want)
            ctx.verdict(ok, "R12.2", f, "subscriber-parts", f.loc(), "into_parts = %s()" % want, "`%s` does not return %s(): %s" % (f.path, want, fmt(e, 4)))
    ctx.floor("R12.1", n, 6)
    # ext methods pass the parts through
    k = 0
    for f in F.find(crate=UT):
        if not f.path.startswith("vector::traits::VectorObserverExt::") or not f.built:
            continue
        b = f.built
        ips = b.calls(r"VectorObserver(<.*>)?>?::into_parts$")
        if not ips:
            # pure delegation to a sibling ext method that is judged itself (`head(n)` = `dynamic_head_with_initial_value(n, empty)`)
            for blk, t in b.calls():
                g = F.local_callee(f, t)
                if g is not None and g is not f and g.path.startswith("vector::traits::VectorObserverExt::") and t["args"]:
                    a0 = strip(b.expr_of_op(t["args"][0]), through_calls=False)
                    k += 1
                    ctx.verdict(a0[0] == "param" and a0[1] == 1, "R12.2", f, "ext-passes-parts", b.line_at((blk, 10 ** 6)), "delegates to `%s` with the observer itself" % g.name,
                                "`%s` delegates to `%s` with something other than the observer it was called on" % (f.path, g.name))
            continue
        iloc = (ips[0][0], len(b.blocks[ips[0][0]]["stmts"]))
        ctors = [(blk, t) for blk, t in b.calls() if F.local_callee(f, t) is not None and F.local_callee(f, t).name in ("new", "dynamic", "dynamic_with_initial_limit", "dynamic_with_initial_count")]
        for blk, t in ctors:
            k += 1
            a0 = strip(b.expr_of_op(t["args"][0]), through_calls=False)
            a1 = strip(b.expr_of_op(t["args"][1]), through_calls=False)
            ok = (a0[0] == "field" and a0[2] == "0" and strip(a0[1], through_calls=False)[0] == "call" and strip(a0[1], through_calls=False)[4] == iloc
                  and a1[0] == "field" and a1[2] == "1" and strip(a1[1], through_calls=False)[0] == "call" and strip(a1[1], through_calls=False)[4] == iloc)
            ctx.verdict(ok, "R12.2", f, "ext-passes-parts", b.line_at((blk, 10 ** 6)), "%s(items, stream, ..) with both parts of into_parts()" % F.local_callee(f, t).name,
                        "`%s` does not hand the two parts of into_parts() unchanged to the adapter constructor" % f.path)
    ctx.floor("R12.2", k, 14)
    r12_4(ctx)
    r12_5(ctx)
    r12_6(ctx)



def r12_4(ctx):
    """an adapter that is handed to the next stage hands over its *current* view: diffs it has already computed but not yet handed
    out (its ready buffer) are part of that view - buffered_vector, limit and count already moved on - so `into_parts` must discard
    them (assign / take the buffer on every path); otherwise the next stage replays them on top of values that contain them."""
    F = ctx.facts
    n = 0
    for imp in F.impls:
        if imp["crate"] != UT or imp["trait"] != "vector::traits::VectorObserver":
            continue
        st = imp["self_ty"]
        adt = F.adt(UT, st.split("<")[0])
        if adt is None:
            continue
        bufs = [fd["name"] for fd in adt["variants"][0]["fields"] if re.search(r"Buf\b|SmallVec<|ArrayVec<|VecDeque<.*VectorDiff|Vec<.*VectorDiff", fd["ty"])]
        if not bufs:
            continue
        fn_path = [p for p in imp["fns"] if p.endswith("::into_parts")]
        f = F.fn(UT, fn_path[0]) if fn_path else None
        if f is None or not f.built:
            continue
        b = inl(F, f, desugar=True, tag="r12.4") or f.built
        for name in bufs:
            n += 1
            # an assignment counts only if what is stored is not the old buffer again (`stream.ready_values = ready_values` carries
            # the waiting diffs over instead of discarding them)
            clears = {loc[0] for loc, s_ in assigns_to_field(b, name)
                      if not contains(b.expr_of_rv(s_["rv"], 10, ()), lambda y: y[0] == "field" and y[2] == name and contains(y[1], lambda z: z[0] == "param" and z[1] == 1))}
            for blk, t in b.calls(r"^std::mem::(take|replace|swap)$|::(clear|drain|truncate)$"):
                if t["args"] and mentions_field(b.expr_of_op(t["args"][0]), name):
                    clears.add(blk)
            ok = bool(clears) and b.post_dominated_by(0, clears)
            ctx.verdict(ok, "R12.4", f, "handover-discards-waiting-diffs:%s" % name, f.loc(), "`%s` is reset on every path of into_parts" % name,
                        "`%s` hands the current view to the next adapter but keeps the diffs still waiting in `%s`: they are already reflected in the returned values (the adapter's replica and limit have moved on), so the next stage applies them a second time - `[1,2,3].dynamic_head(2)`, push_front(0), one poll, then `.head(10)` shows [0,0,1]" % (f.path, name))
    ctx.floor("R12.4", n, 3)


def r12_5(ctx):
    """`into_parts` returns the adapter itself as the stream of the next stage: it keeps translating source diffs against its own
    replica of the source (and its limit / count). The hand-over therefore only *reads* that state: a replica that is moved out
    (`mem::take`), overwritten or cut in place leaves the stream working from a wrong picture of the source - e.g. a Head that
    forgets the items it already shows stops emitting the PopBack that keeps the view within its limit."""
    F = ctx.facts
    n = 0
    for imp in F.impls:
        if imp["crate"] != UT or imp["trait"] != "vector::traits::VectorObserver":
            continue
        st = imp["self_ty"]
        adt = F.adt(UT, st.split("<")[0])
        if adt is None:
            continue
        state = [fd["name"] for fd in adt["variants"][0]["fields"]
                 if not re.search(r"Buf\b|SmallVec<|ArrayVec<|VecDeque<.*VectorDiff|Vec<.*VectorDiff", fd["ty"]) and re.search(r"imbl::|Vector<|usize|Option<usize>", fd["ty"])]
        if not state:
            continue
        fn_path = [p for p in imp["fns"] if p.endswith("::into_parts")]
        f = F.fn(UT, fn_path[0]) if fn_path else None
        if f is None or not f.built:
            continue
        b = inl(F, f, desugar=True, tag="r12.4") or f.built
        # is self handed on as the stream?
        hands_self = any(kind == "assign" and payload["k"] == "agg" and payload.get("of") == "tuple" and
                         any(contains(b.expr_of_op(o), lambda y: y[0] == "param" and y[1] == 1) and not has_field_access(b.expr_of_op(o)) for o in payload["ops"])
                         for loc, kind, payload in blocks_assigning_ret(b))
        if not hands_self:
            continue
        for name in state:
            n += 1
            hits = [loc for loc, s_ in assigns_to_field(b, name)]
            for blk, t in b.calls(r"^std::mem::(take|replace|swap)$|GenericVector::<.*>::(clear|truncate|split_off|retain|pop_front|pop_back|push_back|push_front|insert|remove|set|append|slice)$|Option::<.*>::(take|replace|insert)$"):
                if t["args"]:
                    e0 = b.expr_of_op(t["args"][0])
                    x0 = strip(e0, through_calls=False)
                    if x0[0] == "field" and x0[2] == name and contains(x0, lambda y: y[0] == "param" and y[1] == 1):
                        hits.append((blk, 0))
            ctx.verdict(not hits, "R12.5", f, "handover-keeps-own-state:%s" % name, b.line_at(hits[0]) if hits else f.loc(), "`%s` is only read by into_parts" % name,
                        "`%s` changes `self.%s` while handing the adapter on as the stream of the next stage: the stream keeps translating source diffs against that field, which no longer describes the source / the "
                        "parameter (a replica moved out with mem::take is empty: a Head then forwards pushes without the PopBack that keeps the view within its limit, a Tail / Skip computes positions against an empty vector)" % (f.path, name))
    ctx.floor("R12.5", n, 3)


def has_field_access(e):
    x = strip(e, through_calls=False)
    return x[0] == "field"


def r12_6(ctx):
    """the position at which Tail's hand-over cuts its replica: with more items than the limit the view starts at `len - limit`.
    The cut position is normalised to a linear form over L (the limit) and P (the replica's length) under `P >= L >= 1` - the same
    evaluation R09.10 applies to emitted indices - and must be P - L (swapped operands give L - P, clamped to 0: the whole replica
    is handed to the next stage)."""
    from .linear import Lin, sym, Normaliser
    F = ctx.facts
    n = 0
    for imp in F.impls:
        if imp["crate"] != UT or imp["trait"] != "vector::traits::VectorObserver" or not imp["self_ty"].startswith("vector::tail::Tail<"):
            continue
        fn_path = [p for p in imp["fns"] if p.endswith("::into_parts")]
        f = F.fn(UT, fn_path[0]) if fn_path else None
        if f is None or not f.built:
            continue
        # everything local is inlined here, also methods of private extension traits (`TruncateFromEnd::truncate_from_end`)
        b = inl(F, f, keep=lambda g: not (g.path.startswith("vector::tail::") or "vector::tail::" in g.path), desugar=True, tag="r12.6") or f.built

        def symbols(e):
            x = e
            while x[0] in ("ref", "deref", "cast"):
                x = x[1]
            if x[0] == "field" and x[2] == "limit":
                return "L"
            if x[0] == "call" and ecall_matches(x, r"::len$") and x[3] and mentions_field(x[3][0], "buffered_vector"):
                return "P"
            return None
        L, P, one = sym("L"), sym("P"), Lin(const=1)
        for blk, t in b.calls(r"GenericVector::<.*>::(split_at|skip|split_off|slice)$"):
            if len(t["args"]) < 2 or not mentions_field(b.expr_of_op(t["args"][0]), "buffered_vector"):
                continue
            n += 1
            op = b.expr_of_op(t["args"][1])
            nz = Normaliser(b, symbols, [P - L, L - one, P])
            r = nz.nf(op)
            where = b.line_at((blk, 10 ** 6))
            if r.opaque():
                ctx.undecided("R12.6", f, "handover-cut-position", where, "cut position `%s` not normalised" % fmt(op, 4))
                continue
            d = r - (P - L)
            if d.is_const() and d.c == 0:
                ctx.holds("R12.6", f, "handover-cut-position", where, "cut position = %s = P - L while the replica is longer than the limit" % fmt(op, 4))
            else:
                ctx.violated("R12.6", f, "handover-cut-position", where,
                             "`%s` cuts its replica at `%s`, which normalises to `%s` while the replica holds more items than the limit - the view of a Tail starts at `len - limit`: the next stage is handed items that are not in the view (e.g. the whole replica when the operands are swapped and the difference clamps to 0)" % (f.path, fmt(op, 4), r))
    return n
