"""Analysis of the poll leaf (the ObservableState function that parks wakers), shared by C01, C02, C03, C16."""
import re
from ..facts import strip, ecall_matches, contains, find_all, fmt, mentions_field, mentions_param
from .. import conds
from .common import *


def ret_sites(body):
    """Classify whole assignments of _0: ready_none / ready_some / pending / ready_other / call / other."""
    out = []
    for loc, kind, payload in blocks_assigning_ret(body):
        if loc[0] not in body.reachable():
            continue
        if kind == "call":
            out.append((loc, "call", payload))
            continue
        rv = payload
        cls = "other"
        if rv["k"] == "agg" and rv.get("adt") == "std::task::Poll":
            if rv["variant"] == "Pending":
                cls = "pending"
            else:
                e = body.expr_of_op(rv["ops"][0])
                av = agg_variant(e)
                if av and av[0] == "std::option::Option":
                    cls = "ready_none" if av[1] == "None" else "ready_some"
                else:
                    cls = "ready_other"
        elif rv["k"] == "agg" and rv.get("adt") == "std::option::Option":
            cls = "none" if rv["variant"] == "None" else "some"
        out.append((loc, cls, rv))
    return out


def _is_version(e):
    return mentions_field(e, "version")


def _is_sentinel(sentinel):
    return lambda e: is_const_int(e, sentinel)


def get_leaf(ctx, rule):
    leaves = find_poll_leaf(ctx.facts)
    if len(leaves) != 1:
        ctx.missing(rule, "poll leaf (role: pushes onto the wakers list) - found %d" % len(leaves))
        return None
    ctx.touch(leaves[0])
    return leaves[0]


def check_closed_clause(ctx, rule, sentinel):
    """closed => None and never a parked waker; None only when closed."""
    f = get_leaf(ctx, rule)
    if f is None:
        return
    b = f.built
    sites = ret_sites(b)
    nones = [s for s in sites if s[1] == "ready_none"]
    pend = [s for s in sites if s[1] == "pending"]
    pushes = b.calls(r"^std::vec::Vec::<std::task::Waker>::push$")
    if not nones:
        ctx.violated(rule, f, "none-site", f.loc(), "the poll leaf never returns Ready(None): a closed observable could not end its subscribers' streams")
    for loc, _, _ in nones:
        facts = conds.dominating_facts(b, loc[0])
        ok = conds.cmp_holds(facts, "Eq", _is_version, _is_sentinel(sentinel))
        ctx.verdict(ok, rule, f, "none-only-when-closed", b.line_at(loc),
                    "Ready(None) at bb%d is dominated by the edge version == %s (the constant close stores)" % (loc[0], sentinel),
                    "Ready(None) is returned on a path not guarded by `version == %s` (closed sentinel): the stream could end while an owner is alive" % sentinel)
    for blk, t in pushes:
        facts = conds.dominating_facts(b, blk)
        ok = conds.cmp_holds(facts, "Ne", _is_version, _is_sentinel(sentinel))
        ctx.call_sites += 1
        ctx.verdict(ok, rule, f, "never-parks-when-closed", b.line_at((blk, 10 ** 6)),
                    "the waker push at bb%d is dominated by the edge version != %s" % (blk, sentinel),
                    "a waker is parked on a path where the observable may already be closed (no `version != %s` edge dominates the push): that subscriber would never be woken again nor see None" % sentinel)
    for loc, _, _ in pend:
        facts = conds.dominating_facts(b, loc[0])
        ok = conds.cmp_holds(facts, "Ne", _is_version, _is_sentinel(sentinel))
        ctx.verdict(ok, rule, f, "pending-not-when-closed", b.line_at(loc),
                    "Pending at bb%d is dominated by the edge version != %s" % (loc[0], sentinel),
                    "Pending can be returned while the observable is closed: closed must answer None")


def check_ready_clause(ctx, rule):
    """Ready(Some) only on strict observed < current; on that path *observed = current is stored."""
    f = get_leaf(ctx, rule)
    if f is None:
        return
    b = f.built
    # the observed-version parameter: the &mut u64 argument
    obs_param = None
    for i in range(1, b.arg_count + 1):
        if b.locals[i]["ty"].replace(" ", "") in ("&mutu64",):
            obs_param = i
    if obs_param is None:
        ctx.missing(rule, "observed-version parameter (&mut u64) of the poll leaf")
        return
    is_obs = lambda e: contains(e, lambda x: x[0] == "param" and x[1] == obs_param)
    sites = ret_sites(b)
    somes = [s for s in sites if s[1] == "ready_some"]
    if not somes:
        ctx.violated(rule, f, "ready-site", f.loc(), "the poll leaf never returns Ready(Some): updates could not be observed")
    for loc, _, _ in somes:
        facts = conds.dominating_facts(b, loc[0])
        strict = conds.cmp_holds(facts, "Lt", is_obs, _is_version)
        nonstrict = conds.cmp_holds(facts, "Le", is_obs, _is_version)
        wrong = conds.cmp_holds(facts, "Gt", is_obs, _is_version) or conds.cmp_holds(facts, "Ge", is_obs, _is_version) or conds.cmp_holds(facts, "Eq", is_obs, _is_version)
        where = b.line_at(loc)
        if strict:
            ctx.holds(rule + "b", f, "ready-iff-unobserved", where, "Ready(Some) at bb%d is dominated by the edge observed < version (strict)" % loc[0])
        elif nonstrict:
            ctx.violated(rule + "b", f, "ready-iff-unobserved", where,
                         "Ready(Some) is guarded by observed <= version: a subscriber that has observed the current version is ready again (never becomes pending)")
        elif wrong:
            ctx.violated(rule + "b", f, "ready-iff-unobserved", where, "Ready(Some) is guarded by a comparison of the wrong polarity between observed and current version")
        elif conds.cmp_holds(facts, "Ne", is_obs, _is_version):
            ctx.violated(rule + "b", f, "ready-iff-unobserved", where,
                         "Ready(Some) is guarded by observed != version: that also holds when the current version is *smaller* than the observed one, i.e. after close() stored the sentinel 0 - a subscriber that was up to date gets its last value once more (with observed := 0) before it sees None")
        elif any(f2[0] == "cmp" for f2 in conds.bare(facts)):
            ctx.undecided(rule + "b", f, "ready-iff-unobserved", where, "guard of Ready(Some) not recognised")
        else:
            ctx.violated(rule + "b", f, "ready-iff-unobserved", where, "Ready(Some) is returned without comparing the observed version with the current one")
        # (c) store on that path: an assignment (*obs) = <version> that dominates the return site or is in its block before
        stores = []
        for sloc, s in b.iter_stmts():
            if s["k"] == "assign" and s["place"]["l"] == obs_param and s["place"]["proj"] == ["deref"]:
                stores.append((sloc, s))
        good = [(sloc, s) for sloc, s in stores if b.loc_dominates(sloc, loc) and _is_version(b.expr_of_rv(s["rv"], 8, ()))]
        if good:
            ctx.holds(rule + "c", f, "observed-stored", b.line_at(good[0][0]), "*observed = metadata.version is stored on the Ready(Some) path (bb%d)" % good[0][0][0])
        elif stores and any(b.loc_dominates(sloc, loc) for sloc, _ in stores):
            ctx.violated(rule + "c", f, "observed-stored", where, "the value stored into *observed on the Ready(Some) path is not the current version")
        else:
            ctx.violated(rule + "c", f, "observed-stored", where,
                         "Ready(Some) is returned without storing the current version into *observed: the same update is reported again on every poll")


def check_pending_registered(ctx, rule):
    """every Pending return is preceded (dominated) by a push of the caller's waker."""
    f = get_leaf(ctx, rule)
    if f is None:
        return
    b = f.built
    cx_param = None
    for i in range(1, b.arg_count + 1):
        if "std::task::Context" in b.locals[i]["ty"]:
            cx_param = i
    pushes = b.calls(r"^std::vec::Vec::<std::task::Waker>::push$")
    good_push = []
    for blk, t in pushes:
        ctx.call_sites += 1
        e = b.expr_of_op(t["args"][1])
        is_callers = contains(e, lambda x: x[0] == "call" and ecall_matches(x, r"^std::task::Context::<.*>::waker$") and x[3] and contains(x[3][0], lambda y: y[0] == "param" and y[1] == cx_param))
        target_ok = mentions_field(b.expr_of_op(t["args"][0]), "wakers")
        if is_callers and target_ok:
            good_push.append(blk)
            ctx.holds(rule, f, "push-callers-waker", b.line_at((blk, 10 ** 6)), "wakers.push(%s)" % fmt(e, 4))
        else:
            ctx.violated(rule, f, "push-callers-waker", b.line_at((blk, 10 ** 6)),
                         "the waker pushed onto the list is `%s`, not a clone of the polling task's `cx.waker()`" % fmt(e, 4))
    sites = ret_sites(b)
    pend = [s for s in sites if s[1] == "pending"]
    if not pend:
        ctx.undecided(rule, f, "pending-site", f.loc(), "no Pending literal in the poll leaf")
    for loc, _, _ in pend:
        ok = any(b.must_pass(0, loc[0], [p]) and p != loc[0] or (p == loc[0]) for p in good_push) if good_push else False
        # push terminates its block, so a Pending assignment in the successor block is dominated iff all paths pass the push block
        ok = any(b.must_pass(0, loc[0], [p]) for p in good_push)
        ctx.verdict(ok, rule, f, "pending=>registered", b.line_at(loc),
                    "every path to Pending (bb%d) passes through the waker push (bb%s)" % (loc[0], good_push),
                    "Pending is returned on a path that did not register the caller's waker: the task would never be woken")


def check_critical_section(ctx, rule):
    """one exclusive acquisition of the metadata lock; guard alive from version reads to the push."""
    f = get_leaf(ctx, rule)
    if f is None:
        return
    b = f.built
    acq = b.calls(r"^std::sync::(RwLock::<.*>::(write|read|try_write|try_read)|Mutex::<.*>::(lock|try_lock))$")
    ctx.call_sites += len(acq)
    on_meta = [(blk, t) for blk, t in acq if mentions_field(b.expr_of_op(t["args"][0]), "metadata")]
    excl = [(blk, t) for blk, t in on_meta if re.search(r"::(write|try_write|lock|try_lock)$", t["callee"])]
    shared = [(blk, t) for blk, t in on_meta if re.search(r"::(read|try_read)$", t["callee"])]
    where = b.line_at((on_meta[0][0], 10 ** 6)) if on_meta else f.loc()
    if len(on_meta) == 0:
        ctx.violated(rule, f, "one-critical-section", where, "the poll leaf does not lock the metadata at all")
        return
    if len(on_meta) > 1 or shared:
        ctx.violated(rule, f, "one-critical-section", where,
                     "the poll leaf acquires the metadata lock %d times (%s): the version test and the waker registration are not one critical section - an update between them is lost" % (
                         len(on_meta), ", ".join(t["callee"].split("::")[-1] for _, t in on_meta)))
        return
    ablk, at = excl[0]
    # the guard local: result of unwrap of the acquisition (or the acquisition itself)
    guard_locals = set()
    dl = at["dest"]["l"]
    guard_locals.add(dl)
    changed = True
    while changed:
        changed = False
        for blk, t in b.calls():
            if t["args"] and t["args"][0]["k"] == "move" and not t["args"][0]["place"]["proj"] and t["args"][0]["place"]["l"] in guard_locals \
                    and re.search(r"::(unwrap|expect|unwrap_or_else|into_inner)$", t["callee"] or ""):
                if t["dest"]["l"] not in guard_locals:
                    guard_locals.add(t["dest"]["l"])
                    changed = True
    # version reads and the push must all be derefs of the guard, and no drop of the guard on the way
    pushes = b.calls(r"^std::vec::Vec::<std::task::Waker>::push$")
    drops = [blk for blk in b.reachable() if b.term(blk)["k"] == "drop" and not b.term(blk)["place"]["proj"] and b.term(blk)["place"]["l"] in guard_locals]
    explicit = [blk for blk, t in b.calls(r"^std::mem::drop$") if t["args"][0]["k"] == "move" and t["args"][0]["place"]["l"] in guard_locals]
    bad = None
    for pblk, pt in pushes:
        # is there a path acquisition -> (drop of guard) -> push ?
        for d in drops + explicit:
            if d in b.reachable_from(ablk) and pblk in b.reachable_from(d):
                bad = (d, pblk)
        e = b.expr_of_op(pt["args"][0])
        through_guard = contains(e, lambda x: x[0] == "call" and x[3] and any(contains(a, lambda y: y[0] == "call" and ecall_matches(y, r"RwLock::<.*>::write$|Mutex::<.*>::lock$")) for a in x[3]))
        if not through_guard:
            bad = bad or ("not-through-guard", pblk)
    if bad:
        ctx.violated(rule, f, "guard-live-until-push", b.line_at((bad[1], 10 ** 6)),
                     "the metadata guard is released (bb%s) before the waker push (bb%s): version test and registration are not atomic" % bad)
    else:
        ctx.holds(rule, f, "one-critical-section", where,
                  "single exclusive acquisition `%s` on self.metadata (bb%d); guard locals %s are not dropped before the push (bb%s)" % (
                      at["callee"].split("::")[-1], ablk, sorted(guard_locals), [p for p, _ in pushes]))


def check_no_version_underflow(ctx, rule):
    """the closed marker is version 0 and the reset marker is observed 0: a *checked* subtraction between the current version and the
    observed version in the poll leaf (a "how far behind" figure for a log line) panics in debug builds unless the path has
    established which of the two is larger - in particular before the closed test, where version is 0 and observed is not."""
    f = get_leaf(ctx, rule)
    if f is None:
        return
    b = f.built
    obs_param = None
    for i in range(1, b.arg_count + 1):
        if b.locals[i]["ty"].replace(" ", "") in ("&mutu64",):
            obs_param = i
    if obs_param is None:
        return
    is_obs = lambda e: contains(e, lambda x: x[0] == "param" and x[1] == obs_param)
    n = 0
    for loc, s_ in b.iter_stmts():
        if s_["k"] != "assign" or s_["rv"]["k"] != "bin" or not str(s_["rv"]["op"]).startswith("Sub"):
            continue
        l_, r_ = b.expr_of_op(s_["rv"]["l"]), b.expr_of_op(s_["rv"]["r"])
        if _is_version(l_) and is_obs(r_):
            big, small = _is_version, is_obs
        elif is_obs(l_) and _is_version(r_):
            big, small = is_obs, _is_version
        else:
            continue
        n += 1
        facts = conds.dominating_facts(b, loc[0])
        ok = conds.cmp_holds(facts, "Lt", small, big) or conds.cmp_holds(facts, "Le", small, big)
        ctx.verdict(ok, rule, f, "version-difference-cannot-underflow", b.line_at(loc), "the subtraction is dominated by the comparison that makes it safe",
                    "the poll leaf subtracts `%s - %s` on a path that has not established which is larger: once the observable is closed the version is the marker 0 while the subscriber's observed version is not, so (with overflow checks, i.e. in every debug build) each poll after the end panics - and poisons the metadata lock - where it must answer None" % (
                        fmt(l_, 3), fmt(r_, 3)))
    if n == 0:
        ctx.holds(rule, f, "version-difference-cannot-underflow", f.loc(), "the poll leaf computes no difference between the current and the observed version")
