"""C08 — vector streams end only when the vector is dropped, and on its final state."""
import re
from ..facts import strip, ecall_matches, contains, find_all, fmt, mentions_field, mentions_call
from .. import conds
from .common import *
from .c06 import find_lag_handler

CRATES = (IM,)

META = {
    "explanation": (
        "Static decision on MIR: R08.1 every None (end of stream) produced in the two subscriber streams and in the lag handler is tied to a `Closed` edge "
        "of recv/try_recv (None on Lagged/Empty or unconditionally is flagged); R08.2 no clone of the broadcast Sender is stored anywhere and the sender "
        "field is never moved out, so Closed <=> the vector was dropped; R08.3 a received state is never discarded: in the lag handler every return on "
        "which the remembered message may be Some derives from it, and in both streams no None literal is returned on a path that holds a received "
        "message (Ok edge of recv/try_recv) - the batch collected so far must be delivered before the end. tokio's 'Closed only after the buffer is "
        "drained' and wake-on-drop are trusted."),
    "trusted_base": ["tokio::sync::broadcast: Closed is reported only after all senders are gone and the buffer is drained; a pending recv is woken by the last sender's drop", "rustc MIR construction"],
    "assumptions": [],
}
META["explanation"] += " R08.4 no value owning the broadcast Sender (the ObservableVector, the Sender) is handed to mem::forget / ManuallyDrop::new / Box::leak / into_raw: the channel is closed by the Sender's destructor."
META["explanation"] += ' none-sites: a per-arm result local (`let item = match .. { Closed => None, .. }`) is judged like a direct return; only a `let mut x = None` whose initialisation dominates another write is an accumulator.'
META["explanation"] += ' Shared in im_core: R06.7 (a Pending built after re-arming the receive future without polling it loses the wake-up and the end of the stream).'
META["explanation"] += ' Shared with C06: R06.1 (the contents carried by every message). R08.2 also sees the trait-method form of Sender::clone (what #[derive(Clone)] expands to).'

RECV = r"broadcast::Receiver::<.*>::(try_recv|recv)$|ReusableBoxRecvFuture::<.*>::poll$|ReusableBoxFuture::<.*>::poll$"


def stream_fns(F):
    out = []
    for f in F.find(crate=IM, name="poll_next"):
        st = f.raw.get("self_ty") or ""
        if f.raw.get("impl_trait") == "futures_core::Stream" and "VectorSubscriber" in st:
            out.append(f)
    return out


def run(ctx):
    F = ctx.facts
    # shared with C06/R06.1: what a lagging subscriber is reset to is the contents carried by the message it lagged onto (vector
    # helper, direct mutators, commit) - "the replica equals the final contents, lagged or not" rests on it
    from . import c06
    c06.r06_1(ctx)
    streams = stream_fns(F)
    lag = find_lag_handler(F)
    if len(streams) < 2:
        ctx.missing("R08.1", "Stream::poll_next of the two vector subscriber streams (found %d)" % len(streams))
    if lag is None:
        ctx.missing("R08.1", "lag handler")
        return
    r08_1(ctx, streams + [lag])
    r08_2(ctx)
    r08_3(ctx, streams, lag)
    r08_4(ctx)

    from . import groups
    groups.im_core(ctx)



def none_sites(body):
    """statements building Option::None (directly, or as payload of Poll::Ready) outside accumulator initialisations."""
    whole, _ = body.defs
    out = []
    for loc, s in body.iter_stmts():
        if s["k"] == "assign" and s["rv"]["k"] == "agg" and s["rv"].get("adt") == "std::option::Option" and s["rv"]["variant"] == "None":
            l = s["place"]["l"]
            if not s["place"]["proj"] and len(whole.get(l, [])) > 1 and body.locals[l]["name"] and \
                    any(d[0] != loc and body.dominates(loc[0], d[0][0]) for d in whole.get(l, [])):
                continue  # `let mut msg = None;` accumulator that is overwritten later (its initialisation dominates another write)
            ty = body.locals[l]["ty"]
            out.append((loc, ty))
    return out


def r08_1(ctx, fns):
    n = 0
    lagh = find_lag_handler(ctx.facts)
    for f in fns:
        b = inl(ctx.facts, f, lagh) if f is not lagh else f.built
        for loc, ty in none_sites(b):
            if "VectorDiff" not in ty and "GenericVector" not in ty and "Vector<" not in ty:
                continue
            n += 1
            facts = conds.bare(conds.dominating_facts(b, loc[0]))
            closed = any(x[0] == "variant" and "Closed" in x[2] and x[2] <= frozenset(["Closed"]) for x in facts)
            other = [x for x in facts if x[0] == "variant" and x[2] & frozenset(["Lagged", "Empty", "Ok"])]
            if closed:
                ctx.holds("R08.1", f, "none-only-on-closed", b.line_at(loc), "None is built under the Closed edge")
            else:
                ctx.violated("R08.1", f, "none-only-on-closed", b.line_at(loc),
                             "end of stream (None) is produced on a path that is not a `Closed` receive%s: the stream can end while the vector is alive" % (
                                 " (under %s)" % "/".join(sorted(set().union(*[x[2] for x in other]))) if other else ""))
    ctx.floor("R08.1", n, 2)


def r08_2(ctx):
    F = ctx.facts
    n = 0
    bad = False
    for f in F.find(crate=IM):
        b = f.built
        if not b:
            continue
        SENDER_DUP = r"broadcast::Sender(::)?<.*> as std::clone::Clone>::clone$|broadcast::Sender(::)?<.*>::(clone|downgrade)$|broadcast::WeakSender(::)?<.*>::upgrade$"
        dup_sites = {blk: t for blk, t in b.calls(SENDER_DUP)}
        for blk, t in b.calls(r"Clone>?::clone$"):
            # trait-method form (`Clone::clone(&self.sender)`, also what `#[derive(Clone)]` expands to): judged by the resolved impl
            if re.search(SENDER_DUP, str(t.get("resolved") or "")) or re.search(SENDER_DUP, str((t.get("extra") or {}).get("full") or "")):
                dup_sites.setdefault(blk, t)
        for blk, t in sorted(dup_sites.items()):
            n += 1
            bad = True
            ctx.violated("R08.2", f, "sender-cloned", b.line_at((blk, 10 ** 6)),
                         "`%s` clones the broadcast Sender: while that clone lives the channel never closes, so subscribers never see the end of the stream after the vector is dropped" % f.path)
        for loc, s in b.iter_stmts():
            if s["k"] == "assign" and s["rv"]["k"] == "use" and s["rv"]["op"]["k"] == "move" and last_field(s["rv"]["op"]["place"]) == "sender":
                n += 1
                bad = True
                ctx.violated("R08.2", f, "sender-moved-out", b.line_at(loc), "the sender field is moved out of the vector")
    # structs holding a Sender
    holders = [a["path"] for k, a in F.adts.items() if a["crate"] == IM and any("broadcast::Sender<" in fd["ty"] for v in a["variants"] for fd in v["fields"])]
    ok = holders == ["vector::ObservableVector"]
    ctx.verdict(ok and not bad, "R08.2", None, "single-long-lived-sender", None, "only ObservableVector holds a Sender; no clone / move-out anywhere (%d sites inspected)" % n,
                "types holding a broadcast Sender: %s" % holders)


def r08_3(ctx, streams, lag):
    F = ctx.facts
    # (a) lag handler: the remembered message is never discarded
    b = lag.built
    recvs = b.calls(r"broadcast::Receiver::<.*>::try_recv$")
    rlocs = {(blk, len(b.blocks[blk]["stmts"])) for blk, _ in recvs}
    whole, _ = b.defs
    acc = None
    for l, ds in whole.items():
        if b.locals[l]["name"] and len(ds) > 1:
            es = [b.expr_of_rv(p, 6, ()) for loc, k, p in ds if k == "assign"]
            if any(e[0] == "agg" and e[3] == "None" for e in es) and any(contains(e, lambda y: y[0] == "call" and y[4] in rlocs) or e[0] in ("local",) for e in es):
                acc = l
    if acc is None:
        ctx.undecided("R08.3", lag, "remembered-state-returned", lag.loc(), "accumulator of the lag handler not recognised")
    else:
        for loc, kind, payload in blocks_assigning_ret(b):
            e = b.expr_of_rv(payload, 10, ()) if kind == "assign" else b.expr_of_call(payload, 10, ())
            derives = contains(e, lambda y: y[0] == "call" and y[4] in rlocs)
            facts = conds.bare(conds.dominating_facts(b, loc[0]))
            acc_none = any(x[0] == "variant" and x[2] == frozenset(["None"]) and contains(x[1], lambda y: y[0] == "call" and y[4] in rlocs or y[0] == "phi") for x in facts)
            where = b.line_at(loc)
            if derives:
                ctx.holds("R08.3", lag, "remembered-state-returned", where, "the returned value derives from the remembered message: %s" % fmt(e, 4))
            elif acc_none:
                ctx.holds("R08.3", lag, "remembered-state-returned", where, "return under the edge `remembered message is None`")
            else:
                ctx.violated("R08.3", lag, "remembered-state-returned", where,
                             "the lag handler returns `%s` on a path where a newer message may already have been drained (`%s` may be Some): the final state is thrown away and the stream ends without a Reset" % (
                                 fmt(e, 3), b.locals[acc]["name"]))
    # (b) streams: no None literal while holding a received message
    for f in streams:
        sb = inl(F, f, lag)
        for loc, ty in none_sites(sb):
            facts = conds.bare(conds.dominating_facts(sb, loc[0]))
            oks = [x for x in facts if x[0] == "variant" and x[2] == frozenset(["Ok"])]
            if oks:
                ctx.violated("R08.3", f, "received-batch-delivered", sb.line_at(loc),
                             "None is returned on a path that already holds a received message (Ok edge of %s): the diffs collected so far are dropped and the stream ends before delivering what is pending" % fmt(oks[0][1], 2))
            else:
                ctx.holds("R08.3", f, "received-batch-delivered", sb.line_at(loc), "the None site is not under an Ok edge of a receive")


LEAK = r"^std::mem::forget$|ManuallyDrop::<.*>::new$|Box::<.*>::(leak|into_raw)$|Arc::<.*>::into_raw$"


def r08_4(ctx):
    """the sender goes away with the vector: `Closed` (end of every stream, wake-up of pending receivers) is produced by the
    drop of the one Sender, so a value that owns it - the ObservableVector, or the Sender itself - must never be handed to a
    function that suppresses its destructor. Expected count 0."""
    F = ctx.facts
    n = 0
    bad = 0
    for f in F.find(crate=IM):
        b = f.built
        if not b:
            continue
        for blk, t in b.calls(LEAK):
            n += 1
            tys = []
            for a in t["args"]:
                if a["k"] in ("move", "copy"):
                    ty = str(b.locals[a["place"]["l"]]["ty"])
                    if not a["place"]["proj"]:
                        tys.append(ty)
                    else:
                        tys.append(ty + " (projection)")
            owns = [ty for ty in tys if re.search(r"vector::ObservableVector<|broadcast::Sender<", ty) and "(projection)" not in ty and not ty.startswith("&")]
            if owns:
                bad += 1
                ctx.violated("R08.4", root_fn(F, f), "sender-destructor-suppressed", b.line_at((blk, 10 ** 6)),
                             "`%s` passes a `%s` to `%s`: the broadcast Sender inside is never dropped, so the channel is never closed - subscribers' streams stay Pending forever instead of ending, and pending ones are not woken" % (
                                 root_fn(F, f).path, owns[0], (t.get("callee") or "").split("::")[-1]))
    if not bad:
        ctx.holds("R08.4", None, "sender-destructor-suppressed=0", None, "%d destructor-suppressing call(s) in eyeball-im, none on a value owning the Sender" % n)
