"""C03 — a subscriber's stream ends exactly when the last owner is dropped."""
import re
from ..facts import strip, ecall_matches, contains, find_all, fmt, mentions_field, mentions_call
from .. import conds
from .common import *
from . import leaf

CRATES = (EY,)

META = {
    "explanation": (
        "Static decision of the structural clauses of C03 on MIR: (R03.1) call-graph who-may-call rule - the function that "
        "writes the closed sentinel into `version` is called only from the Drop impls of Observable and SharedObservable; "
        "(R03.2) the last-owner decision in SharedObservable's Drop is produced by an atomic release of the owner counter "
        "(Arc::into_inner success edge dominates the close call, close post-dominates that edge, no "
        "strong_count/weak_count load feeds the branch) - the schedule-dependent clause, decided without running a thread; "
        "(R03.3) Observable's Drop reaches close on every path; (R03.4) into_shared consumes `this` by mem::forget on every "
        "path and never drops it (drop-elaborated MIR); (R03.5) WeakObservable::upgrade rebuilds the handle from upgrades of "
        "the family's own counters; (R03.6) the poll leaf answers None exactly on the closed sentinel and never parks a waker "
        "then. Decides these necessary conditions, not the behaviour."),
    "trusted_base": ["rustc MIR construction and drop elaboration", "std::sync::Arc::into_inner hands the value to exactly one racing releaser",
                     "std::sync::Weak::upgrade fails once the strong count reached zero", "std::sync::RwLock"],
    "assumptions": ["user Drop impls of T do not call back into the same observable"],
}
META["explanation"] += ' R03.2 treats Arc::try_unwrap as racy (two concurrent last releases can both fail; only Arc::into_inner is atomic); R19.6 / R19.7 are evaluated here: every owner handle releases its share exactly once and no field of a live handle is replaced (clone_from / mem::replace / assignment).'
META["explanation"] += ' The eyeball poll typestate incl. re-arm pairing (R02.7) is evaluated here: polling again after the end answers None again.'
META["explanation"] += ' R03.8 the close function stores the closed sentinel on every path to its return. Shared: R01.5 (the sentinel is written by close only; every initialiser of the metadata - also a derived Default - starts at a version that is not the sentinel) and R19.8 (no leaked share of the owner counter, else nobody is ever last).'
META["explanation"] += ' R03.5 / R19.1 treat fallback combinators (unwrap_or_default, unwrap_or_else, or_else, map_or ..) on a failed upgrade as a fresh counter. R01.4e every Ready(Some) of a subscriber poll path (both flavours) is dominated by the poll leaf. R03.9 asserting non-blocking acquisitions (try_read / try_write / try_lock + unwrap, and the Lock helpers built from them) are called from Drop impls only.'
META["explanation"] += ' Shared with C19: R19.1 (every handle of one observable shares one owner counter).'
META["explanation"] += " R03.9 an asserting (unwrapped) non-blocking *write* acquisition of the state lock is violated everywhere, also in the last owner's Drop (readers may hold the lock then). R01.4b the ready clause rejects `observed != version` (true after close stored 0)."
META["explanation"] += ' R03.10 a checked subtraction between the current and the observed version in the poll leaf is dominated by the comparison that makes it safe (version 0 = closed).'


def run(ctx):
    F = ctx.facts
    closes = find_close_fn(F)
    if len(closes) != 1:
        ctx.missing("R03.1", "close function (role: stores a constant into `version`) - found %d" % len(closes))
        return
    close_fn, close_loc, sentinel = closes[0]
    ctx.touch(close_fn)

    # R03.1 who may close --------------------------------------------------
    n_ok = 0
    for cf in entry_callers(F, close_fn):
        st = cf.raw.get("self_ty") or ""
        is_owner_drop = cf.raw.get("impl_trait") == "std::ops::Drop" and (st.startswith("unique::Observable<") or st.startswith("shared::SharedObservable<"))
        ctx.call_sites += 1
        if is_owner_drop:
            n_ok += 1
            ctx.holds("R03.1", cf, "caller-of-close", cf.loc(), "close is called from an owner handle's Drop impl")
        else:
            ctx.violated("R03.1", cf, "caller-of-close", F.fns[ck].built.line_at((blk, 10 ** 6)) if False else cf.loc(),
                         "`%s` calls the close function `%s`; only the Drop impls of Observable / SharedObservable may end the stream" % (cf.path, close_fn.path))
    ctx.floor("R03.1", n_ok, 2)

    # R03.2 / R03.3 : the Drop impls ----------------------------------------
    for cf in F.find(crate=EY, pred=lambda f: f.raw.get("impl_trait") == "std::ops::Drop"):
        st = cf.raw.get("self_ty") or ""
        b = inl(F, cf, close_fn)
        close_calls = [(blk, t) for blk, t in b.calls() if F.local_callee(cf, t) is close_fn]
        if st.startswith("unique::Observable<"):
            if not close_calls:
                ctx.violated("R03.3", cf, "unique-drop-closes", cf.loc(), "Observable's Drop does not call close at all")
                continue
            ok = b.post_dominated_by(0, [blk for blk, _ in close_calls])
            ctx.verdict(ok, "R03.3", cf, "unique-drop-closes", b.line_at((close_calls[0][0], 10 ** 6)),
                        "every normal path from entry to return passes through the close call (bb%s)" % ",".join(str(x) for x, _ in close_calls),
                        "some path through Observable's Drop returns without closing: subscribers would never see the end of the stream")
        elif st.startswith("shared::SharedObservable<"):
            check_shared_drop(ctx, cf, b, close_calls)

    # R03.4 into_shared ------------------------------------------------------
    f = F.fn(EY, "unique::Observable::<T, L>::into_shared")
    if f is None:
        ctx.missing("R03.4", "unique::Observable::<T, L>::into_shared")
    else:
        check_into_shared(ctx, f, close_fn)

    # R03.5 upgrade ------------------------------------------------------------
    f = F.fn(EY, "shared::WeakObservable::<T, L>::upgrade")
    if f is None:
        ctx.missing("R03.5", "shared::WeakObservable::<T, L>::upgrade")
    else:
        check_upgrade(ctx, f)

    # R03.6 closed => None, never parked ---------------------------------------
    leaf.check_closed_clause(ctx, "R03.6", sentinel)
    leaf.check_no_version_underflow(ctx, "R03.10")   # a poll after the end answers None: it does not panic on the way to the closed test
    leaf.check_ready_clause(ctx, "R01.4")   # .. and never Some once closed: Ready(Some) only under observed < version (version 0 is never greater)
    from . import c16
    c16.ready_from_leaf(ctx, "R01.4e")   # ... and no poll path answers Some without asking the leaf (a reset subscriber after the end)
    # "always once the last one is gone": a subscriber parked around the close must still be woken / see the sentinel (C02 clauses)
    from . import c02
    leaf.check_critical_section(ctx, "R02.1")
    leaf.check_pending_registered(ctx, "R02.2")
    wakes = find_wake_fn(F)
    if len(wakes) == 1:
        c02.r02_3(ctx, wakes[0])
        c02.r02_4(ctx, wakes[0])
        c02.r02_5(ctx, wakes[0])
    # "the last owner": every owner handle releases its share of the owner counter exactly once, and the fields of a live
    # handle are never replaced (an overwritten handle never releases its share, so nobody is ever "last")
    # "and always once the last one is gone": polling again after the end answers None again - the poll paths re-arm what
    # they completed on every path (also on the closed path) and never return Pending out of thin air
    from . import groups
    if not getattr(ctx, "_in_typestate", False):
        ctx._in_typestate = True
        groups.eyeball_poll_typestate(ctx)
        ctx._in_typestate = False
    from . import c19
    counter = owner_counter_field(F)
    if counter is not None:
        c19.r19_6(ctx, counter)
        c19.r19_7(ctx, counter)
        c19.r19_8(ctx, counter)   # a leaked share of the owner counter: nobody is ever the last owner
        c19.r19_1(ctx, counter)   # every handle of one observable shares one owner counter (a clone with a counter of its own closes early)
    r03_9(ctx)
    # R03.8 the close function marks the state closed on every path (no "nobody is parked" early return before the store)
    cb = close_fn.built
    stores = sorted({loc[0] for loc, s_ in assigns_to_field(cb, "version")})
    ok = bool(stores) and cb.post_dominated_by(0, stores)
    ctx.verdict(ok, "R03.8", close_fn, "close-marks-on-every-path", cb.line_at((stores[0], 0)) if stores else close_fn.loc(), "every path of `%s` stores the closed sentinel" % close_fn.name,
                "`%s` can return without storing the closed sentinel: a subscriber that is not parked at that moment keeps waiting for an update that can never come" % close_fn.path)
    # "never while an owning handle exists": the sentinel is written by close only, and no constructor starts at it
    from . import c01
    notify = find_notify_fn(F)
    if notify and not getattr(ctx, "_in_r01_5", False):
        ctx._in_r01_5 = True
        c01.r01_5(ctx, c01.NotifySet(notify), closes[0], sentinel)
        ctx._in_r01_5 = False


def owner_counter_field(F):
    a = F.adt(EY, "shared::SharedObservable")
    if not a:
        return None
    for fd in a["variants"][0]["fields"]:
        if "Arc<()>" in fd["ty"]:
            return fd["name"]
    return None


def check_shared_drop(ctx, cf, b, close_calls):
    F = ctx.facts
    counter = owner_counter_field(F)
    if counter is None:
        ctx.missing("R03.2", "owner counter field (Arc<()>) of SharedObservable")
        return
    if not close_calls:
        ctx.violated("R03.2", cf, "shared-drop-closes", cf.loc(), "SharedObservable's Drop never calls close: the stream cannot end")
        return
    ATOMIC = r"^std::sync::Arc::<.*>::into_inner$"
    # Arc::try_unwrap is NOT such a test: of two threads releasing the last two references at the same time both can fail
    # (each still sees the other's reference) and both then drop their Arc - std's documentation of Arc::into_inner says so
    RACY = r"^std::sync::Arc::<.*>::try_unwrap$"
    # plain inspections of the reference counts (no release): strong_count / weak_count loads, and get_mut / is_unique,
    # which additionally fail while Weak references exist (every WeakObservable holds one on the owner counter)
    COUNT = r"^std::sync::(Arc|Weak)::<.*>::(strong_count|weak_count|get_mut|is_unique|make_mut)$"
    for blk, t in close_calls:
        ctx.call_sites += 1
        where = b.line_at((blk, 10 ** 6))
        facts = conds.dominating_facts(b, blk)
        # (iii) no plain load of a reference count feeds the decision
        fed_by_count = [(s, tt, f) for s, tt, f in facts if contains_in_fact(f, lambda x: x[0] == "call" and ecall_matches(x, COUNT))]
        if fed_by_count:
            s, tt, f = fed_by_count[0]
            ctx.violated("R03.2", cf, "decision=count-load", b.line_at((s, 10 ** 6)),
                         "the branch guarding close (edge bb%d->bb%d) depends on a plain inspection of the reference count, `%s`: check-then-act on a shared count - "
                         "two last clones dropped concurrently can both see 2 and neither closes; Arc::get_mut/is_unique also fail while a WeakObservable exists" % (s, tt, fmt_fact(f)))
            continue
        racy = [(s, tt, f) for s, tt, f in facts if contains_in_fact(f, lambda x: x[0] == "call" and ecall_matches(x, RACY))]
        if racy:
            s, tt, f = racy[0]
            ctx.violated("R03.2", cf, "decision=try_unwrap", b.line_at((s, 10 ** 6)),
                         "the branch guarding close depends on `Arc::try_unwrap`: when the last two clones are dropped at the same time on two threads both calls can fail "
                         "(each sees the other's reference), both handles then just release theirs and nobody closes - only Arc::into_inner guarantees that exactly one releaser gets the value")
            continue
        # (i) success edge of an atomic last-reference test on the owner counter dominates close
        ok_edge = None
        for s, tt, f in facts:
            if f[0] == "variant" and f[2] <= frozenset(["Some", "Ok"]):
                x = strip(f[1], through_calls=False)
                if x[0] == "call" and ecall_matches(x, ATOMIC) and x[3] and mentions_field(x[3][0], counter):
                    ok_edge = (s, tt, x)
                    break
        wrong_edge = None
        for s, tt, f in facts:
            if f[0] == "variant" and f[2] <= frozenset(["None", "Err"]):
                x = strip(f[1], through_calls=False)
                if x[0] == "call" and ecall_matches(x, ATOMIC) and x[3] and mentions_field(x[3][0], counter):
                    wrong_edge = (s, tt, x)
        if ok_edge is None and wrong_edge is not None:
            ctx.violated("R03.2", cf, "decision=inverted", where,
                         "close is called on the None/Err edge of `%s`, i.e. exactly when this handle was NOT the last owner: the stream ends while other clones are alive and never ends when the last one goes" % fmt(wrong_edge[2], 3))
            continue
        if ok_edge is None:
            if not facts:
                ctx.violated("R03.2", cf, "decision=unconditional", where,
                             "close is called unconditionally in SharedObservable's Drop: the stream would end while other clones are alive")
            else:
                ctx.undecided("R03.2", cf, "decision=unrecognised", where,
                              "close is guarded by %s, which is neither an atomic last-reference test nor a count load" % "; ".join(fmt_fact(f) for _, _, f in facts))
            continue
        s, tt, x = ok_edge
        # (ii) always closes when last: close post-dominates the success edge
        ok2 = b.post_dominated_by(tt, [blk])
        if not ok2:
            ctx.violated("R03.2", cf, "last-owner-not-always-closing", where,
                         "after the atomic test succeeds (bb%d) a path returns without calling close" % tt)
            continue
        ctx.holds("R03.2", cf, "decision=atomic-release", where,
                  "close (bb%d) is dominated by the Some/Ok edge bb%d->bb%d of `%s` on self.%s and post-dominates it; no count load in the guard" % (blk, s, tt, fmt(x, 3), counter))


def contains_in_fact(f, pred):
    for part in f[1:]:
        if isinstance(part, tuple) and contains(part, pred):
            return True
    return False


def fmt_fact(f):
    if f[0] == "cmp":
        return "%s(%s, %s)" % (f[1], fmt(f[2], 4), fmt(f[3], 4))
    if f[0] == "variant":
        return "%s is %s" % (fmt(f[1], 4), "|".join(sorted(f[2])))
    if f[0] == "truth":
        return "%s == %s" % (fmt(f[1], 4), f[2])
    return str(f[:2])


def check_into_shared(ctx, f, close_fn):
    F = ctx.facts
    b = f.elab
    if b is None:
        ctx.missing("R03.4", "drop-elaborated body of into_shared")
        return
    reach = b.reachable()
    this_ty = b.locals[1]["ty"]
    # aliases of `this`: locals assigned `move _1`
    aliases = {1}
    for loc, s in b.iter_stmts():
        if s["k"] == "assign" and not s["place"]["proj"] and s["rv"]["k"] == "use" and s["rv"]["op"]["k"] == "move" \
                and not s["rv"]["op"]["place"]["proj"] and s["rv"]["op"]["place"]["l"] in aliases:
            aliases.add(s["place"]["l"])
    forget_blocks = []
    for blk, t in b.calls(r"^std::mem::forget$"):
        a = t["args"][0]
        if a["k"] == "move" and not a["place"]["proj"] and a["place"]["l"] in aliases:
            forget_blocks.append(blk)
    drops = []
    for blk in sorted(reach):
        t = b.term(blk)
        if t["k"] == "drop" and not t["place"]["proj"] and b.locals[t["place"]["l"]]["ty"] == this_ty:
            drops.append(blk)
    calls_close = [blk for blk, t in b.calls() if F.local_callee(f, t) is close_fn]
    ctx.call_sites += len(b.calls())
    if drops:
        ctx.violated("R03.4", f, "this-dropped", b.line_at((drops[0], 10 ** 6)),
                     "`this: %s` is dropped on a normal path (bb%d) of into_shared: its Drop impl closes the state, ending every subscriber's stream although an owner (the returned SharedObservable) exists" % (this_ty, drops[0]))
    elif calls_close:
        ctx.violated("R03.4", f, "calls-close", b.line_at((calls_close[0], 10 ** 6)), "into_shared calls close directly")
    elif not forget_blocks:
        ctx.undecided("R03.4", f, "this-consumed", f.loc(), "`this` is neither dropped nor passed to mem::forget on the normal path; consumption idiom not recognised")
    else:
        ok = b.post_dominated_by(0, forget_blocks)
        ctx.verdict(ok, "R03.4", f, "this-consumed", b.line_at((forget_blocks[0], 10 ** 6)),
                    "every normal path moves `this` into mem::forget (bb%s); no normal-path drop of an Observable; close unreachable" % forget_blocks,
                    "a normal path returns from into_shared without forgetting `this`")


def r03_9(ctx):
    """asserting non-blocking acquisitions (`try_read().unwrap()` and the Lock helpers built from it) are sound only where nobody
    else can hold the lock: in the Drop of the last owner. Anywhere else they panic when a writer is active."""
    F = ctx.facts
    asserting = []
    for g in F.find(crate=EY):
        b = g.built
        if not b:
            continue
        for blk, t in b.calls(r"(Result|Option)::<.*>::(unwrap|expect)$"):
            e = b.expr_of_op(t["args"][0])
            if contains(e, lambda x: x[0] == "call" and ecall_matches(x, r"::try_(read|write|lock)(_owned)?$")):
                asserting.append((g, blk))
    # an asserting *write* attempt is wrong even in the last owner's Drop: subscribers may hold read guards at that moment
    for g, blk in asserting:
        b_ = g.built
        t_ = b_.term(blk)
        e_ = b_.expr_of_op(t_["args"][0])
        if contains(e_, lambda x: x[0] == "call" and ecall_matches(x, r"::try_write(_owned)?$")):
            ctx.violated("R03.9", root_fn(F, g), "asserting-write-acquisition", b_.line_at((blk, 10 ** 6)),
                         "`%s` unwraps a non-blocking *write* acquisition of the state lock: readers (a subscriber inside next / get / a guard from next_ref) can hold the lock when the last owner is dropped, the attempt then fails, Drop panics and the state is never closed" % root_fn(F, g).path)
    names = {g.name for g, _ in asserting if g.raw.get("impl_trait") == "lock::Lock"}
    helpers = {g.key for g, _ in asserting}
    n = 0
    for g, blk in asserting:
        if g.raw.get("impl_trait") == "lock::Lock":
            continue
        n += 1
        root = root_fn(F, g)
        ok = root.raw.get("impl_trait") == "std::ops::Drop"
        ctx.verdict(ok, "R03.9", root, "asserting-acquisition-only-in-drop", g.built.line_at((blk, 10 ** 6)), "try-lock + unwrap inside a Drop impl",
                    "`%s` takes the state lock with a non-blocking attempt and unwraps it outside the last owner's Drop: it panics whenever another handle holds the write lock at that moment" % root.path)
    for g in F.find(crate=EY):
        b = g.built
        if not b or g.key in helpers:
            continue
        for blk, t in b.calls():
            c = F.local_callee(g, t)
            nm = (t.get("callee") or "").split("::")[-1]
            if (c is not None and c.key in helpers) or (c is None and nm in names and "Lock" in (t.get("callee") or "")):
                n += 1
                root = root_fn(F, g)
                from ..inline import default_keep
                # a private helper is judged by the entry points it is reached from
                entries = [root] if default_keep(root) else (entry_callers(F, root) or [root])
                ok = all(e_.raw.get("impl_trait") == "std::ops::Drop" for e_ in entries)
                if not ok:
                    root = [e_ for e_ in entries if e_.raw.get("impl_trait") != "std::ops::Drop"][0]
                ctx.verdict(ok, "R03.9", root, "asserting-acquisition-only-in-drop", b.line_at((blk, 10 ** 6)), "`%s` is called from a Drop impl" % nm,
                            "`%s` calls `%s` (a non-blocking acquisition that is unwrapped) outside the last owner's Drop: the call panics whenever another handle holds the write lock at that moment, instead of answering" % (root.path, nm))
    ctx.floor("R03.9", n, 1)


# combinators that supply a substitute when an upgrade / lookup fails
FALLBACK = r"::unwrap_or_default$|::unwrap_or_else$|::unwrap_or$|::or_else$|Option::<.*>::or$|::map_or$|::map_or_else$|::get_or_insert(_with)?$|::or_insert(_with)?$|::get_or_init$"


def check_upgrade(ctx, f):
    F = ctx.facts
    b = f.built
    counter = owner_counter_field(F)
    if counter is None:
        return   # reported as a missing anchor by R03.2 (the owner counter is not an Arc<()> any more): nothing to compare with here
    # find the SharedObservable aggregate
    aggs = []
    for loc, s in b.iter_stmts():
        if s["k"] == "assign" and s["rv"]["k"] == "agg" and s["rv"].get("adt") == "shared::SharedObservable":
            aggs.append((loc, s))
    # the family constructor (fresh owner counter) must not be used here, neither called nor passed as a function item
    fam = [g for g in F.find(crate=EY) if g.built and any(s_["k"] == "assign" and s_["rv"]["k"] == "agg" and s_["rv"].get("adt") == "shared::SharedObservable"
                                                         and counter in s_["rv"]["fields"] and contains(g.built.expr_of_op(s_["rv"]["ops"][s_["rv"]["fields"].index(counter)]), lambda x: x[0] == "call" and ecall_matches(x, r"Arc::<.*>::new$"))
                                                         for _, s_ in g.built.iter_stmts())]
    for g in fam:
        uses = [blk for blk, t in b.calls() if F.local_callee(f, t) is g]
        items = []
        for blk, t in b.calls():
            for a in t["args"]:
                if a["k"] == "const" and a.get("fn") and F.fns.get(f.crate + "::" + a["fn"]) is g:
                    items.append(blk)
        if uses or items:
            ctx.violated("R03.5", f, "upgrade-uses-family-constructor", b.line_at(((uses + items)[0], 10 ** 6)),
                         "upgrade builds its result through `%s`, i.e. with a fresh owner counter: the upgraded handle believes it is the only clone, so dropping it closes the state while other owners are alive (and observable_count forks)" % g.path)
            return
    if not aggs:
        ctx.undecided("R03.5", f, "upgrade-provenance", f.loc(), "no direct construction of SharedObservable in upgrade (constructed elsewhere?)")
        return
    for loc, s in aggs:
        rv = s["rv"]
        for name, op in zip(rv["fields"], rv["ops"]):
            e = b.expr_of_op(op)
            ups = find_all(e, lambda x: x[0] == "call" and ecall_matches(x, r"^std::sync::Weak::<.*>::upgrade$"))
            fresh = find_all(e, lambda x: x[0] == "call" and ecall_matches(x, r"^std::sync::Arc::<.*>::(new|default|new_cyclic)$|Default>::default$|" + FALLBACK))
            good = [u for u in ups if u[3] and mentions_field(u[3][0], name) and contains(u[3][0], lambda x: x[0] == "param" and x[1] == 1)]
            where = b.line_at(loc)
            if fresh:
                ctx.violated("R03.5", f, "field=%s" % name, where,
                             "upgrade fills `%s` with a fresh `%s` instead of upgrading the family's own counter: a closed observable would be resurrected / the owner count forks" % (name, fmt(fresh[0], 3)))
            elif good:
                ctx.holds("R03.5", f, "field=%s" % name, where, "`%s` = payload of Weak::upgrade(&self.%s)" % (name, name))
            elif ups:
                ctx.violated("R03.5", f, "field=%s" % name, where,
                             "`%s` is upgraded from `%s`, not from self.%s" % (name, fmt(ups[0], 4), name))
            else:
                ctx.undecided("R03.5", f, "field=%s" % name, where, "provenance of `%s` not recognised: %s" % (name, fmt(e, 4)))
