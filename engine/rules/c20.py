"""C20 — every value given to the library is dropped exactly once, and nothing leaks."""
import re
from ..facts import strip, ecall_matches, contains, find_all, fmt, mentions_field, mentions_call
from .. import conds
from .common import *
from . import c02, c03

CRATES = (EY, IM,)

META = {
    "explanation": (
        "Safe Rust guarantees exactly-once drop and forbids use-after-drop; a leak needs forget/ManuallyDrop/into_raw/leak or a reference cycle. The "
        "property therefore reduces to a COMPLETE INVENTORY plus a structural obligation per site. R20.1 inventory (HIR + MIR): every user-written unsafe "
        "block / unsafe impl / unsafe fn in /repo and every user-written call of a raw- or leak-capable function must be in the audited table; an unlisted "
        "site fails the check (deliberate fail-closed exception, DESIGN 7.3). R20.2 into_shared: ptr::read reads a field of `this`, `this` is consumed by "
        "mem::forget on every path, nothing that can unwind lies between the two, and `this` has no other field. R20.3 reuse_pin_box (drop-elaborated MIR): "
        "the layout test's mismatch edge returns before Box::into_raw; the guard is built before drop_in_place and is consumed exactly once on both of its "
        "outgoing edges (normal: moved into call; unwind: dropped under its drop flag); the guard closure writes the new value before Box::from_raw; "
        "CallOnDrop::call wraps self in ManuallyDrop before taking f; Drop takes and calls once. R20.4 unreachable_unchecked sits on the impossible edge of a "
        "switch over the value just swapped out of self.state inside the YieldBatch arm, with no write to self.state in between. R20.5 unsafe impl Sync for "
        "ReusableBoxFuture: no &self method touches `boxed`; unsafe impl Send for ReusableBoxRecvFuture: the in-crate witness exists and has the expected "
        "shape. R20.6 reference cycles: stored wakers are removed on every update and on close (C02/R02.4, R02.5). R20.7 the owner counter wrapped in "
        "ManuallyDrop is taken only in SharedObservable's Drop, once per path, and released on every path. Soundness inside dependencies is not decided."),
    "trusted_base": ["rustc borrow checker and drop elaboration", "soundness of std, imbl, tokio, smallvec, arrayvec, pin-project-lite, readlock", "auto-trait table of engine/rules/autotrait.py (imbl::Vector<T>: Send/Sync need T: Send + Sync; tokio broadcast Receiver<M>: M: Send; Arc / Mutex / RwLock / Cell as documented by std)"],
    "assumptions": [],
    "not_decided": "soundness inside imbl / tokio / smallvec / arrayvec / pin-project-lite",
}
META["explanation"] += ' R02.1 (closed test and waker push in one critical section) is evaluated here as part of R20.6: a waker parked after close() is never drained and keeps a state -> waker -> task -> subscriber -> state cycle alive.'
META["explanation"] += " R20.6 only the state's waker list may hold a Waker: no handle type (Subscriber, its lock-flavour states) has a field whose type contains std::task::Waker."
META["explanation"] += ' Shared with C19: R19.9 (type ledger: only the counted handles own a strong state reference - a WeakObservable or a guard that owns one keeps the value alive and closes reference cycles) and R19.11 (no hidden handle moved into a returned future / closure).'
META["explanation"] += " R20.5 marker-impl-bound (engine/rules/autotrait.py): for every `unsafe impl<T: ..> Send for X<T>` the markers T needs are computed from the types X stores (fields; for a type-erased reusable box the parameter types of the async fn whose future X puts into it) by structural recursion with a small trusted table for external containers, and must be among the impl's declared bounds (re-derives F8, repaired by 7b0ee1a); the Send witness must instantiate make_recv_future with the stored message type."
META["explanation"] += ' RAW call list extended by SmallVec::from_buf_and_len / set_len / from_raw_parts (safe but leak-capable). Also evaluated: the C03 rule set (an owner Drop that skips the close leaves parked wakers in a cycle).'

RAW = (r"^std::mem::forget$|ManuallyDrop::<.*>::(new|take|drop|into_inner)$|Box::<.*>::(into_raw|from_raw|leak|into_non_null|from_non_null)$|"
       r"Arc::<.*>::(into_raw|from_raw|increment_strong_count|decrement_strong_count)$|Rc::<.*>::(into_raw|from_raw)$|Weak::<.*>::(into_raw|from_raw)$|"
       r"^std::ptr::(read|write|drop_in_place|read_volatile|write_volatile|replace|swap|copy|copy_nonoverlapping|read_unaligned|write_unaligned)$|"
       r"mut_ptr::<impl \*mut T>::(write|read|drop_in_place|cast|add|offset|replace|swap)$|const_ptr::<impl \*const T>::(read|cast|add|offset)$|"
       r"unreachable_unchecked$|into_inner_unchecked$|new_unchecked$|get_unchecked(_mut)?$|map_unchecked(_mut)?$|MaybeUninit|::transmute(_copy)?$|assume_init|from_raw_parts(_mut)?$|"
       r"Vec::<.*>::(set_len|leak|into_raw_parts)$|SmallVec::<.*>::(from_buf_and_len|from_buf_and_len_unchecked|set_len|from_raw_parts|into_raw_parts)$|ArrayVec::<.*>::set_len$|NonNull::<.*>::(new_unchecked|as_ref|as_mut)$|std::mem::(zeroed|uninitialized)$|String::<.*>::leak$")

# the audited table: (crate, root fn, short callee) -> (count, obligation)
AUDITED_CALLS = {
    ("eyeball", "unique::Observable::<T, L>::into_shared", "read"): (1, "R20.2"),
    ("eyeball", "unique::Observable::<T, L>::into_shared", "forget"): (1, "R20.2"),
    ("eyeball", "shared::SharedObservable::<T, L>::from_inner", "new"): (1, "R20.7"),
    ("eyeball", "shared::WeakObservable::<T, L>::upgrade", "new"): (1, "R20.7"),
    ("eyeball", "<shared::SharedObservable<T, L> as std::ops::Drop>::drop", "take"): (1, "R20.7"),
    ("eyeball_im", "reusable_box::reuse_pin_box", "into_inner_unchecked"): (1, "R20.3"),
    ("eyeball_im", "reusable_box::reuse_pin_box", "into_raw"): (1, "R20.3"),
    ("eyeball_im", "reusable_box::reuse_pin_box", "drop_in_place"): (1, "R20.3"),
    ("eyeball_im", "reusable_box::reuse_pin_box", "cast"): (1, "R20.3"),
    ("eyeball_im", "reusable_box::reuse_pin_box", "write"): (1, "R20.3"),
    ("eyeball_im", "reusable_box::reuse_pin_box", "from_raw"): (1, "R20.3"),
    ("eyeball_im", "reusable_box::CallOnDrop::<O, F>::new", "new"): (1, "R20.3"),
    ("eyeball_im", "reusable_box::CallOnDrop::<O, F>::call", "new"): (1, "R20.3"),
    ("eyeball_im", "reusable_box::CallOnDrop::<O, F>::call", "take"): (1, "R20.3"),
    ("eyeball_im", "<reusable_box::CallOnDrop<O, F> as std::ops::Drop>::drop", "take"): (1, "R20.3"),
    ("eyeball_im", "<vector::subscriber::VectorSubscriberStream<T> as futures_core::Stream>::poll_next", "unreachable_unchecked"): (1, "R20.4"),
}
AUDITED_UNSAFE = {
    ("eyeball", "block", "<shared::SharedObservable<T, L> as std::ops::Drop>::drop"): (1, "R20.7"),
    ("eyeball", "block", "unique::Observable::<T, L>::into_shared"): (1, "R20.2"),
    ("eyeball_im", "impl", "<reusable_box::ReusableBoxFuture<'_, T> as std::marker::Sync>"): (1, "R20.5"),
    ("eyeball_im", "block", "reusable_box::reuse_pin_box"): (4, "R20.3"),
    ("eyeball_im", "block", "reusable_box::CallOnDrop::<O, F>::call"): (1, "R20.3"),
    ("eyeball_im", "block", "<reusable_box::CallOnDrop<O, F> as std::ops::Drop>::drop"): (1, "R20.3"),
    ("eyeball_im", "block", "<vector::subscriber::VectorSubscriberStream<T> as futures_core::Stream>::poll_next"): (1, "R20.4"),
    ("eyeball_im", "impl", "<vector::subscriber::ReusableBoxRecvFuture<T> as std::marker::Send>"): (1, "R20.5"),
}


STREAM_POLL = "<vector::subscriber::VectorSubscriberStream<T> as futures_core::Stream>::poll_next"


def _rehome_stream_helper(F, crate, path):
    """a private method of VectorSubscriberStream that (only) its Stream::poll_next calls is part of poll_next for the audit: the
    obligation R20.4 is evaluated on poll_next with its private helpers inlined."""
    if crate != IM or path == STREAM_POLL:
        return path
    g = F.fns.get(crate + "::" + path)
    pn = F.fns.get(crate + "::" + STREAM_POLL)
    if g is None or pn is None or not pn.built or g.vis in ("pub",) or not (g.raw.get("self_ty") or "").startswith("vector::subscriber::VectorSubscriberStream<"):
        return path
    callers = [h for h in F.find(crate=IM) if h.built and h is not g and any(F.local_callee(h, t) is g for blk, t in h.built.calls())]
    if callers and all(root_fn(F, h) is pn or _rehome_stream_helper(F, crate, root_fn(F, h).path) == STREAM_POLL for h in callers):
        return STREAM_POLL
    return path


def run(ctx):
    F = ctx.facts
    r20_1(ctx)
    r20_2(ctx)
    r20_3(ctx)
    r20_4(ctx)
    r20_5(ctx)
    # R20.6 reference cycles through stored wakers
    wakes = find_wake_fn(F)
    if len(wakes) == 1:
        c02.r02_4(ctx, wakes[0])
        c02.r02_5(ctx, wakes[0])
    # ... and a waker is only ever stored while the state is open: the closed test and the push are one critical section,
    # otherwise a waker parked after close() is never drained (state -> waker -> task -> subscriber -> state cycle)
    from . import leaf
    leaf.check_critical_section(ctx, "R02.1")
    r20_6b(ctx)
    r20_7(ctx)
    # who may keep the state alive: only the counted handles own a strong reference. A "weak" handle, a guard or a helper type that
    # owns one keeps the value (and everything it refers to - e.g. a weak back-reference to its own observable) alive: a cycle leaks
    if EY in F.crates:
        from . import c19
        c19.r19_9(ctx)
        c19.r19_11(ctx)
        # parked wakers are released by close(): an owner Drop that can skip the close (early return while panicking, a counter that
        # never reaches zero) leaves the cycle state -> waker -> task -> subscriber -> state alive for ever
        if getattr(ctx, "_c03_in_c20", None) != ctx.config:   # once per configuration
            ctx._c03_in_c20 = ctx.config
            c03.run(ctx)


def r20_1(ctx):
    F = ctx.facts
    seen = {}
    for u in F.unsafe_sites:
        sp = u["span"]
        if not u["user"] or sp["file"].startswith("/") or sp.get("exp") and sp["file"].startswith("/"):
            continue
        key = (u["crate"], u["kind"], _rehome_stream_helper(F, u["crate"], u["in"]) if u["kind"] == "block" else u["in"])
        seen.setdefault(key, []).append(sp)
    n = 0
    for key, sps in sorted(seen.items()):
        n += len(sps)
        where = "%s:%d" % (sps[0]["file"], sps[0]["line"])
        aud = AUDITED_UNSAFE.get(key)
        if aud is None and key[1] == "impl" and re.match(r"^<vector::subscriber::assert_make_future_send::\w+ as std::marker::(Send|Sync)>$", key[2]):
            # the marker impls of the concrete payload type declared inside the Send witness: they vouch for nothing generic; what the
            # witness proves with that payload is judged by R20.5 (instantiates the stored type; bounds cover the computed need)
            aud = (1, "R20.5")
        if aud is None:
            ctx.violated("R20.1", key[2], "unsafe-%s:%s" % (key[1], key[2]), where,
                         "unaudited unsafe %s in `%s` (%d site(s)): the static argument for C20 is 'safe Rust + every unsafe site discharged', and no obligation is written for this one" % (key[1], key[2], len(sps)),
                         reason="unaudited-unsafe-site")
        elif len(sps) > aud[0]:
            ctx.violated("R20.1", key[2], "unsafe-%s:%s" % (key[1], key[2]), where,
                         "`%s` now contains %d unsafe %ss, %d were audited (obligation %s)" % (key[2], len(sps), key[1], aud[0], aud[1]), reason="unaudited-unsafe-site")
        else:
            ctx.holds("R20.1", key[2], "unsafe-%s:%s" % (key[1], key[2]), where, "%d audited unsafe %s(s), discharged by %s" % (len(sps), key[1], aud[1]))
    calls = {}
    for f in F.fns.values():
        b = f.built
        if not b:
            continue
        for blk, t in b.calls(RAW):
            sp = t["span"]
            if sp.get("exp") or sp["file"].startswith("/"):
                continue  # macro / desugaring generated (pin_project!, .await, vec!): dependency's soundness
            ctx.call_sites += 1
            key = (f.crate, _rehome_stream_helper(F, f.crate, root_fn(F, f).path), (t["callee"] or "").split("::")[-1])
            calls.setdefault(key, []).append((f, blk, t))
    for key, sites in sorted(calls.items()):
        n += len(sites)
        f, blk, t = sites[0]
        where = f.built.line_at((blk, 10 ** 6))
        aud = AUDITED_CALLS.get(key)
        if aud is None:
            ctx.violated("R20.1", key[1], "raw-call:%s" % key[2], where,
                         "unaudited call of the raw/leak-capable function `%s` in `%s`: a value can be leaked or dropped twice here and no obligation is written for this site" % (t["callee"], key[1]),
                         reason="unaudited-unsafe-site")
        elif len(sites) > aud[0]:
            ctx.violated("R20.1", key[1], "raw-call:%s" % key[2], where, "`%s` calls `%s` %d times, %d audited" % (key[1], key[2], len(sites), aud[0]), reason="unaudited-unsafe-site")
        else:
            ctx.holds("R20.1", key[1], "raw-call:%s" % key[2], where, "audited call of %s, discharged by %s" % (t["callee"], aud[1]))
    ctx.floor("R20.1", n, 25)


def r20_2(ctx):
    F = ctx.facts
    f = F.fn(EY, "unique::Observable::<T, L>::into_shared")
    if f is None:
        ctx.missing("R20.2", "unique::Observable::<T, L>::into_shared")
        return
    c03.check_into_shared(ctx, f, (find_close_fn(F) or [(None,)])[0][0])
    b = f.elab
    reads = b.calls(r"^std::ptr::read$")
    forgets = b.calls(r"^std::mem::forget$")
    if len(reads) != 1 or len(forgets) != 1:
        ctx.violated("R20.2", f, "read-then-forget", f.loc(),
                     "into_shared has %d ptr::read and %d mem::forget call(s): %s" % (len(reads), len(forgets), "the moved-out field and `this` are both dropped (double drop of the shared state)" if not forgets else "shape changed"))
        return
    rblk, rt = reads[0]
    fblk, ft = forgets[0]
    src = b.expr_of_op(rt["args"][0])
    ok_src = contains(src, lambda x: x[0] == "field" and x[1][0] == "param" and x[1][1] == 1)
    # nothing that can unwind between the read and the forget
    between = b.reachable_from(rt["target"], avoid_blocks=[fblk]) - {fblk}
    calls_between = [x for x in between if b.term(x)["k"] in ("call", "drop", "assert") and x != fblk and fblk in b.reachable_from(x)]
    direct = rt["target"] == fblk
    a = F.adt(EY, "unique::Observable")
    one_field = a is not None and len(a["variants"][0]["fields"]) == 1
    ctx.verdict(ok_src and (direct or not calls_between) and one_field, "R20.2", f, "read-then-forget", b.line_at((rblk, 10 ** 6)),
                "ptr::read(&this.state) is immediately followed by mem::forget(this); Observable has exactly one field",
                "into_shared: %s" % ("ptr::read does not read a field of `this`" if not ok_src else "a call that may unwind lies between ptr::read and mem::forget (double drop on panic)" if not (direct or not calls_between) else "`this` has other fields that are forgotten (leak)"))


def r20_3(ctx):
    F = ctx.facts
    f = F.fn(IM, "reusable_box::reuse_pin_box")
    if f is None:
        ctx.missing("R20.3", "reusable_box::reuse_pin_box")
        return
    b = f.elab
    into_raw = b.calls(r"Box::<.*>::into_raw$")
    dip = b.calls(r"^std::ptr::drop_in_place$")
    guards = [(blk, t) for blk, t in b.calls() if F.local_callee(f, t) is not None and F.local_callee(f, t).name == "new" and "CallOnDrop" in F.local_callee(f, t).path]
    calls = [(blk, t) for blk, t in b.calls() if F.local_callee(f, t) is not None and F.local_callee(f, t).name == "call" and "CallOnDrop" in F.local_callee(f, t).path]
    if not (into_raw and dip and guards and calls):
        ctx.violated("R20.3", f, "shape", f.loc(), "reuse_pin_box no longer has the audited shape (into_raw=%d drop_in_place=%d guard=%d call=%d)" % (len(into_raw), len(dip), len(guards), len(calls)))
        return
    # layout mismatch returns before into_raw
    facts = conds.dominating_facts(b, into_raw[0][0])
    is_layout = lambda e: contains(e, lambda y: y[0] == "call" and ecall_matches(y, r"Layout::(for_value|new)"))
    ok = conds.cmp_holds(facts, "Eq", is_layout, is_layout)
    ctx.verdict(ok, "R20.3", f, "layout-checked-before-into_raw", b.line_at((into_raw[0][0], 10 ** 6)), "Box::into_raw is reached only on the equal-layout edge",
                "the box is turned into a raw pointer (and later re-used for a value of another type) without the layouts being known equal")
    # guard built before drop_in_place, consumed once on each edge
    gblk, gt = guards[0]
    dblk, dt = dip[0]
    cblk, ct = calls[0]
    gl = gt["dest"]["l"]
    before = b.dominates(gblk, dblk) and gblk != dblk
    normal = b.post_dominated_by(dt["target"], [cblk]) and ct["args"][0]["k"] == "move"
    unwind_ok = False
    if isinstance(dt.get("unwind"), int):
        r = b.reachable_from(dt["unwind"], unwind=True)
        unwind_ok = any(b.term(x)["k"] == "drop" and b.term(x)["place"]["l"] == gl and not b.term(x)["place"]["proj"] for x in r)
    ctx.verdict(before and normal and unwind_ok, "R20.3", f, "guard-around-drop_in_place", b.line_at((dblk, 10 ** 6)),
                "the CallOnDrop guard (bb%d) dominates drop_in_place (bb%d); normal edge moves it into call (bb%d); unwind edge drops it" % (gblk, dblk, cblk),
                "reuse_pin_box: %s" % ("the guard is built after the old value is dropped: if that drop panics the allocation is leaked and the new value never stored" if not before
                                       else "the guard is not consumed by call() on the normal path" if not normal else "the unwind edge of drop_in_place does not drop the guard"))
    # closure: write before from_raw
    for c in F.children.get(f.key, []):
        cb = c.built
        w = cb.calls(r"mut_ptr::<impl \*mut T>::write$|^std::ptr::write$")
        fr = cb.calls(r"Box::<.*>::from_raw$")
        if fr:
            ok = bool(w) and all(cb.dominates(w[0][0], x[0]) and w[0][0] != x[0] for x in fr)
            ctx.verdict(ok, "R20.3", c, "write-before-from_raw", cb.line_at((fr[0][0], 10 ** 6)), "raw.write(new_value) dominates Box::from_raw(raw)",
                        "the box is re-assembled from the raw pointer before the new value is written into it: it would own dropped memory")
    # CallOnDrop::call / Drop
    for g in F.find(crate=IM):
        if "CallOnDrop" not in g.path or not g.built:
            continue
        gb = g.built
        takes = gb.calls(r"ManuallyDrop::<.*>::take$")
        if g.name == "call":
            wraps = gb.calls(r"ManuallyDrop::<.*>::new$")
            ok = len(takes) == 1 and len(wraps) == 1 and gb.dominates(wraps[0][0], takes[0][0]) and contains(gb.expr_of_op(wraps[0][1]["args"][0]), lambda x: x[0] == "param" and x[1] == 1)
            ctx.verdict(ok, "R20.3", g, "call-disarms-drop", g.loc(), "self is wrapped in ManuallyDrop before f is taken: Drop will not take it again",
                        "CallOnDrop::call takes `f` without disarming the Drop impl: f would be called (and dropped) twice")
        if g.raw.get("impl_trait") == "std::ops::Drop":
            fcalls = gb.calls(r"FnOnce(<.*>)?>?::call_once$")
            ok = len(takes) == 1 and len(fcalls) == 1
            ctx.verdict(ok, "R20.3", g, "drop-takes-once", g.loc(), "Drop takes f once and calls it once", "CallOnDrop's Drop takes/calls f %d/%d times" % (len(takes), len(fcalls)))


def r20_4(ctx):
    F = ctx.facts
    fs = [f for f in F.find(crate=IM, name="poll_next") if "VectorSubscriberStream<" in (f.raw.get("self_ty") or "") and f.raw.get("impl_trait")]
    for f in fs:
        b = inl(F, f, tag="r20.4") or f.built   # private helpers of the stream (a `poll_yield_batch` split out of poll_next) are judged in place
        uu = b.calls(r"unreachable_unchecked$")
        if not uu:
            ctx.holds("R20.4", f, "unreachable_unchecked", f.loc(), "no unreachable_unchecked left")
            continue
        ublk, ut = uu[0]
        reps = [(blk, t) for blk, t in b.calls(r"^std::mem::(replace|take)$") if mentions_field(b.expr_of_op(t["args"][0]), "state")]
        if not reps:
            ctx.violated("R20.4", f, "unreachable_unchecked", b.line_at((ublk, 10 ** 6)), "no mem::replace of self.state found for the unchecked match")
            continue
        rblk, rt = reps[0]
        rloc = (rblk, len(b.blocks[rblk]["stmts"]))
        # (1) the unchecked call is on an edge of a switch over the replaced value
        facts = conds.bare(conds.dominating_facts(b, ublk))
        on_old = [x for x in facts if x[0] == "variant" and contains(x[1], lambda y: y[0] == "call" and y[4] == rloc)]
        # (2) the replace is inside the YieldBatch arm of the switch over self.state
        rfacts = conds.dominating_facts(b, rblk)
        arm = [(s, t, x) for s, t, x in rfacts if x[0] == "variant" and x[2] == frozenset(["YieldBatch"]) and mentions_field(x[1], "state")]
        ok = bool(on_old) and all("YieldBatch" not in x[2] for x in on_old) and bool(arm)
        # (3) no write of self.state between the arm's switch and the replace
        clean = True
        if arm:
            s, t, _ = arm[0]
            region = b.reachable_from(t, avoid_blocks=[rblk]) | {t}
            for blk in region:
                if not (b.dominates(t, blk) and rblk in b.reachable_from(blk)):
                    continue
                for st in b.blocks[blk]["stmts"]:
                    if st["k"] == "assign" and last_field(st["place"]) == "state" and "VectorSubscriberStreamState" in str(b.locals[st["place"]["l"]]["ty"]) + "VectorSubscriberStreamState":
                        if place_fields(st["place"])[-1:] == ["state"]:
                            clean = False
                    if st["k"] == "set_discr" and "state" in place_fields(st["place"]):
                        clean = False
                tm = b.term(blk)
                if tm["k"] == "call" and blk != rblk and re.search(r"^std::mem::(replace|take|swap)$", tm.get("callee") or "") and mentions_field(b.expr_of_op(tm["args"][0]), "state"):
                    clean = False
        ctx.verdict(ok and clean, "R20.4", f, "unreachable_unchecked", b.line_at((ublk, 10 ** 6)),
                    "unreachable_unchecked sits on the non-YieldBatch edge of the match over mem::replace(&mut self.state, ..), executed inside the YieldBatch arm with no write to self.state in between",
                    "the `unsafe { unreachable_unchecked() }` is reachable: %s" % ("self.state is written between the YieldBatch test and the mem::replace, so the swapped-out value need not be YieldBatch (undefined behaviour)" if not clean
                                                                                 else "it is not guarded by a match over the value swapped out of self.state inside the YieldBatch arm"))


def r20_5(ctx):
    F = ctx.facts
    bad = []
    n = 0
    for f in F.find(crate=IM):
        st = f.raw.get("self_ty") or ""
        if not st.startswith("reusable_box::ReusableBoxFuture<") or not f.raw.get("sig") or not f.built:
            continue
        ins = f.raw["sig"]["inputs"]
        if ins and ins[0].startswith("&") and not ins[0].startswith("&mut") and "ReusableBoxFuture" in ins[0]:
            n += 1
            b = f.built
            touches = any(s["k"] == "assign" and ((s["rv"]["k"] in ("ref", "use") and "boxed" in place_fields(s["rv"].get("place") or (s["rv"].get("op") or {}).get("place") or {"proj": []}))) for _, s in b.iter_stmts())
            if touches:
                bad.append(f)
    ctx.verdict(not bad, "R20.5", None, "sync-impl:no-&self-access-to-boxed", None, "%d `&self` method(s) of ReusableBoxFuture, none touches `boxed`" % n,
                "`%s` reads the boxed future through `&self`: with `unsafe impl Sync` two threads could poll a !Sync future" % (bad[0].path if bad else ""))
    from . import autotrait
    autotrait.check_unsafe_marker_impls(ctx, "R20.5")
    # by role, not by name: the *maker* is the local async fn whose future the wrapper's own methods put into the reusable box; the
    # *witness* is a function that hands a call of the maker to a local Send assertion (a generic fn bounded by Send)
    makers = []
    for f in F.find(crate=IM):
        if not f.built or not (f.raw.get("self_ty") or "").startswith("vector::subscriber::ReusableBoxRecvFuture<"):
            continue
        for blk, t in f.built.calls(r"ReusableBoxFuture::<.*>::(new|set|try_set)$"):
            e = f.built.expr_of_op(t["args"][-1])
            for c_ in find_all(e, lambda y: y[0] == "call" and isinstance(y[1], str)):
                g = F.fns.get(IM + "::" + (c_[2] or c_[1])) or F.fns.get(IM + "::" + c_[1])
                if g is not None and g.raw.get("is_async") and g not in makers:
                    makers.append(g)
    def is_maker_call(y):
        if y[0] != "call" or not isinstance(y[1], str):
            return False
        g = F.fns.get(IM + "::" + (y[2] or y[1])) or F.fns.get(IM + "::" + y[1])
        return g is not None and any(g is m_ for m_ in makers)
    def is_send_assertion(h):
        if h is None:
            return False
        if h.name and re.search(r"assert.*send|is_send|require_send", h.name, re.I):
            return True
        return any(re.search(r": std::marker::Send$", str(bd)) for bd in (h.raw.get("bounds") or []))
    w, wcall = None, None
    for f in F.find(crate=IM):
        if not f.built:
            continue
        for blk, t in f.built.calls():
            h = F.local_callee(f, t)
            if is_send_assertion(h) and t["args"] and contains(f.built.expr_of_op(t["args"][0]), is_maker_call):
                w, wcall = f, t
    if not makers:
        ctx.missing("R20.5", "the async fn whose future ReusableBoxRecvFuture boxes (role: called in the argument of ReusableBoxFuture::new / set inside the wrapper's methods)")
    elif w is None:
        ctx.violated("R20.5", None, "send-impl:witness", None, "no in-crate witness hands `%s(..)` to a Send assertion: nothing backs `unsafe impl Send for ReusableBoxRecvFuture` any more" % makers[0].name)
    else:
        b = w.built
        ctx.holds("R20.5", w, "send-impl:witness", w.loc(), "a Send assertion is applied to `%s(receiver)` and type-checks for the witness payload" % makers[0].name)
        # the witness must be about the type the wrapper really stores: the maker instantiated with the message type of the
        # `inner` field (BroadcastMessage<_>), not with the bare element type
        a = F.adt(IM, "vector::subscriber::ReusableBoxRecvFuture")
        stored = None
        if a:
            for fd in a["variants"][0]["fields"]:
                m_ = re.search(r"broadcast::Receiver<([\w:]+)<", fd["ty"])
                if m_:
                    stored = m_.group(1)
        inst = []
        for _, t in b.calls():
            g = F.local_callee(w, t)
            if g is not None and any(g is m_ for m_ in makers):
                inst += [g_ for g_ in (t.get("gargs") or [])]
        if stored and inst:
            same = all(g_.startswith(stored + "<") for g_ in inst)
            ctx.verdict(same, "R20.5", w, "send-impl:witness-instantiates-the-stored-type", w.loc(), "the witness instantiates `%s` with `%s<_>`, the message type the wrapper stores" % (makers[0].name, stored),
                        "the witness instantiates `%s` with `%s`, but the wrapper stores a future over `%s<T>`: whatever the witness proves says nothing about the Send-ness of what is actually boxed" % (makers[0].name, inst[0], stored))

def r20_7(ctx):
    F = ctx.facts
    counter = c03.owner_counter_field(F)
    a = F.adt(EY, "shared::SharedObservable")
    if counter is None or a is None:
        return
    fty = [fd["ty"] for fd in a["variants"][0]["fields"] if fd["name"] == counter][0]
    if "ManuallyDrop" not in fty:
        ctx.holds("R20.7", None, "owner-counter-plain", None, "the owner counter is not wrapped in ManuallyDrop")
        return
    for f in F.find(crate=EY):
        b = f.built
        if not b:
            continue
        for blk, t in b.calls(r"ManuallyDrop::<.*>::(take|drop)$"):
            if not mentions_field(b.expr_of_op(t["args"][0]), counter):
                continue
            is_drop = f.raw.get("impl_trait") == "std::ops::Drop" and (f.raw.get("self_ty") or "").startswith("shared::SharedObservable<")
            if not is_drop:
                ctx.violated("R20.7", f, "take-outside-drop", b.line_at((blk, 10 ** 6)), "the owner counter is taken out of its ManuallyDrop in `%s`: the handle's Drop would take it a second time (double drop)" % f.path)
                continue
            takes = [x for x, tt in b.calls(r"ManuallyDrop::<.*>::(take|drop)$") if mentions_field(b.expr_of_op(tt["args"][0]), counter)]
            tb = set(takes)

            def transfer(bk, st):
                return [min(2, st + (1 if bk in tb else 0))]
            ins, outs = forward_states(b, 0, transfer)
            finals = set()
            for rb in b.return_blocks():
                finals |= outs.get(rb, set())
            ctx.verdict(finals == {1}, "R20.7", f, "take-exactly-once", b.line_at((blk, 10 ** 6)), "ManuallyDrop::take(&mut self.%s) exactly once on every path of Drop" % counter,
                        "SharedObservable's Drop takes the owner counter %s times on some path: %s" % (sorted(finals), "its share is leaked (observable_count never goes down, the state is never closed)" if 0 in finals else "double drop"))
            break


def r20_6b(ctx):
    """wakers are references from the library back into the user's tasks; the only place that may hold them is the waker list
    of the shared state, which update and close drain (R02.4 / R02.5). A Waker kept in a handle (a subscriber that remembers
    the waker it registered) is reachable by nothing that clears it: task -> future -> subscriber -> waker -> task."""
    F = ctx.facts
    n = 0
    bad = 0
    for key, a in sorted(F.adts.items()):
        if a.get("crate") != EY:
            continue
        for var in a["variants"]:
            for fd in var["fields"]:
                if "task::Waker" not in str(fd["ty"]):
                    continue
                n += 1
                where = "%s:%d" % (a["span"]["file"], a["span"]["line"])
                if a["path"].endswith("ObservableStateMetadata"):
                    ctx.holds("R20.6", a["path"], "waker-holder:%s.%s" % (a["path"].split("::")[-1], fd["name"]), where, "the shared state's waker list (drained by notify and close)")
                else:
                    bad += 1
                    ctx.violated("R20.6", a["path"], "waker-holder:%s.%s" % (a["path"].split("::")[-1], fd["name"]), where,
                                 "`%s` stores a `%s` in field `%s`: nothing drains it (only the state's waker list is drained on update and close), so a parked task that owns this handle keeps itself - and the observable's value - alive forever" % (
                                     a["path"], fd["ty"], fd["name"]))
    ctx.floor("R20.6", n, 1)
