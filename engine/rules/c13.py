"""C13 — batched adapters never expose a half-applied transaction."""
import re
from ..facts import strip, ecall_matches, contains, find_all, fmt, mentions_field
from .. import conds
from .common import *
from .adapters import *
from . import c15

CRATES = (UT, IM,)

META = {
    "explanation": (
        "Static decision on MIR / item facts of the batched container implementation (impl VectorDiffContainerOps for Vec<VectorDiff<T>>) and of the "
        "single-diff one: R13.1 no empty batch - every Some(v) the batched impl returns is dominated by the not-empty edge of v.is_empty() (or v is a "
        "non-empty literal); R13.2 no empty Many message (C07/R07.5); R13.3 batched containers cannot split a batch - the impl's Head/Tail/Skip/Sort "
        "buffer types are `()` and its pop_from_* return the None literal, each push_into_* is one into_iter -> flat_map/filter_map -> collect chain over "
        "the whole input; R13.4 per-diff state (previous length, limit) is read inside the per-diff closure, so each diff of a batch is translated against "
        "the replica as left by the previous diff; R13.5 FIFO idiom of the single-diff buffers (insert_many(0, rev) + pop, reverse + pop, one-slot Option); "
        "known-LIFO shapes are violations, unknown shapes undecided. Diff-for-diff equality of the two flavours beyond these is not decided."),
    "trusted_base": ["SmallVec::insert_many / pop, ArrayVec::pop, Vec: into_iter/flat_map/collect preserve order", "rustc type checker (associated types)", "rustc MIR construction"],
    "assumptions": [],
}
META["technique"] = "static analysis: dominance / provenance / typestate rules over rustc MIR facts (rustc_private driver) + path-partitioned abstract interpretation in a linear-inequality domain (view-length balance; Fourier-Motzkin emptiness, no execution, no external solver)"
META["explanation"] += " R13.6 in the batched container's push_into_* / filter_map functions (helpers inlined, combinators desugared) the accumulated batch is only grown: nothing an adapter produced for a source batch is discarded."
META["explanation"] += ' R13.7 the diffs an adapter produces for one source diff enter the batch front to back (no pop() of the per-diff result without reverse(), no rev()).'
META["explanation"] += ' R13.7 also requires the whole per-diff answer of the adapter to enter the batch (no next / next_back / nth / take on it outside a draining loop). R13.8 every diff of a batch reaches the translator (no filter / skip / take / retain on the batch before map_diffs).'
META["explanation"] += ' R13.9 a batched push_into_* helper that holds diffs back flushes them before it hands any other diff to the translator (no overtaking); R13.10 the collected batch is not re-arranged (sort / swap / rotate / reverse / dedup / cut).'

VEC_IMPL = "std::vec::Vec<eyeball_im::VectorDiff<T>>"
ONE_IMPL = "eyeball_im::VectorDiff<T>"


def ops_impl(F, self_ty):
    for imp in F.impls:
        if imp["crate"] == UT and imp["trait"] == "vector::ops::VectorDiffContainerOps" and imp["self_ty"] == self_ty:
            return imp
    return None


def run(ctx):
    F = ctx.facts
    vimp = ops_impl(F, VEC_IMPL)
    oimp = ops_impl(F, ONE_IMPL)
    if vimp is None or oimp is None:
        ctx.missing("R13.1", "impl VectorDiffContainerOps for Vec<VectorDiff<T>> / VectorDiff<T>")
        return
    r13_1(ctx, vimp)
    r13_3(ctx, vimp)
    r13_6(ctx, vimp)
    r13_7(ctx, vimp)
    r13_8(ctx, vimp)
    ads = find_adapters(F)
    register_roles(ctx, ads)
    for name in ADAPTERS:
        if ads[name].closure is not None and ads[name].translator is not None:
            c15.per_diff_length(ctx, "R13.4", ads[name])
    r13_5(ctx, oimp)
    from . import c07
    c07.r07_5(ctx)
    # a batch is only right if every adapter translates each of its diffs right
    from . import groups
    groups.util_stage_rules(ctx)
    # the batched adapters sit on the batched subscriber stream and on commit's messages
    groups.im_core(ctx)



def r13_1(ctx, imp):
    F = ctx.facts
    n = 0
    for p in imp["fns"]:
        f = F.fn(UT, p)
        if f is None or not f.built:
            continue
        b = inl(F, f) or f.built   # a shared private helper (map_batch ..) is analysed in place
        if not b.locals[0]["ty"].startswith("std::option::Option<std::vec::Vec<"):
            continue
        for loc, kind, payload in blocks_assigning_ret(b):
            if loc[0] not in b.reachable():
                continue
            e = b.expr_of_rv(payload, 10, ()) if kind == "assign" else b.expr_of_call(payload, 10, ())
            x = strip(e, through_calls=False)
            if x[0] == "agg" and x[2] == "std::option::Option" and x[3] == "None":
                continue
            n += 1
            where = b.line_at(loc)
            if x[0] == "agg" and x[3] == "Some":
                payload_e = x[5][0]
                facts = conds.bare(conds.dominating_facts(b, loc[0]))
                ne = [y for y in facts if y[0] == "truth" and y[1][0] == "call" and ecall_matches(y[1], r"::is_empty$") and y[2] is False]
                lit = contains(payload_e, lambda y: y[0] == "call" and isinstance(y[1], str) and re.search(r"slice::<impl \[T\]>::into_vec|box_new|vec::from_elem|into_vec$", y[1]))
                if ne or lit:
                    ctx.holds("R13.1", f, "no-empty-batch", where, "Some(batch) %s" % ("is a non-empty literal" if lit and not ne else "is on the not-empty edge of is_empty()"))
                else:
                    ctx.violated("R13.1", f, "no-empty-batch", where,
                                 "`%s` returns Some(batch) without checking that the batch is non-empty: when every diff of a source batch maps to nothing, the batched adapter emits an empty batch" % f.name)
            else:
                ctx.undecided("R13.1", f, "no-empty-batch", where, "return shape not recognised: %s" % fmt(x, 3))
    ctx.floor("R13.1", n, 7)


def r13_3(ctx, imp):
    F = ctx.facts
    at = {a["name"]: a["ty"] for a in imp["assoc_types"]}
    for name in ("HeadBuf", "TailBuf", "SkipBuf", "SortBuf"):
        ty = at.get(name)
        where = "%s:%d" % (imp["span"]["file"], imp["span"]["line"])
        if ty == "()":
            ctx.holds("R13.3", imp["path"], "buffer-type:%s" % name, where, "the batched container's %s is `()`: nothing can be held back" % name)
        elif ty is None:
            ctx.missing("R13.3", "associated type %s" % name)
        else:
            ctx.undecided("R13.3", imp["path"], "buffer-type:%s" % name, where, "%s = %s (could hold whole batches)" % (name, ty))
    n = 0
    for p in imp["fns"]:
        f = F.fn(UT, p)
        if f is None or not f.built:
            continue
        b = f.built
        if f.name.startswith("pop_from_"):
            n += 1
            e = strip(ret_expr(b), through_calls=False)
            ok = e[0] == "agg" and e[3] == "None"
            if not ok:
                # delegation to a sibling of the same impl that is judged itself (`pop_from_skip_buf` = `Self::pop_from_tail_buf(..)`)
                for blk_, t_ in b.calls():
                    g_ = F.local_callee(f, t_)
                    if g_ is not None and g_ is not f and g_.path in set(imp["fns"]) and g_.name.startswith("pop_from_") and g_.built and e[0] == "call" and e[4] == (blk_, len(b.blocks[blk_]["stmts"])):
                        e2 = strip(ret_expr(g_.built), through_calls=False)
                        ok = e2[0] == "agg" and e2[3] == "None"
            ctx.verdict(ok, "R13.3", f, "pop-returns-None", f.loc(), "%s returns None (nothing is ever parked)" % f.name,
                        "the batched container's `%s` can return a parked batch: one source batch could be split over several items" % f.name)
        if f.name.startswith("push_into_") or f.name == "filter_map":
            n += 1
            cols = b.calls(r"Iterator>?::collect(::<.*>)?$")
            ok = False
            if len(cols) == 1:
                e = b.expr_of_op(cols[0][1]["args"][0])
                x = strip(e, through_calls=False)
                ok = x[0] == "call" and ecall_matches(x, r"Iterator>?::(flat_map|filter_map|map)$") and strip(x[3][0], through_calls=False)[0] == "call" \
                    and ecall_matches(strip(x[3][0], through_calls=False), r"IntoIterator>?::into_iter$") and strip(strip(x[3][0], through_calls=False)[3][0])[0] == "param"
                bad = find_all(e, lambda y: y[0] == "call" and isinstance(y[1], str) and re.search(r"Iterator>?::(rev|take|skip|step_by|take_while|skip_while)$", y[1]))
                if bad:
                    ctx.violated("R13.3", f, "whole-batch-chain", f.loc(), "`%s` processes the batch through `%s`: diffs are dropped or reordered within a batch" % (f.name, bad[0][1].split("::")[-1]))
                    continue
            ctx.verdict(True if ok else None, "R13.3", f, "whole-batch-chain", f.loc(), "%s = self.into_iter().flat_map/filter_map(f).collect()" % f.name)
    ctx.floor("R13.3", n, 9)


def r13_5(ctx, imp):
    F = ctx.facts
    n = 0
    for p in imp["fns"]:
        f = F.fn(UT, p)
        if f is None or not f.built:
            continue
        if not (f.name.startswith("push_into_") or f.name.startswith("extend_")):
            continue
        b = inl(F, f)
        ims = b.calls(r"SmallVec::<.*>::insert_many")
        pops = b.calls(r"::pop$")
        revs = b.calls(r"Iterator>?::rev$|::reverse$")
        where = f.loc()
        if not ims and not pops:
            # pure delegation to a sibling of the same impl with the same buffer (`push_into_skip_buf` = `Self::push_into_tail_buf`)
            sib = [F.local_callee(f, t) for blk, t in b.calls() if F.local_callee(f, t) is not None and F.local_callee(f, t) is not f
                   and F.local_callee(f, t).path in set(imp["fns"]) and (F.local_callee(f, t).name.startswith("push_into_") or F.local_callee(f, t).name.startswith("extend_"))]
            if sib:
                n += 1
                ctx.holds("R13.5", f, "fifo", where, "delegates to `%s`, which is judged itself" % sib[0].name)
                continue
        if ims:
            n += 1
            blk, t = ims[0]
            at0 = is_const_int(b.expr_of_op(t["args"][1]), 0)
            it = b.expr_of_op(t["args"][2])
            reved = contains(it, lambda y: y[0] == "call" and ecall_matches(y, r"Iterator>?::rev$"))
            if at0 and reved and pops:
                ctx.holds("R13.5", f, "fifo", b.line_at((blk, 10 ** 6)), "insert_many(0, diffs.rev()) + pop(): first translated diff leaves first")
            elif at0 and not reved and pops:
                ctx.violated("R13.5", f, "fifo", b.line_at((blk, 10 ** 6)),
                             "`%s` enqueues with insert_many(0, diffs) without reversing and dequeues with pop(): a translated group is replayed in reverse order" % f.name)
            else:
                ctx.undecided("R13.5", f, "fifo", b.line_at((blk, 10 ** 6)), "queue idiom not in the known table")
        elif revs and pops:
            n += 1
            ctx.holds("R13.5", f, "fifo", where, "reverse() + pop(): first translated diff leaves first")
        elif f.name == "push_into_head_buf":
            n += 1
            # two-slot idiom: last = pop(); if let Some(first) = pop() { buffer = last; Some(first) } else { last }
            ok = len(pops) == 2
            ctx.verdict(True if ok else None, "R13.5", f, "fifo", where, "one-slot Option buffer: the second of two diffs is parked, the first returned")
        elif f.name == "push_into_sort_buf" and pops and not revs:
            n += 1
            ctx.violated("R13.5", f, "fifo", where, "`%s` parks the translated diffs and pops from the back without reversing them" % f.name)
    ctx.floor("R13.5", n, 5)


SHRINK_VEC = r"^std::vec::Vec::<.*>::(clear|truncate|pop|remove|swap_remove|drain|retain|retain_mut|split_off|dedup|dedup_by|dedup_by_key)$"


def r13_6(ctx, imp):
    """what an adapter produced for the diffs of one source batch all reaches the emitted batch: in the batched container's
    push_into_* / filter_map functions (private helpers inlined) the accumulated Vec<VectorDiff> is only ever grown. The
    adapters' outputs are relative to the consumer's view (Tail answers a Truncate with PopBacks), so discarding part of them
    leaves the consumer's view out of step with the adapter's. Expected count 0."""
    F = ctx.facts
    bad = 0
    n = 0
    for p in imp["fns"]:
        f = F.fn(UT, p)
        if f is None or not f.built or not (f.name.startswith("push_into_") or f.name == "filter_map" or f.name.startswith("extend_")):
            continue
        b = inl(F, f, desugar=True, tag="r13.6") or f.built
        n += 1
        for blk, t in b.calls(SHRINK_VEC):
            a0 = t["args"][0]
            if a0["k"] not in ("move", "copy"):
                continue
            ty = str(b.locals[a0["place"]["l"]]["ty"])
            root = strip(b.expr_of_op(a0))
            rty = ""
            if root[0] == "local" or root[0] == "param":
                rty = str(b.locals[root[1]]["ty"])
            if "VectorDiff<" not in ty + rty:
                continue
            m = (t.get("callee") or "").split("::")[-1]
            # the input batch itself may be consumed front to back (drain / pop of the parameter): only produced output counts
            if root[0] == "param" and root[1] == 1:
                continue
            bad += 1
            ctx.violated("R13.6", f, "output-never-shrinks", b.line_at((blk, 10 ** 6)),
                         "`%s` applies `%s` to the batch it is accumulating: diffs an adapter already produced for this source batch are discarded, but they are relative to the consumer's view (e.g. Tail's PopBacks for a Truncate), so the view rebuilt from the batch no longer matches the adapter's state" % (f.name, m))
    if not bad:
        ctx.holds("R13.6", None, "output-never-shrinks", None, "%d batched container functions: the accumulated batch is only grown" % n)


def r13_7(ctx, imp):
    """order inside a group: what `map_diffs` returns for one source diff (e.g. [PopBack, PushFront]) enters the batch in that
    order. Draining the per-diff result from the back (`pop()` without a preceding `reverse()`), or through `rev()`, emits the
    growing diff before the shrinking one: the batch's end state is right, the states between its diffs are not. Expected 0."""
    F = ctx.facts
    n = 0
    bad = 0
    for p in imp["fns"]:
        f = F.fn(UT, p)
        if f is None or not f.built or not f.name.startswith("push_into_"):
            continue
        b = inl(F, f, desugar=True, tag="r13.6") or f.built
        n += 1
        # locals holding the result of calling the closure parameter
        groups_ = set()
        for blk, t in b.calls(r"ops::FnMut(<.*>)?>?::call_mut$|ops::FnOnce(<.*>)?>?::call_once$|ops::Fn(<.*>)?>?::call$"):
            if not t["dest"]["proj"] and re.search(r"(SmallVec|ArrayVec)<", str(b.locals[t["dest"]["l"]]["ty"])) and "VectorDiff<" in str(b.locals[t["dest"]["l"]]["ty"]):
                groups_.add(t["dest"]["l"])
        whole, _ = b.defs
        changed = True
        while changed:   # plain moves of the group
            changed = False
            for l, ds in whole.items():
                for loc, kind, payload in ds:
                    if kind == "assign" and payload["k"] == "use" and payload["op"]["k"] in ("move", "copy") and not payload["op"]["place"]["proj"] and payload["op"]["place"]["l"] in groups_ and l not in groups_:
                        groups_.add(l)
                        changed = True

        def on_group(op):
            if op["k"] not in ("move", "copy") or op["place"]["proj"]:
                return False
            l = op["place"]["l"]
            if l in groups_:
                return True
            for loc, kind, payload in whole.get(l, []):
                if kind == "assign" and payload["k"] == "ref" and not payload["place"]["proj"] and payload["place"]["l"] in groups_:
                    return True
            return False
        revs = [blk for blk, t in b.calls(r"::reverse$") if t["args"] and on_group(t["args"][0])]
        for blk, t in b.calls(r"(SmallVec|ArrayVec)::<.*>::pop$"):
            if t["args"] and on_group(t["args"][0]) and not any(b.dominates(r, blk) for r in revs):
                bad += 1
                ctx.violated("R13.7", f, "group-order-preserved", b.line_at((blk, 10 ** 6)),
                             "`%s` takes the diffs an adapter produced for one source diff from the back (`pop()`, no `reverse()` before): a pair like [PopBack, PushFront] enters the batch as [PushFront, PopBack] - the consumer's view is one item too long between the two" % f.name)
        for blk, t in b.calls(r"Iterator>?::rev$"):
            e = b.expr_of_op(t["args"][0])
            if contains(e, lambda y: y[0] == "call" and isinstance(y[1], str) and re.search(r"call_mut$|call_once$", y[1])):
                bad += 1
                ctx.violated("R13.7", f, "group-order-preserved", b.line_at((blk, 10 ** 6)), "`%s` iterates the diffs produced for one source diff in reverse" % f.name)
        # ... and completely: an adapter may answer one source diff with any number of diffs (Tail: one PopFront per evicted item);
        # taking single items out of the per-diff result (next / next_back / nth / take ..) instead of draining it drops the rest
        def from_group(e):
            return contains(e, lambda y: y[0] == "call" and isinstance(y[1], str) and re.search(r"call_mut$|call_once$|::call$", y[1]))
        for blk, t in b.calls(r"Iterator>?::(next_back|nth|nth_back|last|take|skip|step_by|take_while|skip_while|filter|find|max|min|max_by|min_by)$|(SmallVec|ArrayVec)::<.*>::(first|last|swap_remove|truncate|remove)$"):
            if t["args"] and from_group(b.expr_of_op(t["args"][0])):
                bad += 1
                ctx.violated("R13.7", f, "whole-group-enters-the-batch", b.line_at((blk, 10 ** 6)),
                             "`%s` takes single items (`%s`) out of what the adapter produced for one source diff: an adapter that answers with more diffs than expected (Tail evicting several items) loses the others, and the batched view differs from the unbatched one" % (f.name, (t.get("callee") or "").split("::")[-1]))
        for blk, t in b.calls(r"Iterator>?::next$"):
            if t["args"] and from_group(b.expr_of_op(t["args"][0])):
                succ = b.normal_succ(blk)
                in_loop = any(blk in b.reachable_from(x) for x in succ)
                if not in_loop:
                    bad += 1
                    ctx.violated("R13.7", f, "whole-group-enters-the-batch", b.line_at((blk, 10 ** 6)),
                                 "`%s` takes one item (`next()`, not in a loop) out of what the adapter produced for one source diff: the remaining diffs of that answer are dropped" % f.name)
    if not bad:
        ctx.holds("R13.7", None, "group-order-preserved", None, "%d batched push_into_* functions: per-diff results enter the batch front to back" % n)



def r13_8(ctx, imp):
    """every diff of a batch reaches the translator: the batched `push_into_*` hand `self`'s diffs to `map_diffs` one by one, all of
    them. Skipping some (a "superseded" Set, a diff that "cannot matter") is unsound in general - the translators keep a replica of
    the source that every diff updates, and indices of later diffs are relative to all earlier ones."""
    F = ctx.facts
    n = 0
    bad = 0
    SKIPS = r"Iterator>?::(filter|filter_map|skip|take|step_by|skip_while|take_while|map_while|scan|nth|dedup\w*)$|^std::vec::Vec::<.*>::(retain|retain_mut|dedup\w*|truncate|drain|remove|swap_remove|pop|split_off)$"
    for p in imp["fns"]:
        f = F.fn(UT, p)
        if f is None or not f.built or not f.name.startswith("push_into_"):
            continue
        n += 1
        b = f.built
        for blk, t in b.calls(SKIPS):
            if not t["args"]:
                continue
            e = b.expr_of_op(t["args"][0])
            if contains(e, lambda y: y[0] == "param" and y[1] == 1):
                bad += 1
                ctx.violated("R13.8", f, "every-diff-reaches-the-translator", b.line_at((blk, 10 ** 6)),
                             "`%s` applies `%s` to the batch before handing its diffs to the adapter's translator: a diff that is skipped never updates the adapter's replica of the source, and the indices of all later diffs are off" % (f.name, (t.get("callee") or "").split("::")[-1]))
    if not bad:
        ctx.holds("R13.8", None, "every-diff-reaches-the-translator", None, "%d batched push_into_* functions hand every diff of the batch to the translator" % n)
    ctx.floor("R13.8", n, 4)
    # R13.9 .. and in their order: a helper that holds some diffs back (collects them in a local collection inside its loop over the
    # batch, to hand them over later as one) flushes what it holds before it hands any *other* diff to the translator - a diff that
    # overtakes held-back ones reaches a replica that does not contain them yet (indices and lengths are relative to all earlier diffs)
    from .adapters import natural_loops
    k = 0
    for p in imp["fns"]:
        f = F.fn(UT, p)
        if f is None or not f.built or not f.name.startswith("push_into_"):
            continue
        b = inl(F, f, desugar=True, tag="r13.9") or f.built
        mapper = [i for i in range(1, b.arg_count + 1) if re.search(r"FnMut\(|impl .*Fn", str(b.locals[i]["ty"])) or (b.locals[i].get("name") or "").startswith("map_")]
        for h, blks in natural_loops(b):
            grow = {}
            for blk, t in b.calls(r"::(push|push_back|push_front|extend|append|insert)$", blocks=sorted(blks)):
                if not t["args"]:
                    continue
                pl = t["args"][0].get("place")
                e = b.expr_of_op(t["args"][0])
                x = strip(e)
                if x[0] != "local" and not (pl and not pl["proj"]):
                    continue
                # what is pushed: the translator's output (result collection) or something else (held back)?
                pushed = b.expr_of_op(t["args"][-1]) if len(t["args"]) > 1 else None
                from_mapper = pushed is not None and contains(pushed, lambda y: y[0] == "call" and isinstance(y[1], (str, tuple)) and ("call_mut" in str(y[1]) or "FnMut" in str(y[1]) or "call_once" in str(y[1])))
                root = pl["l"] if pl and not pl["proj"] else None
                # resolve `&mut local`
                if root is not None:
                    ds = b.defs[0].get(root, [])
                    if len(ds) == 1 and ds[0][1] == "assign" and ds[0][2]["k"] in ("ref", "raw") and not ds[0][2]["place"]["proj"]:
                        root = ds[0][2]["place"]["l"]
                if root is None or from_mapper:
                    continue
                # defined outside the loop?
                ds = b.defs[0].get(root, [])
                if ds and all(d_[0][0] not in blks for d_ in ds):
                    grow.setdefault(root, []).append(blk)
            if not grow:
                continue
            def touches(t, root):
                for a in t["args"]:
                    pl = a.get("place")
                    if pl is None:
                        continue
                    l_ = pl["l"]
                    ds = b.defs[0].get(l_, [])
                    if l_ == root:
                        return True
                    if len(ds) == 1 and ds[0][1] == "assign" and ds[0][2]["k"] in ("ref", "raw") and ds[0][2]["place"]["l"] == root:
                        return True
                return False
            for root, gblks in sorted(grow.items()):
                flushes = {blk for blk, t in b.calls(blocks=sorted(blks)) if touches(t, root) and blk not in gblks and re.search(r"(::take$|::drain$|::clear$|::split_off$|::pop\w*$|::into_iter$|flush|^std::mem::(take|replace|swap)$)", t.get("callee") or "")}
                for blk, t in b.calls(blocks=sorted(blks)):
                    cal = str(t.get("callee") or "") + str((t.get("extra") or {}).get("full") or "")
                    if not re.search(r"FnMut(<.*>)?>?::call_mut$|FnOnce(<.*>)?>?::call_once$|Fn(<.*>)?>?::call$", str(t.get("callee") or "")):
                        continue
                    if not t["args"] or not any(contains(b.expr_of_op(t["args"][0]), lambda y, m=m: y[0] == "param" and y[1] == m) for m in mapper):
                        continue
                    if blk in flushes:
                        continue
                    k += 1
                    # can this call be reached from the loop header without flushing?  (the flush helper itself calls the mapper with the held-back diffs: those calls sit behind the drain)
                    reach_wo = blk in b.reachable_from(h, avoid_blocks=sorted(flushes)) if flushes else True
                    ctx.verdict(not reach_wo, "R13.9", f, "no-diff-overtakes-held-back-ones", b.line_at((blk, 10 ** 6)), "the held-back diffs are flushed before this diff is handed to the translator",
                                "`%s` collects some diffs of the batch in a local collection (to hand them over later as one) but hands this diff to the adapter's translator on a path that has not flushed what is held back: "
                                "the diff overtakes earlier ones and reaches a replica that does not contain them yet - e.g. `push_back, push_back, pop_front` on an empty vector pops from an empty sorted buffer (index underflow), or positions computed by the translator are off by the number of held-back items" % f.path)
    # R13.10 .. and the batch that leaves is the translator's output in the translator's order: the helpers of the batched flavour do
    # not sort, swap, rotate, reverse, de-duplicate or cut the collected diffs (each diff is relative to all diffs before it; "these
    # two work on opposite ends, so they commute" stops being true when the view runs empty or is at its limit)
    REORDER = r"::(sort|sort_by|sort_by_key|sort_unstable\w*|sort_by_cached_key|swap|swap_remove|rotate_left|rotate_right|reverse|select_nth_unstable\w*|dedup\w*|retain\w*|split_off|truncate|remove|insert|drain)$"
    for p in imp["fns"]:
        f = F.fn(UT, p)
        if f is None or not f.built or not (f.name.startswith("push_into_") or f.name.startswith("extend_")):
            continue
        b = inl(F, f, desugar=True, tag="r13.9") or f.built
        hits = []
        for blk, t in b.calls(REORDER):
            full = str((t.get("extra") or {}).get("full") or "") + " " + str(t.get("callee") or "")
            recv_ty = ""
            if t["args"] and t["args"][0].get("place") is not None:
                recv_ty = str(b.locals[t["args"][0]["place"]["l"]]["ty"])
            if "VectorDiff<" in full or "VectorDiff<" in recv_ty:
                hits.append((blk, t))
        ctx.verdict(not hits, "R13.10", f, "batch-leaves-in-translator-order", b.line_at((hits[0][0], 10 ** 6)) if hits else f.loc(), "the collected diffs are handed out as collected",
                    "`%s` re-arranges the diffs it collected from the adapter's translator (`%s`) before handing the batch out: every diff is relative to the state all earlier diffs of the batch produce - e.g. PopBacks moved in front of the PushFronts they made room for empty a short view first and leave it above its limit afterwards" % (
                        f.path, (hits[0][1].get("callee") or "?").split("::")[-1] if hits else ""))
    return n
