"""View-length balance of the Head / Tail / Skip translators (R09.12, R09.13, R15.6).

A path-partitioned abstract interpretation in the domain of linear inequalities. For every path through every arm of a
translator `handle_diff(diff, limit|count, previous_length, buffered_vector)` the analysis collects

  * the conditions of the switch edges on the path (conds.py), translated into linear constraints over the symbols
    L (limit) / C (count), P (previous length), I (payload index), K (payload length of Truncate), A / R (number of values
    carried by Append / Reset); `saturating_sub`, `min`, `max` are split into their linear pieces;
  * the sequence of emitted diffs with their multiplicities (`repeat(..).take(n)`, iterator groups);

and compares the length of the consumer's view after the emitted diffs, V0 + sum of effects with V0 = view(P), with the
length the view must have for the new source length N': view(n) = min(L, n) for Head and Tail, n - C (saturating) for Skip.
That equality is a necessary condition of "the rebuilt view equals the first / last / remaining items". The same walk decides
R09.13 (an emitted Insert / Set / Remove index lies inside the view it is applied to) and R15.6 (for Head / Tail the running
length never exceeds L after any emitted diff).

Nothing is executed: emptiness of a case (a conjunction of linear inequalities) is decided by Fourier-Motzkin elimination; a
violation is reported only for a path all of whose conditions were translated and for which a concrete assignment of the
*symbols* satisfying the path's constraints is exhibited (bounded search over the constraint system, as a witness for the
report). Anything not understood (an opaque call, a condition that is not linear) makes the path UNDECIDED, never VIOLATED.
"""
import itertools, re
from fractions import Fraction
from ..facts import strip, ecall_matches, contains, find_all, fmt
from .. import conds
from .linear import Lin, sym
from .common import *
from .vecdiff import *

ONE = Lin(const=1)
ZERO = Lin()


# ---------------------------------------------------------------------------
# linear feasibility (Fourier-Motzkin over the rationals; all constraints are  lin >= 0)

def _norm(c):
    t = {k: Fraction(v) for k, v in c.t.items() if v != 0}
    return t, Fraction(c.c)


def feasible(cons, limit=4000):
    """is { x : every c(x) >= 0 } non-empty over the rationals? (None = gave up)"""
    rows = []
    for c in cons:
        t, k = _norm(c)
        if not t:
            if k < 0:
                return False
            continue
        rows.append((t, k))
    vars_ = sorted({v for t, _ in rows for v in t})
    for v in vars_:
        pos, neg, rest = [], [], []
        for t, k in rows:
            a = t.get(v, 0)
            (pos if a > 0 else neg if a < 0 else rest).append((t, k))
        new = rest
        for tp, kp in pos:
            for tn, kn in neg:
                ap, an = tp[v], -tn[v]
                t = {}
                for x, y in tp.items():
                    if x != v:
                        t[x] = t.get(x, 0) + y * an
                for x, y in tn.items():
                    if x != v:
                        t[x] = t.get(x, 0) + y * ap
                t = {x: y for x, y in t.items() if y != 0}
                k = kp * an + kn * ap
                if not t:
                    if k < 0:
                        return False
                    continue
                new.append((t, k))
        # dedupe
        seen = set()
        rows = []
        for t, k in new:
            key = (tuple(sorted(t.items())), k)
            if key not in seen:
                seen.add(key)
                rows.append((t, k))
        if len(rows) > limit:
            return None
    return all(k >= 0 for t, k in rows if not t)


def witness(cons, symbols, hi=6):
    """a small non-negative integer assignment of the symbols satisfying all constraints (for the report), or None."""
    symbols = sorted(symbols)
    if len(symbols) > 6:
        return None
    rows = [(c.t, c.c) for c in cons]
    for vals in itertools.product(range(hi + 1), repeat=len(symbols)):
        env = dict(zip(symbols, vals))
        ok = True
        for t, k in rows:
            s = k
            for v, a in t.items():
                s += a * env.get(v, 0)
            if s < 0:
                ok = False
                break
        if ok:
            return env
    return None


# ---------------------------------------------------------------------------
# terms: Lin | ("min", a, b) | ("max", a, b) | ("sat", a, b) | ("add", a, b) | ("sub", a, b) | ("opaque", why)

def pieces(term, depth=0):
    """[(conditions: [Lin >= 0], value: Lin | None)]  - None value = opaque."""
    if isinstance(term, Lin):
        return [([], term)]
    k = term[0]
    if k == "opaque" or depth > 12:
        return [([], None)]
    a, b = pieces(term[1], depth + 1), pieces(term[2], depth + 1)
    out = []
    for (ca, va), (cb, vb) in itertools.product(a, b):
        cs = ca + cb
        if va is None or vb is None:
            out.append((cs, None))
            continue
        if k == "add":
            out.append((cs, va + vb))
        elif k == "sub":  # checked subtraction: a normal execution has a >= b
            out.append((cs + [va - vb], va - vb))
        elif k == "sat":
            out.append((cs + [va - vb], va - vb))
            out.append((cs + [vb - va - ONE], ZERO))
        elif k == "min":
            out.append((cs + [vb - va], va))
            out.append((cs + [va - vb - ONE], vb))
        elif k == "max":
            out.append((cs + [va - vb], va))
            out.append((cs + [vb - va - ONE], vb))
    return out


def underflow_cases(term, depth=0):
    """condition sets under which a checked subtraction inside `term` underflows (a panic in debug builds, a wrapped index in
    release builds): [[Lin >= 0]]"""
    if isinstance(term, Lin) or term[0] == "opaque" or depth > 12:
        return []
    out = underflow_cases(term[1], depth + 1) + underflow_cases(term[2], depth + 1)
    if term[0] == "sub":
        for (ca, va), (cb, vb) in itertools.product(pieces(term[1], depth + 1), pieces(term[2], depth + 1)):
            if va is not None and vb is not None:
                out.append(ca + cb + [vb - va - ONE])
    return out


class Unknown(Exception):
    pass


class Sym:
    """translation of provenance expressions of one translator body into terms."""

    def __init__(self, a, body, v, nprime, mode="translator"):
        self.a, self.b, self.v, self.nprime = a, body, v, nprime
        self.mode = mode
        if mode == "translator":
            self.LIMIT, self.PREV, self.BUF = 2, 3, 4
        else:  # update_limit(self, new) / update_count(self, new)
            self.LIMIT, self.PREV, self.BUF = 2, -1, -1
        self.lsym = "C" if a.name == "skip" else "L"
        self.notes = []

    def on_path(self, x):
        """resolve a phi (a local assigned in several branches) to the alternative assigned on the current path."""
        for _ in range(6):
            if x[0] == "phi" and len(x) > 2 and getattr(self, "path_blocks", None):
                alts = [alt for alt, loc in zip(x[1], x[2]) if loc is not None and loc[0] in self.path_blocks]
                if len(alts) == 1:
                    x = alts[0]
                    while x[0] in ("ref", "deref", "cast"):
                        x = x[1]
                    continue
            break
        return x

    def is_old(self, x):
        """the previous limit / count in an update function: the result of mem::replace / Option::replace on the field"""
        if x[0] == "call" and ecall_matches(x, r"^std::mem::replace$") and x[3]:
            a0 = x[3][0]
            for _ in range(4):
                if strip(a0)[0] == "local":   # truncated provenance: continue from that local
                    a0 = self.b.expr_of_local(strip(a0)[1])
            if contains(a0, lambda y: y[0] == "field" and y[2] in ("limit", "count")):
                return True
        if x[0] == "field" and x[2] == "0" and x[1][0] == "downcast" and x[1][2] == "Some":
            y = strip(x[1][1], through_calls=False)
            for _ in range(4):
                if y[0] == "local":   # truncated provenance: continue from that local
                    y = strip(self.b.expr_of_local(y[1]), through_calls=False)
            return y[0] == "call" and ecall_matches(y, r"Option::<.*>::replace$|^std::mem::replace$")
        return False

    def is_buf(self, x):
        if self.mode == "translator":
            return x[0] == "param" and x[1] == self.BUF
        return x[0] == "field" and x[2] == "buffered_vector"

    def payload_len_symbol(self, e):
        """`(diff as Append).values` -> A, `(diff as Reset).values` -> R"""
        x = e
        while x[0] in ("ref", "deref", "cast") or (x[0] == "call" and ecall_matches(x, r"Clone>?::clone$|Deref>?::deref$") and x[3]):
            x = x[1] if x[0] != "call" else x[3][0]
        if x[0] == "field" and x[2] == "values" and x[1][0] == "downcast":
            return {"Append": "A", "Reset": "R"}.get(x[1][2])
        return None

    def vlen(self, e, depth=0):
        """length term of a vector-valued provenance expression (flow-insensitive; used inside conditions)."""
        if depth > 20:
            raise Unknown("depth")
        s = self.payload_len_symbol(e)
        if s:
            return sym(s)
        x = e
        while x[0] in ("ref", "deref", "cast"):
            x = x[1]
        x = self.on_path(x)
        if x[0] == "local":   # provenance expression truncated by depth: continue from that local
            return self.vlen(self.b.expr_of_local(x[1]), depth + 1)
        if self.is_buf(x):
            return self.nprime
        if x[0] == "call" and isinstance(x[1], str):
            if ecall_matches(x, r"Clone>?::clone$|Deref>?::deref$") and x[3]:
                return self.vlen(x[3][0], depth + 1)
            if ecall_matches(x, r"Iterator>?::collect$|FromIterator<.*>>?::from_iter$") and x[3]:
                il = self.iter_len(x[3][0])
                if isinstance(il, str):
                    raise Unknown("unbounded collect")
                return il
            if re.search(r"GenericVector::<.*>::skip$", x[1]):
                return ("sat", self.vlen(x[3][0], depth + 1), self.term(x[3][1], depth + 1))
            if re.search(r"GenericVector::<.*>::take$", x[1]):
                return ("min", self.vlen(x[3][0], depth + 1), self.term(x[3][1], depth + 1))
            c = self.local_helper(x)
            if c is not None and len(x[3]) == 2:
                return self.helper_len(c, self.vlen(x[3][0], depth + 1), self.term(x[3][1], depth + 1))
        raise Unknown("vector " + fmt(e, 3))

    def local_helper(self, x):
        """a private (Vector, usize) -> Vector cutting helper of the adapter's module (truncate_from_end / skeep)."""
        F = self.b.fn.facts
        for key in (x[2], x[1]):
            if isinstance(key, str):
                c = F.fns.get(UT + "::" + key)
                if c is None:
                    # trait method path: resolve by name among the module's fns
                    nm = key.split("::")[-1]
                    cs = [g for g in F.find(crate=UT) if g.name == nm and ("vector::%s::" % self.a.name) in g.path and g.built and g.built.arg_count == 2]
                    c = cs[0] if len(cs) == 1 else None
                if c is not None and c.built and c.built.arg_count == 2 and "GenericVector<" in str(c.built.locals[0]["ty"]):
                    return c
        return None

    def helper_len(self, c, vl, n):
        # Tail's helper keeps the last n items, Skip's drops the first n: the adapters' own cutting helpers (their shape is R15.2's)
        if self.a.name == "skip":
            return ("sat", vl, n)
        return ("min", vl, n)

    def term(self, e, depth=0):
        if depth > 30:
            raise Unknown("depth")
        x = e
        while x[0] in ("ref", "deref", "cast"):
            x = x[1]
        x = self.on_path(x)
        k = x[0]
        if k == "local":
            return self.term(self.b.expr_of_local(x[1]), depth + 1)
        if self.mode == "update" and self.is_old(x):
            return sym("O")
        if k == "param" and x[1] == self.LIMIT:
            return sym(self.lsym)
        if k == "param" and x[1] == self.PREV:
            return sym("P")
        if k == "const" and x[3] is not None:
            return Lin(const=int(x[3]))
        if k == "field" and x[1][0] == "downcast" and x[2] in ("index", "length"):
            return sym("I" if x[2] == "index" else "K")
        if k == "field" and x[2] == "0" and x[1][0] == "bin":
            return self.term(x[1], depth + 1)
        if k == "field" and x[2] == "0" and x[1][0] == "downcast" and x[1][2] == "Some":
            # the payload of `a.checked_sub(b)` / `a.checked_add(b)` on its Some edge
            cs = strip(x[1][1], through_calls=False)
            for _ in range(4):
                if cs[0] == "local":
                    cs = strip(self.b.expr_of_local(cs[1]), through_calls=False)
                elif cs[0] in ("ref", "deref"):
                    cs = cs[1]
                else:
                    break
            if cs[0] == "call" and isinstance(cs[1], str) and len(cs[3]) == 2:
                if re.search(r"::checked_sub$", cs[1]):
                    return ("sub", self.term(cs[3][0], depth + 1), self.term(cs[3][1], depth + 1))
                if re.search(r"::checked_add$", cs[1]):
                    return ("add", self.term(cs[3][0], depth + 1), self.term(cs[3][1], depth + 1))
        if k == "bin":
            if re.match(r"Add", x[1]):
                return ("add", self.term(x[2], depth + 1), self.term(x[3], depth + 1))
            if re.match(r"Sub", x[1]):
                return ("sub", self.term(x[2], depth + 1), self.term(x[3], depth + 1))
        if k == "call" and isinstance(x[1], str):
            if re.search(r"::saturating_sub$", x[1]) and len(x[3]) == 2:
                return ("sat", self.term(x[3][0], depth + 1), self.term(x[3][1], depth + 1))
            if re.search(r"::checked_sub$", x[1]) and len(x[3]) == 2:
                # as a number this is the payload on the Some edge (the provenance expression looks through the `Some(x)` binding);
                # the accompanying variant fact contributes a >= b
                return ("sub", self.term(x[3][0], depth + 1), self.term(x[3][1], depth + 1))
            if re.search(r"::abs_diff$", x[1]) and len(x[3]) == 2:
                ta, tb = self.term(x[3][0], depth + 1), self.term(x[3][1], depth + 1)
                return ("add", ("sat", ta, tb), ("sat", tb, ta))
            if re.search(r"std::cmp::min$|Ord>?::min$", x[1]) and len(x[3]) == 2:
                return ("min", self.term(x[3][0], depth + 1), self.term(x[3][1], depth + 1))
            if re.search(r"std::cmp::max$|Ord>?::max$", x[1]) and len(x[3]) == 2:
                return ("max", self.term(x[3][0], depth + 1), self.term(x[3][1], depth + 1))
            if re.search(r"::len$", x[1]) and x[3]:
                return self.vlen(x[3][0], depth + 1)
            if ecall_matches(x, r"Clone>?::clone$|Deref>?::deref$") and x[3]:
                return self.term(x[3][0], depth + 1)
        raise Unknown(fmt(e, 3))

    def iter_len(self, e, depth=0):
        """(length term or 'inf') of an iterator expression."""
        S = self
        x = strip(e, through_calls=False)
        if x[0] == "local" and depth <= 12:
            return self.iter_len(self.b.expr_of_local(x[1]), depth + 1)
        if x[0] != "call" or not isinstance(x[1], str) or depth > 12:
            raise Unknown("iterator " + fmt(e, 3))
        n = x[1]
        if re.search(r"^std::iter::repeat$", n):
            return "inf"
        if re.search(r"IntoIterator>?::into_iter$|Iterator>?::(rev|cloned|copied|map|enumerate|by_ref|inspect|peekable)$", n):
            return self.iter_len(x[3][0], depth + 1)
        if re.search(r"GenericVector::<.*>::iter$", n):
            return S.vlen(x[3][0])
        if re.search(r"Iterator>?::take$", n):
            inner, k = self.iter_len(x[3][0], depth + 1), S.term(x[3][1])
            return k if isinstance(inner, str) else ("min", inner, k)
        if re.search(r"Iterator>?::skip$", n):
            inner, k = self.iter_len(x[3][0], depth + 1), S.term(x[3][1])
            return "inf" if isinstance(inner, str) else ("sat", inner, k)
        if re.search(r"ops::Range", n) or (x[0] == "agg"):
            raise Unknown("range")
        raise Unknown("iterator " + n.split("::")[-1])


    # -- refills: where in the (post-diff) buffer does an emitted item come from? ------------------------------
    def refill_get(self, e):
        """index term of `buffered_vector.get(i)` when the value expression is a (clone of a) looked-up buffer item."""
        gets = find_all(e, lambda y: y[0] == "call" and ecall_matches(y, r"GenericVector::<.*>::get$") and len(y[3]) == 2 and self.is_buf(strip(y[3][0])))
        if len(gets) != 1:
            return None
        return self.term(gets[0][3][1])

    def refill_iter(self, e, depth=0):
        """(first position, direction, length) of an iterator chain over the buffer, or None when it is not one."""
        x = strip(e, through_calls=False)
        if x[0] == "local" and depth <= 12:
            return self.refill_iter(self.b.expr_of_local(x[1]), depth + 1)
        if x[0] != "call" or not isinstance(x[1], str) or depth > 12:
            return None
        n = x[1]
        if re.search(r"GenericVector::<.*>::iter$", n) and self.is_buf(strip(x[3][0])):
            return (ZERO, 1, self.nprime)
        if re.search(r"IntoIterator>?::into_iter$|Iterator>?::(cloned|copied|map|by_ref|inspect|peekable)$", n) and x[3]:
            return self.refill_iter(x[3][0], depth + 1)
        if re.search(r"Iterator>?::rev$", n):
            r = self.refill_iter(x[3][0], depth + 1)
            if r is None:
                return None
            f, d, ln = r
            last = ("add", f, ("sub", ln, ONE)) if d == 1 else ("sub", f, ("sub", ln, ONE))
            return (last, -d, ln)
        if re.search(r"Iterator>?::skip$", n):
            r = self.refill_iter(x[3][0], depth + 1)
            if r is None:
                return None
            f, d, ln = r
            k = self.term(x[3][1])
            return (("add", f, k) if d == 1 else ("sub", f, k), d, ("sat", ln, k))
        if re.search(r"Iterator>?::take$", n):
            r = self.refill_iter(x[3][0], depth + 1)
            if r is None:
                return None
            f, d, ln = r
            return (f, d, ("min", ln, self.term(x[3][1])))
        return None

    def refill_vec(self, e, depth=0):
        """(first position, length) of a vector expression that is a slice of the buffer (`buf.skip(k)`, `buf.clone()`,
        the adapter's cutting helper applied to it, a collected iterator chain over it)."""
        x = e
        while x[0] in ("ref", "deref", "cast"):
            x = x[1]
        if x[0] == "local" and depth <= 12:
            return self.refill_vec(self.b.expr_of_local(x[1]), depth + 1)
        if self.is_buf(x):
            return (ZERO, self.nprime)
        if x[0] != "call" or not isinstance(x[1], str) or depth > 12:
            return None
        if ecall_matches(x, r"Clone>?::clone$|Deref>?::deref$") and x[3]:
            return self.refill_vec(x[3][0], depth + 1)
        if re.search(r"GenericVector::<.*>::skip$", x[1]):
            r = self.refill_vec(x[3][0], depth + 1)
            if r is None:
                return None
            k = self.term(x[3][1])
            return (("add", r[0], ("min", k, r[1])), ("sat", r[1], k))
        if ecall_matches(x, r"Iterator>?::collect$|FromIterator<.*>>?::from_iter$") and x[3]:
            r = self.refill_iter(x[3][0])
            if r is None:
                return None
            f, d, ln = r
            if d == 1:
                return (f, ln)
            return None   # collected back to front: judged by R12.3-like order rules, not here
        c = self.local_helper(x)
        if c is not None and len(x[3]) == 2:
            r = self.refill_vec(x[3][0], depth + 1)
            if r is None:
                return None
            k = self.term(x[3][1])
            if self.a.name == "skip":     # skeep: drops the first k
                return (("add", r[0], ("min", k, r[1])), ("sat", r[1], k))
            return (("add", r[0], ("sat", r[1], k)), ("min", r[1], k))   # truncate_from_end: keeps the last k
        return None

    # -- conditions ----------------------------------------------------------
    def fact_constraints(self, fct):
        """[alternatives], each alternative a list of term-level constraints (op, termA, termB); raises Unknown."""
        if fct[0] == "cmp":
            _, op, A, B = fct
            ta, tb = self.term(A), self.term(B)
            if op == "Ne":
                return [[("Lt", ta, tb)], [("Gt", ta, tb)]]
            return [[(op, ta, tb)]]
        if fct[0] == "variant":
            subj = strip(fct[1], through_calls=False)
            if subj[0] == "call" and ecall_matches(subj, r"GenericVector::<.*>::get$") and len(subj[3]) == 2:
                idx, ln = self.term(subj[3][1]), self.vlen(subj[3][0])
                if fct[2] == frozenset(["Some"]):
                    return [[("Lt", idx, ln)]]
                if fct[2] == frozenset(["None"]):
                    return [[("Ge", idx, ln)]]
            if subj[0] == "call" and ecall_matches(subj, r"Peekable::<.*>::peek$") and subj[3]:
                il = self.iter_len(subj[3][0])
                if isinstance(il, str):
                    raise Unknown("peek on an unbounded iterator")
                if fct[2] == frozenset(["Some"]):
                    return [[("Ge", il, ONE)]]
                if fct[2] == frozenset(["None"]):
                    return [[("Eq", il, ZERO)]]
            if subj[0] == "call" and ecall_matches(subj, r"Option::<.*>::replace$|^std::mem::replace$") and self.mode == "update":
                if fct[2] == frozenset(["None"]):
                    return [[("Eq", sym("HASOLD"), ZERO)]]
                if fct[2] == frozenset(["Some"]):
                    return [[("Eq", sym("HASOLD"), ONE)]]
                return None
            if subj[0] == "call" and isinstance(subj[1], str) and re.search(r"::checked_sub$", subj[1]) and len(subj[3]) == 2:
                ta, tb = self.term(subj[3][0]), self.term(subj[3][1])
                if fct[2] == frozenset(["Some"]):
                    return [[("Ge", ta, tb)]]
                if fct[2] == frozenset(["None"]):
                    return [[("Lt", ta, tb)]]
            if subj[0] == "call" and ecall_matches(subj, r"Ord>?::cmp$"):
                return None  # the accompanying cmp fact carries the information
            if self.mode == "translator" and ((subj[0] == "param" and subj[1] == 1) or contains(subj, lambda y: y[0] == "param" and y[1] == 1) and not contains(subj, lambda y: y[0] == "call")):
                return [[]]  # the arm itself
            raise Unknown("variant of " + fmt(subj, 3))
        if fct[0] == "int":
            t = self.term(fct[1])
            if fct[2] is None:
                return None  # "none of the listed values": handled through the accompanying cmp Ne when there is one
            return [[("Eq", t, Lin(const=int(fct[2])))]]
        if fct[0] == "truth":
            x = fct[1]
            if x[0] == "call" and ecall_matches(x, r"GenericVector::<.*>::is_empty$|Vec::<.*>::is_empty$") and x[3]:
                ln = self.vlen(x[3][0])
                return [[("Eq", ln, ZERO)]] if fct[2] else [[("Ge", ln, ONE)]]
            if x[0] == "call" and ecall_matches(x, r"Option::<.*>::(is_none|is_some)$"):
                return None  # the accompanying variant fact carries the information
            raise Unknown("condition " + fmt(fct[1], 3))
        raise Unknown(str(fct[0]))


def cmp_to_lins(op, a, b):
    """a op b as [Lin >= 0, ...]"""
    if op == "Lt":
        return [b - a - ONE]
    if op == "Le":
        return [b - a]
    if op == "Gt":
        return [a - b - ONE]
    if op == "Ge":
        return [a - b]
    if op == "Eq":
        return [a - b, b - a]
    raise Unknown(op)


def expand(term_cons):
    """term-level constraints [(op, ta, tb)] -> list of alternatives, each [Lin >= 0] (pieces of min / sat / max split)."""
    alts = [[]]
    for op, ta, tb in term_cons:
        new = []
        for (ca, va), (cb, vb) in itertools.product(pieces(ta), pieces(tb)):
            if va is None or vb is None:
                raise Unknown("opaque operand")
            for base in alts:
                new.append(base + ca + cb + cmp_to_lins(op, va, vb))
        alts = new
        if len(alts) > 512:
            raise Unknown("too many cases")
    return alts


# ---------------------------------------------------------------------------
# path walk

NPRIME = {"Append": lambda: sym("P") + sym("A"), "Clear": lambda: ZERO, "PushFront": lambda: sym("P") + ONE, "PushBack": lambda: sym("P") + ONE,
          "PopFront": lambda: sym("P") - ONE, "PopBack": lambda: sym("P") - ONE, "Insert": lambda: sym("P") + ONE, "Set": lambda: sym("P"),
          "Remove": lambda: sym("P") - ONE, "Truncate": lambda: sym("K"), "Reset": lambda: sym("R")}
# what the source guarantees about the incoming diff (ObservableVector's own no-op guards and bounds checks; C05 / C17)
PRE = {"Insert": lambda: [sym("P") - sym("I")], "Set": lambda: [sym("P") - sym("I") - ONE], "Remove": lambda: [sym("P") - sym("I") - ONE],
       "PopFront": lambda: [sym("P") - ONE], "PopBack": lambda: [sym("P") - ONE], "Truncate": lambda: [sym("P") - sym("K") - ONE]}


def refill_checks_for(S, a, ev, count, payload, cur):
    """[(lhs term, rhs term, guard constraints [(op, ta, tb)], what)]: where a refilled item must come from. The view is a prefix
    of the buffer for Head and a suffix for Tail and Skip, so an item entering at the back of a Head view sits at index `cur`
    (the running view length), an item entering at the front of a Tail / Skip view at index N' - cur - 1."""
    out = []
    try:
        if ev in ("PushBack", "PushFront") and "value" in payload and "__iter" not in payload:
            idx = S.refill_get(payload["value"])
            if idx is not None:
                if a.name == "head" and ev == "PushBack":
                    out.append((idx, cur, [], "looked-up item of the PushBack refill"))
                elif a.name in ("tail", "skip") and ev == "PushFront":
                    out.append((("add", idx, ("add", cur, ONE)), S.nprime, [], "looked-up item of the PushFront refill"))
        elif ev in ("PushBack", "PushFront") and "__iter" in payload:
            r = S.refill_iter(payload["__iter"])
            if r is not None:
                f, d, ln = r
                guard = [("Ge", count, ONE)]
                if a.name == "head" and ev == "PushBack" and d == 1:
                    out.append((f, cur, guard, "first item of the PushBack group"))
                elif a.name in ("tail", "skip") and ev == "PushFront" and d == -1:
                    out.append((("add", f, ("add", cur, ONE)), S.nprime, guard, "first item of the PushFront group"))
                elif (a.name == "head" and ev == "PushBack") or (a.name in ("tail", "skip") and ev == "PushFront"):
                    out.append((ZERO, ONE, guard, "direction of the %s group (items must enter nearest first)" % ev))
        elif ev == "Append" and "values" in payload:
            r = S.refill_vec(payload["values"])
            if r is not None:
                f, ln = r
                guard = [("Ge", ln, ONE)]
                if a.name == "head":
                    out.append((f, cur, guard, "first item of the appended slice"))
                else:
                    # appended behind a suffix view: only right when the slice ends at the end of the buffer
                    out.append((("add", f, ln), S.nprime, guard, "end of the appended slice"))
    except Unknown:
        pass
    return out


def view_term(a, n):
    return ("sat", n, sym("C")) if a.name == "skip" else ("min", sym("L"), n)


def arm_paths(b, start, limit=400):
    """acyclic block paths from `start` to a return (normal edges; a block is not revisited: loops are cut)."""
    out = []
    stack = [(start, (start,))]
    while stack and len(out) < limit:
        n, path = stack.pop()
        if b.term(n)["k"] == "return":
            out.append(path)
            continue
        for s in b.succ[n]:
            if s not in path and not b.is_cleanup(s):
                stack.append((s, path + (s,)))
    return out


class PathEval:
    """emission sequence and payload lengths along one path."""

    def __init__(self, S, b, path):
        self.S, self.b, self.path = S, b, path
        self.pos = {blk: i for i, blk in enumerate(path)}

    def defs_on_path(self, l, before):
        """definitions of local l in path blocks with position < before (latest first): (pos, kind, payload)"""
        whole, _ = self.b.defs
        out = []
        for loc, kind, payload in whole.get(l, []):
            p = self.pos.get(loc[0])
            if p is not None and p <= before:
                out.append((p, loc, kind, payload))
        out.sort(key=lambda x: (x[0], x[1][1]), reverse=True)
        return out

    def vec_len(self, op, at, depth=0):
        """length term of the vector operand `op` as it is at path position `at`."""
        if depth > 12:
            raise Unknown("depth")
        b, S = self.b, self.S
        if op["k"] not in ("move", "copy"):
            raise Unknown("const vector")
        pl = op["place"]
        if pl["proj"]:
            return S.vlen(b.expr_of_place(pl))
        l = pl["l"]
        if l == S.BUF:
            return S.nprime
        ds = self.defs_on_path(l, at)
        if not ds:
            return S.vlen(b.expr_of_local(l))
        p, loc, kind, payload = ds[0]
        if kind == "assign":
            rv = payload
            if rv["k"] == "use":
                base = self.vec_len(rv["op"], p, depth + 1) if rv["op"]["k"] in ("move", "copy") else None
            else:
                base = S.vlen(b.expr_of_rv(rv, 10, (), loc))
        else:
            t = payload
            callee = t.get("callee") or ""
            e = b.expr_of_call(t, 10, (), loc)
            base = S.vlen(e)
        # in-place cuts between the definition and `at`: v.truncate(n)
        for blk in self.path[p:at + 1]:
            t = b.term(blk)
            if t["k"] == "call" and re.search(r"GenericVector::<.*>::truncate$", t.get("callee") or "") and len(t["args"]) == 2:
                recv = strip(b.expr_of_op(t["args"][0]))
                if recv == ("local", l) or (t["args"][0]["k"] in ("move", "copy") and self.refers_to(t["args"][0], l)):
                    base = ("min", base, S.term(b.expr_of_op(t["args"][1])))
        return base

    def refers_to(self, op, l):
        """operand is `&mut _l` (possibly through a temporary)."""
        b = self.b
        if op["place"]["proj"]:
            return False
        whole, _ = b.defs
        x = op["place"]["l"]
        for _ in range(6):
            if x == l:
                return True
            ds = whole.get(x, [])
            if len(ds) != 1 or ds[0][1] != "assign":
                return False
            rv = ds[0][2]
            if rv["k"] == "ref" and not rv["place"]["proj"]:
                x = rv["place"]["l"]
            elif rv["k"] == "use" and rv["op"]["k"] in ("move", "copy") and not rv["op"]["place"]["proj"]:
                x = rv["op"]["place"]["l"]
            else:
                return False
        return False

    def iter_len(self, e, depth=0):
        return self.S.iter_len(e, depth)

    def emissions(self, evs):
        """[(variant, count term, payload {field: operand}, block)] in path order; raises Unknown."""
        b = self.b
        out = []
        # every VectorDiff built on this path must be accounted for by a push / group event; a diff that is built but reaches the
        # result some other way (`Some(diff)` .. `.into_iter().collect()`) means the output idiom is not the one this analysis reads
        built = set()
        for blk in self.path:
            for i_, s_ in enumerate(b.blocks[blk]["stmts"]):
                if s_["k"] == "assign" and s_["rv"]["k"] == "agg" and (s_["rv"].get("adt") or "").endswith("::VectorDiff"):
                    built.add((blk, i_))
        used = set()
        for blk in self.path:
            if blk in evs:
                for agg in find_all(evs[blk][2], lambda y: y[0] == "agg" and y[1] == "adt" and isinstance(y[2], str) and y[2].endswith("::VectorDiff")):
                    used.add(agg[6])
        if built - used:
            raise Unknown("a diff is built on this path but not pushed onto the result buffer (output idiom not recognised)")
        for i, blk in enumerate(self.path):
            if blk not in evs:
                t_ = b.term(blk)
                if t_["k"] == "call":
                    for a_ in t_["args"]:
                        if a_["k"] in ("move", "copy") and not a_["place"]["proj"]:
                            ty_ = str(b.locals[a_["place"]["l"]]["ty"])
                            if ty_.startswith("&mut ") and "VectorDiff<" in ty_ and re.search(r"SmallVec<|ArrayVec<|Vec<", ty_):
                                nm_ = (t_.get("callee") or "?").split("::")[-1]
                                if nm_ not in ("new", "len", "is_empty", "deref", "deref_mut", "as_mut", "borrow_mut", "reserve", "with_capacity"):
                                    raise Unknown("the output buffer is handed to `%s`" % nm_)
                continue
            kind, vs, e, cnt, term = evs[blk]
            vs = list(dict.fromkeys(vs))
            if len(vs) != 1:
                # a pushed value built in several branches: the aggregate assigned on this path
                aggs = []
                for pb in self.path[:i + 1]:
                    for s in b.blocks[pb]["stmts"]:
                        if s["k"] == "assign" and s["rv"]["k"] == "agg" and (s["rv"].get("adt") or "").endswith("::VectorDiff"):
                            aggs.append(s["rv"])
                if not aggs:
                    raise Unknown("pushed variant not determined")
                vs = [aggs[-1]["variant"]]
            v = vs[0]
            payload = {}
            for agg in find_all(e, lambda y: y[0] == "agg" and y[1] == "adt" and isinstance(y[2], str) and y[2].endswith("::VectorDiff") and y[3] == v):
                for name, op in zip(agg[4], agg[5]):
                    payload[name] = op
                agg_loc = agg[6]
                break
            else:
                agg_loc = None
            if kind == "push":
                count = ONE
            else:
                if cnt is not None and e[0] == "call" and e[1] == "loop-group":
                    count = self.S.term(cnt)
                elif e[0] == "call" and e[1] == "loop-group":
                    count = self.iter_len(e[3][0])
                else:
                    count = self.iter_len(e)
                if isinstance(count, str):
                    raise Unknown("unbounded group")
            # vector payload length, path-sensitively
            vl = None
            if v in ("Append", "Reset"):
                vl = self.payload_vec_len(agg_loc, i)
            if kind != "push":
                payload = dict(payload)
                payload["__iter"] = e[3][0] if (e[0] == "call" and e[1] == "loop-group") else e
            out.append((v, count, payload, blk, vl))
        return out

    def payload_vec_len(self, agg_loc, at):
        b = self.b
        if agg_loc is None:
            raise Unknown("payload")
        s = b.stmt_at(agg_loc)
        if s.get("k") != "assign" or s["rv"]["k"] != "agg":
            raise Unknown("payload")
        op = s["rv"]["ops"][s["rv"]["fields"].index("values")]
        return self.vec_len(op, self.pos.get(agg_loc[0], at))


def analyse_arm(ctx, a, b, sw, v, target, evs, base_facts):
    """returns list of per-path results: (status, detail) with status in HOLDS / VIOLATED / UNDECIDED."""
    S = Sym(a, b, v, NPRIME[v]())
    lsym = S.lsym
    symbols = {"P", lsym} | ({"I"} if v in ("Insert", "Set", "Remove") else set()) | ({"K"} if v == "Truncate" else set()) | ({"A"} if v == "Append" else set()) | ({"R"} if v == "Reset" else set())
    base = [sym(x) for x in symbols] + (PRE[v]() if v in PRE else [])
    results = []
    # dominating facts of the dispatch (e.g. `limit == 0 => return`)
    base_alts = [[]]
    base_complete = True
    for fct in base_facts:
        try:
            alts = S.fact_constraints(fct)
            if alts is None:
                continue
            new = []
            for al in alts:
                for ex in expand(al):
                    for bs in base_alts:
                        new.append(bs + ex)
            base_alts = new
        except Unknown:
            base_complete = False
    # the code before the dispatch may compute locals in branches (`let view_start = if full { prev - limit } else { 0 }`): walk
    # entry -> dispatch -> arm as one path so that such values and their conditions are resolved on the path
    prefixes = paths_between(b, 0, sw, limit=60) if sw != 0 else [(0,)]
    if len(prefixes) > 1:
        base_alts, base_complete = [[]], True
        full_paths = [tuple(pre) + tuple(ap) for pre in prefixes for ap in arm_paths(b, target)]
    else:
        full_paths = [tuple(ap) for ap in arm_paths(b, target)]
    for path in full_paths:
        complete = base_complete
        alts = [list(x) for x in base_alts]
        notes = []
        S.path_blocks = set(path) | set(b.dominators().get(sw, ()))
        try:
            for s_, t_ in zip(path, path[1:]):
                for fct in conds.edge_facts(b, s_, t_):
                    try:
                        fa = S.fact_constraints(fct)
                    except Unknown as u:
                        # an `int` "otherwise" fact is covered by its cmp Ne twin; other unknowns make the path incomplete
                        if fct[0] != "int":
                            complete = False
                            notes.append(str(u))
                        continue
                    if fa is None:
                        continue
                    new = []
                    for al in fa:
                        for ex in expand(al):
                            for bs in alts:
                                new.append(bs + ex)
                    alts = new
                    if len(alts) > 2000:
                        raise Unknown("too many cases")
            pe = PathEval(S, b, path)
            ems = pe.emissions(evs)
        except Unknown as u:
            results.append(("UNDECIDED", path, "not understood: %s" % u, None))
            continue
        # running view length
        v0 = view_term(a, sym("P"))
        vend = view_term(a, S.nprime)
        # build the list of (term after each emission)
        run = [("start", v0)]
        cur = v0
        und = None
        idx_checks = []
        refills = []
        for (ev, count, payload, blk, vl) in ems:
            refills += refill_checks_for(S, a, ev, count, payload, cur)
            if ev in ("PushFront", "PushBack", "Insert"):
                if ev == "Insert" and "index" in payload:
                    idx_checks.append(("Le", payload["index"], cur, ev, blk))
                cur = ("add", cur, count)
            elif ev in ("PopFront", "PopBack", "Remove"):
                if ev == "Remove" and "index" in payload:
                    idx_checks.append(("Lt", payload["index"], cur, ev, blk))
                cur = ("sat", cur, count) if ev != "Remove" else ("sub", cur, count)
            elif ev == "Set":
                if "index" in payload:
                    idx_checks.append(("Lt", payload["index"], cur, ev, blk))
            elif ev == "Append":
                cur = ("add", cur, vl)
            elif ev == "Clear":
                cur = ZERO
            elif ev == "Reset":
                cur = vl
            elif ev == "Truncate":
                try:
                    cur = ("min", cur, S.term(payload["length"]))
                except Unknown as u:
                    und = str(u)
            run.append((ev, cur))
        if und:
            results.append(("UNDECIDED", path, "not understood: %s" % und, None))
            continue
        seq = [e[0] + ("" if isinstance(e[1], Lin) and e[1] == ONE else " x n") for e in ems]
        # final balance in every feasible case
        verdict = "HOLDS"
        detail = "emits [%s]" % ", ".join(seq)
        wit = None
        n_cases = 0
        for bs in alts:
            cons0 = base + bs
            f0 = feasible(cons0)
            if f0 is False:
                continue
            for pc, val in pieces(cur):
                for qc, want in pieces(vend):
                    cons = cons0 + pc + qc
                    if feasible(cons) is False:
                        continue
                    n_cases += 1
                    if val is None or want is None:
                        if verdict == "HOLDS":
                            verdict, detail = "UNDECIDED", "opaque length on path emitting [%s]" % ", ".join(seq)
                        continue
                    d = val - want
                    if d.is_const() and d.c == 0:
                        continue
                    more = feasible(cons + [d - ONE])
                    less = feasible(cons + [-d - ONE])
                    if more is False and less is False:
                        continue
                    if not complete or more is None or less is None:
                        if verdict == "HOLDS":
                            verdict, detail = "UNDECIDED", "balance `%s` vs `%s` not settled (%s)" % (val, want, "; ".join(notes[:2]) or "case limit")
                        continue
                    w = witness(cons + ([d - ONE] if more else [-d - ONE]), symbols | set(val.t) | set(want.t))
                    if w is None:
                        if verdict == "HOLDS":
                            verdict, detail = "UNDECIDED", "mismatch `%s` vs `%s` without a small integer witness" % (val, want)
                        continue
                    verdict = "VIOLATED"
                    wit = w
                    got = val.c + sum(c * w.get(s_, 0) for s_, c in val.t.items())
                    exp = want.c + sum(c * w.get(s_, 0) for s_, c in want.t.items())
                    detail = "for %s the path emits [%s]: the consumer's view then has %d item(s), but the view of the new source (%s items) has %d" % (
                        ", ".join("%s=%d" % (k_, w[k_]) for k_ in sorted(w)), ", ".join(seq), got, fmt_lin(S.nprime, w), exp)
                    break
                if verdict == "VIOLATED":
                    break
            if verdict == "VIOLATED":
                break
        results.append((verdict, path, detail, {"run": run, "alts": alts, "base": base, "complete": complete, "idx": idx_checks, "refill": refills, "cases": n_cases, "S": S, "symbols": symbols, "path_blocks": set(S.path_blocks)}))
    return results


def fmt_lin(l, w):
    if isinstance(l, Lin):
        return str(l.c + sum(c * w.get(s, 0) for s, c in l.t.items()))
    return "?"


def collect_events(b):
    from .adapters import emits
    evs = {}
    for blk, kind, vs, e, cnt in emits(b):
        evs[blk] = (kind, vs, e, cnt, None)
    return evs


def run_adapter(ctx, a, rule_balance="R09.12", rule_index="R09.13", rule_bound="R15.6", want=("balance", "index", "bound")):
    f = a.translator
    b = inl(ctx.facts, f, tag="balance", desugar=True) or f.built   # private helpers (e.g. an extracted refill block) are analysed in place
    sws = diff_switches(b)
    if not sws:
        b = f.built
        sws = diff_switches(b)
    if not sws:
        return 0
    sw, info = sws[0]
    arms, multi = arm_targets(info)
    evs = collect_events(b)
    base_facts = [x for (_, _, x) in conds.dominating_facts(b, sw)]
    n = 0
    for v in VARIANTS:
        if v not in arms:
            continue
        n += 1
        res = analyse_arm(ctx, a, b, sw, v, arms[v], evs, base_facts)
        where = b.line_at((arms[v], 0))
        viol = [r for r in res if r[0] == "VIOLATED"]
        und = [r for r in res if r[0] == "UNDECIDED"]
        if "balance" in want:
            if viol:
                ctx.violated(rule_balance, f, "view-length:%s" % v, b.line_at((viol[0][1][-1], 0)) if False else where,
                             "%s translator, arm %s: %s - the rebuilt view cannot equal the %s of the source" % (
                                 a.name, v, viol[0][2], {"head": "first `limit` items", "tail": "last `limit` items", "skip": "items after the first `count`"}[a.name]))
            elif und or not res:
                ctx.undecided(rule_balance, f, "view-length:%s" % v, where, "; ".join(sorted({r[2] for r in und}))[:300] or "no path")
            else:
                ctx.holds(rule_balance, f, "view-length:%s" % v, where,
                          "%d path(s), %d feasible case(s): view(P) + effects of the emitted diffs = view(N') in every case (%s)" % (
                              len(res), sum(r[3]["cases"] for r in res), "; ".join(sorted({r[2] for r in res}))[:200]))
        # index applicability and running bound on the decided paths
        for rule, kind in ((rule_index, "index"), (rule_bound, "bound"), ("R09.15", "refill")):
            if (kind not in want and not (kind == "refill" and "index" in want)) or (kind == "bound" and a.name == "skip"):
                continue
            status, detail = check_prefixes(a, b, res, kind)
            if status is None:
                continue
            key = {"index": "emitted-index-in-view:%s", "bound": "running-length<=limit:%s", "refill": "refill-position:%s"}[kind] % v
            ctx.__dict__.setdefault("balance_verdicts", {})[(a.name, kind, v)] = status
            if status == "VIOLATED":
                ctx.violated(rule, f, key, where, "%s translator, arm %s: %s" % (a.name, v, detail))
            elif status == "UNDECIDED":
                ctx.undecided(rule, f, key, where, detail)
            else:
                ctx.holds(rule, f, key, where, detail)
    return n


def check_prefixes(a, b, res, kind):
    """R09.13 / R15.6 on the paths whose emissions were understood."""
    any_checked = False
    und = None
    for verdict, path, detail, info in res:
        if info is None:
            und = und or detail
            continue
        S = info["S"]
        if "path_blocks" in info:
            S.path_blocks = info["path_blocks"]   # expressions are resolved on the path they were collected on
        symbols = info["symbols"]
        checks = []
        if kind == "index":
            for op, idx_op, cur, ev, blk in info["idx"]:
                try:
                    it = S.term(idx_op)
                except Unknown as u:
                    und = und or str(u)
                    continue
                checks.append((op, it, cur, "%s.index" % ev))
                # the index computation itself must not underflow on this path
                for uc in underflow_cases(it):
                    any_checked = True
                    for bs in info["alts"]:
                        cons = info["base"] + bs + uc
                        if feasible(cons) is False:
                            continue
                        if not info["complete"]:
                            und = und or "underflow of %s.index not settled" % ev
                            continue
                        w = witness(cons, symbols)
                        if w is None:
                            und = und or "underflow of %s.index: no small witness" % ev
                            continue
                        return "VIOLATED", "for %s the computation of the emitted %s.index subtracts below zero (a panic in debug builds, a huge index in release builds): the translated position lies before the start of the view" % (
                            ", ".join("%s=%d" % (k_, w[k_]) for k_ in sorted(w)), ev)
        elif kind == "refill":
            for lhs_, rhs_, guard_, what_ in info.get("refill", []):
                checks.append(("Eq", lhs_, rhs_, what_, guard_))
        else:
            for ev, cur in info["run"][1:]:
                checks.append(("Le", cur, sym("L"), "length after %s" % ev))
        for chk in checks:
            op, lhs, rhs, what = chk[:4]
            guard_alts = [[]]
            if len(chk) > 4 and chk[4]:
                try:
                    guard_alts = expand(chk[4])
                except Unknown:
                    und = und or "guard of %s not understood" % what
                    continue
            any_checked = True
            for bs in info["alts"]:
              for ga in guard_alts:
                cons0 = info["base"] + bs + ga
                if feasible(cons0) is False:
                    continue
                for pc, lv in pieces(lhs):
                    for qc, rv in pieces(rhs):
                        cons = cons0 + pc + qc
                        if feasible(cons) is False:
                            continue
                        if lv is None or rv is None:
                            und = und or "opaque %s" % what
                            continue
                        if op == "Eq":
                            d_ = lv - rv
                            if d_.is_const() and d_.c == 0:
                                continue
                            more_, less_ = feasible(cons + [d_ - ONE]), feasible(cons + [-d_ - ONE])
                            if more_ is False and less_ is False:
                                continue
                            if not info["complete"] or more_ is None or less_ is None:
                                und = und or "%s not settled" % what
                                continue
                            w = witness(cons + ([d_ - ONE] if more_ else [-d_ - ONE]), symbols | set(lv.t) | set(rv.t))
                            if w is None:
                                und = und or "%s: no small witness" % what
                                continue
                            lval = lv.c + sum(c * w.get(s_, 0) for s_, c in lv.t.items())
                            rval = rv.c + sum(c * w.get(s_, 0) for s_, c in rv.t.items())
                            return "VIOLATED", "for %s the %s is taken from the wrong place of the buffer (position expression evaluates to %d where the item entering the view is at %d): the view gets the right number of items but not the right ones" % (
                                ", ".join("%s=%d" % (k_, w[k_]) for k_ in sorted(w)), what, lval, rval)
                        bad = (lv - rv) if op == "Lt" else (lv - rv - ONE)   # violation: lhs >= rhs (Lt) / lhs > rhs (Le)
                        fb = feasible(cons + [bad])
                        if fb is False:
                            continue
                        if not info["complete"] or fb is None:
                            und = und or "%s not settled" % what
                            continue
                        w = witness(cons + [bad], symbols | set(lv.t) | set(rv.t))
                        if w is None:
                            und = und or "%s: no small witness" % what
                            continue
                        lval = lv.c + sum(c * w.get(s_, 0) for s_, c in lv.t.items())
                        rval = rv.c + sum(c * w.get(s_, 0) for s_, c in rv.t.items())
                        if kind == "index":
                            return "VIOLATED", "for %s the emitted %s is %d but the view it is applied to holds %d item(s): the diff is not applicable" % (
                                ", ".join("%s=%d" % (k_, w[k_]) for k_ in sorted(w)), what, lval, rval)
                        return "VIOLATED", "for %s the view holds %d item(s) (%s) with a limit of %d: the bound is exceeded between two diffs" % (
                            ", ".join("%s=%d" % (k_, w[k_]) for k_ in sorted(w)), lval, what, rval)
    if not any_checked and kind in ("index", "refill"):
        return None, None
    if und:
        return "UNDECIDED", und[:200]
    return "HOLDS", {"index": "every emitted index lies inside the view it is applied to", "refill": "every refilled item is taken from the buffer position adjacent to the view", "bound": "after every emitted diff the view holds at most `limit` items"}[kind]


# ---------------------------------------------------------------------------
# update_limit / update_count: the view goes from view_old(N) to view_new(N), N = len(buffered_vector)

def _ret_emissions(S, b, path):
    """the diffs a path of an update function returns: [] for None, else [(variant, count term, payload exprs, vec len term)]"""
    pos = {blk: i for i, blk in enumerate(path)}
    whole, _ = b.defs
    ds = [(pos[loc[0]], loc, kind, payload) for loc, kind, payload in whole.get(0, []) if loc[0] in pos]
    if not ds:
        raise Unknown("no return value on path")
    ds.sort(key=lambda x: (x[0], x[1][1]))
    p, loc, kind, payload = ds[-1]
    e = b.expr_of_rv(payload, 30, (), loc) if kind == "assign" else b.expr_of_call(payload, 30, (), loc)
    x = strip(e, through_calls=False)
    if x[0] == "agg" and x[2] == "std::option::Option" and x[3] == "None":
        return []
    if not (x[0] == "agg" and x[2] == "std::option::Option" and x[3] == "Some"):
        raise Unknown("return shape " + fmt(x, 2))
    inner = strip(x[5][0], through_calls=False)

    def diff_of(agg):
        pl = dict(zip(agg[4], agg[5]))
        vl = None
        if agg[3] in ("Append", "Reset"):
            vl = S.vlen(pl["values"])
        return (agg[3], ONE, pl, vl)
    is_diff = lambda y: y[0] == "agg" and y[1] == "adt" and isinstance(y[2], str) and y[2].endswith("::VectorDiff")
    if inner[0] == "call" and isinstance(inner[1], str):
        n = inner[1]
        if n.endswith("::from_item") and inner[3]:
            aggs = find_all(inner[3][0], is_diff)
            if len(aggs) == 1:
                return [diff_of(aggs[0])]
            raise Unknown("from_item argument")
        if re.search(r"into_vec|box_assume_init_into_vec", n):
            # vec![..]: the VectorDiff aggregates built on this path, in order
            out = []
            for blk in path[:p + 1]:
                for i, s in enumerate(b.blocks[blk]["stmts"]):
                    if s["k"] == "assign" and s["rv"]["k"] == "agg" and (s["rv"].get("adt") or "").endswith("::VectorDiff"):
                        out.append(diff_of(b.expr_of_rv(s["rv"], 30, (), (blk, i))))
            if not out:
                raise Unknown("vec! without elements")
            return out
        if re.search(r"vec::from_elem$", n) and len(inner[3]) == 2:
            aggs = find_all(inner[3][0], is_diff)
            if len(aggs) == 1 and aggs[0][3] not in ("Append", "Reset", "Truncate", "Insert", "Set", "Remove"):
                return [(aggs[0][3], S.term(inner[3][1]), {}, None)]
            raise Unknown("vec![d; n] of %s" % [a_[3] for a_ in aggs])
        if re.search(r"Iterator>?::collect$|FromIterator<.*>>?::from_iter$", n) and inner[3]:
            it = inner[3][0]
            cnt = S.iter_len(it)
            if isinstance(cnt, str):
                raise Unknown("unbounded collect")
            aggs = find_all(it, is_diff)
            vs = [a_[3] for a_ in aggs]
            for c_ in find_all(it, lambda y: y[0] == "agg" and y[1] == "closure"):
                cf = b.fn.facts.fns.get(b.fn.crate + "::" + c_[2])
                if cf is not None and cf.built:
                    vs += [a_[3] for a_ in find_all(cf.built.expr_of_local(0), is_diff)]
            vs = list(dict.fromkeys(vs))
            if len(vs) != 1 or vs[0] in ("Append", "Reset", "Truncate", "Insert", "Set", "Remove"):
                raise Unknown("collected group of %s" % vs)
            return [(vs[0], cnt, {"__iter": it}, None)]
    raise Unknown("returned container " + fmt(inner, 3))


def run_update(ctx, a, rule="R09.12"):
    f = a.update
    if f is None or not f.built:
        return 0
    b = inl(ctx.facts, f, tag="balance", desugar=True) or f.built
    N, O = sym("N"), sym("O")
    lsym = "C" if a.name == "skip" else "L"
    S = Sym(a, b, "update", N, mode="update")
    symbols = {"N", "O", lsym, "HASOLD"}
    base = [sym(x) for x in symbols] + [ONE - sym("HASOLD")]
    results = []
    refill_viol, refill_und, refill_ok = [], [], [0]
    empties = []
    for path in arm_paths(b, 0):
        complete = True
        alts = [[]]
        notes = []
        S.path_blocks = set(path)
        try:
            for s_, t_ in zip(path, path[1:]):
                for fct in conds.edge_facts(b, s_, t_):
                    try:
                        fa = S.fact_constraints(fct)
                    except Unknown as u:
                        if fct[0] != "int":
                            complete = False
                            notes.append(str(u))
                        continue
                    if fa is None:
                        continue
                    new = []
                    for al in fa:
                        for ex in expand(al):
                            for bs in alts:
                                new.append(bs + ex)
                    alts = new
                    if len(alts) > 2000:
                        raise Unknown("too many cases")
            ems = _ret_emissions(S, b, path)
        except Unknown as u:
            results.append(("UNDECIDED", path, "not understood: %s" % u, None))
            continue
        # view before: nothing while a Skip has no count yet (HASOLD = 0); Head / Tail always have a limit
        if a.name == "skip":
            v_old_some = ("sat", N, O)
        else:
            v_old_some = ("min", O, N)
        vend = view_term(a, N)
        seq = []
        for has_old in ((0, 1) if a.name == "skip" else (1,)):
            cur = v_old_some if has_old else ZERO
            extra = [sym("HASOLD") - Lin(const=has_old), Lin(const=has_old) - sym("HASOLD")]
            seq = []
            und = None
            refills = []
            for (ev, count, payload, vl) in ems:
                refills += refill_checks_for(S, a, ev, count, payload, cur)
                seq.append(ev + ("" if isinstance(count, Lin) and count == ONE else " x n"))
                if ev in ("PushFront", "PushBack", "Insert"):
                    cur = ("add", cur, count)
                elif ev in ("PopFront", "PopBack"):
                    cur = ("sat", cur, count)
                elif ev == "Remove":
                    cur = ("sub", cur, count)
                elif ev == "Append":
                    cur = ("add", cur, vl)
                elif ev == "Clear":
                    cur = ZERO
                elif ev == "Reset":
                    cur = vl
                elif ev == "Truncate":
                    try:
                        cur = ("min", cur, S.term(payload["length"]))
                    except Unknown as u:
                        und = str(u)
            if und:
                results.append(("UNDECIDED", path, "not understood: " + und, None))
                continue
            verdict, detail = "HOLDS", "returns [%s]" % ", ".join(seq)
            for bs in alts:
                cons0 = base + bs + extra
                if feasible(cons0) is False:
                    continue
                for pc, val in pieces(cur):
                    for qc, want in pieces(vend):
                        cons = cons0 + pc + qc
                        if feasible(cons) is False:
                            continue
                        if val is None or want is None:
                            if verdict == "HOLDS":
                                verdict, detail = "UNDECIDED", "opaque length on path returning [%s]" % ", ".join(seq)
                            continue
                        d = val - want
                        if d.is_const() and d.c == 0:
                            continue
                        more, less = feasible(cons + [d - ONE]), feasible(cons + [-d - ONE])
                        if more is False and less is False:
                            continue
                        if not complete or more is None or less is None:
                            if verdict == "HOLDS":
                                verdict, detail = "UNDECIDED", "balance `%s` vs `%s` not settled (%s)" % (val, want, "; ".join(notes[:2]) or "case limit")
                            continue
                        w = witness(cons + ([d - ONE] if more else [-d - ONE]), {"N", "O", lsym, "HASOLD"})
                        if w is None:
                            if verdict == "HOLDS":
                                verdict, detail = "UNDECIDED", "mismatch `%s` vs `%s` without a small integer witness" % (val, want)
                            continue
                        got = val.c + sum(c * w.get(s_, 0) for s_, c in val.t.items())
                        exp = want.c + sum(c * w.get(s_, 0) for s_, c in want.t.items())
                        verdict = "VIOLATED"
                        detail = "with %d buffered item(s), %s %s -> %d the function returns [%s]: the consumer's view then has %d item(s) but must have %d" % (
                            w.get("N", 0), a.param, ("%d" % w.get("O", 0)) if has_old else "unset", w.get(lsym, 0), ", ".join(seq), got, exp)
                        break
                    if verdict == "VIOLATED":
                        break
                if verdict == "VIOLATED":
                    break
            # R09.9 (decided here for group emissions): a path that answers Some(..) with only `x n` groups whose counts can all
            # be 0 at once answers Some(<empty list>)
            if ems and complete and all(not (isinstance(c_, Lin) and c_.is_const() and c_.c >= 1) for (_e, c_, _p, _v) in ems) and not any(_e in ("Clear", "Reset", "Append", "Truncate") for (_e, c_, _p, _v) in ems):
                for bs in alts:
                    cons0 = base + bs + extra
                    if feasible(cons0) is False:
                        continue
                    cases = [cons0]
                    ok_terms = True
                    for (_e, c_, _p, _v) in ems:
                        nxt = []
                        try:
                            for pc, val in pieces(c_):
                                if val is None:
                                    ok_terms = False
                                    continue
                                for cs in cases:
                                    nxt.append(cs + pc + [ZERO - val])
                        except Exception:
                            ok_terms = False
                        cases = nxt
                    if not ok_terms:
                        continue
                    for cs in cases:
                        if feasible(cs) is True:
                            w = witness(cs, {"N", "O", lsym, "HASOLD"})
                            if w is not None:
                                empties.append((path, "with %d buffered item(s), %s %s -> %d the function returns Some([%s]) with n = 0, an empty list" % (
                                    w.get("N", 0), a.param, ("%d" % w.get("O", 0)) if has_old else "unset", w.get(lsym, 0), ", ".join(seq)), ",".join(seq)))
                                break
                    if empties:
                        break
            guards = []
            for s_, t_ in zip(path, path[1:]):
                for fct in conds.edge_facts(b, s_, t_):
                    if fct[0] == "cmp":
                        try:
                            ta, tb = S.term(fct[2]), S.term(fct[3])
                            guards.append("%s%s%s" % (_tfmt(ta), {"Lt": "<", "Le": "<=", "Gt": ">", "Ge": ">=", "Eq": "==", "Ne": "!="}[fct[1]], _tfmt(tb)))
                        except Unknown:
                            pass
            if verdict == "HOLDS" and refills:
                info_ = {"S": S, "symbols": {"N", "O", lsym, "HASOLD"}, "alts": [bs + extra for bs in alts], "base": base, "complete": complete,
                         "refill": refills, "idx": [], "run": []}
                st_, det_ = check_prefixes(a, b, [("HOLDS", path, "", info_)], "refill")
                if st_ == "VIOLATED":
                    refill_viol.append((path, det_, ",".join(seq)))
                elif st_ == "UNDECIDED":
                    refill_und.append(det_)
                elif st_ == "HOLDS":
                    refill_ok[0] += 1
            direction = "first" if not has_old else "any"
            if has_old and verdict == "VIOLATED":
                cons_any = [c_ for bs in alts[:1] for c_ in bs]
                dec = all(feasible(base + bs + [sym(lsym) - O]) is False for bs in alts if feasible(base + bs) is not False)
                inc = all(feasible(base + bs + [O - sym(lsym)]) is False for bs in alts if feasible(base + bs) is not False)
                direction = "decrease" if dec else "increase" if inc else "any"
            results.append((verdict, path, detail, "%s|%s" % (direction, ",".join(seq))))
    where = f.loc()
    viol = [r for r in results if r[0] == "VIOLATED"]
    und = [r for r in results if r[0] == "UNDECIDED"]
    seen = set()
    for r in viol:
        key = "view-length:update|%s" % r[3]
        if key in seen:
            continue
        seen.add(key)
        ctx.violated(rule, f, key, b.line_at((r[1][-2] if len(r[1]) > 1 else r[1][-1], 0)),
                     "%s `%s`: %s - the rebuilt view cannot equal the %s of the source" % (
                         a.name, f.name, r[2], {"head": "first `limit` items", "tail": "last `limit` items", "skip": "items after the first `count`"}[a.name]))
    if und:
        ctx.undecided(rule, f, "view-length:update", where, "; ".join(sorted({r[2] for r in und}))[:300])
    elif not viol:
        ctx.holds(rule, f, "view-length:update", where, "%d path(s): view_old(N) + effects of the returned diffs = view_new(N) in every feasible case" % len(results))
    if empties:
        path, det_, seq_ = empties[0]
        ctx.violated("R09.9", f, "some-is-nonempty|%s" % seq_, b.line_at((path[-2] if len(path) > 1 else path[-1], 0)),
                     "%s `%s`: %s - the poll function turns that into Ready(None) through extend_*_buf, ending the adapter's stream while the source is alive" % (a.name, f.name, det_))
    if refill_viol:
        path, det_, seq_ = refill_viol[0]
        ctx.violated("R09.15", f, "refill-position:update|%s" % seq_, b.line_at((path[-2] if len(path) > 1 else path[-1], 0)), "%s `%s`: %s" % (a.name, f.name, det_))
    elif refill_und:
        ctx.undecided("R09.15", f, "refill-position:update", where, refill_und[0][:200])
    elif refill_ok[0]:
        ctx.holds("R09.15", f, "refill-position:update", where, "%d refilling path(s): the items come from the buffer positions adjacent to the old view" % refill_ok[0])
    return len(results)


def _tfmt(t):
    if isinstance(t, Lin):
        return str(t).replace(" ", "")
    if t[0] == "opaque":
        return "?"
    return "%s(%s,%s)" % (t[0], _tfmt(t[1]), _tfmt(t[2]))
