"""C09 — Head, Tail and Skip present exactly the first / last / remaining items (structural clauses)."""
import re
from ..facts import strip, ecall_matches, contains, find_all, fmt, mentions_field, has_arith, walk
from .. import conds
from .common import *
from .vecdiff import *
from .adapters import *
from . import wakers, c15

CRATES = (UT,)

META = {
    "explanation": (
        "Static decision on MIR of the structural clauses of C09, for Head, Tail and Skip: R09.1 Ready(None) is produced only on the None edge of the "
        "source stream's poll, and that edge leads to nothing else; R09.3 the per-diff closure applies every source diff to the replica on every path, "
        "before translating, and reads the previous length per diff inside the closure; R09.4 update_limit/update_count store the new parameter on every "
        "path (including the empty-buffer early exit); R09.5 no diff kind is dropped wholesale (every one of the 11 arms has an emitting path, no "
        "silent catch-all); R09.6 purely dynamic adapters start with limit 0 / count None and Skip does not translate while the count is None; R09.7 "
        "dependence signatures - every emitted index/length depends on the incoming payload and on the view start (Tail: previous length and limit; Skip: "
        "count), and every multiplicity of repeated shrink diffs depends on the source length by data or by dominating comparisons relating the length "
        "to each limit in the count; R09.8 a diff returned without passing through the ready buffer is produced only when that buffer is known empty "
        "(FIFO order); plus the waker typestate of the adapter's poll function (C14). Exact index arithmetic (off-by-one, saturating corner cases) is "
        "NOT decided: that needs execution or a solver (DESIGN section 6)."),
    "trusted_base": ["eyeball_im::VectorDiff::apply (C18)", "imbl::Vector", "rustc MIR construction"],
    "assumptions": [],
    "not_decided": "the identity of every single item of the rebuilt view (lengths, emitted indices and refill positions are decided for all integer values by R09.10 - R09.15; that the forwarded values themselves are the right ones follows from the replica being updated first, R09.3)",
}
META["technique"] = "static analysis: dominance / provenance / typestate rules over rustc MIR facts (rustc_private driver) + path-partitioned abstract interpretation in a linear-inequality domain (view-length balance; Fourier-Motzkin emptiness, no execution, no external solver)"
META["explanation"] += " R09.11 imbl's asserting partial calls (take / split_at / split_off / slice) in the Head, Tail, Skip modules take a position bounded by the vector's length, never one made of the limit / count alone (it panics for a limit beyond the length)."
META["explanation"] += " R09.12 view-length balance (engine/rules/balance.py): a path-partitioned abstract interpretation in the domain of linear inequalities over L/C (limit, count), P (previous length), I, K (payload index / length), A, R (payload sizes), N, O (buffer length, old limit in the update functions): on every path of every arm of the three translators and of update_limit / update_count the length of the consumer's view after the emitted diffs, view(P) + effects, equals view(N') for the new source length in every feasible case (min / saturating_sub split into linear pieces, emptiness by Fourier-Motzkin elimination, a violation only with a concrete witness of the symbols); R09.13 every emitted Insert / Set / Remove index lies inside the view it is applied to and its computation does not underflow; R09.14 every item the poll function returns comes out of the container operations (translator / update function), never the polled source item itself."
META["explanation"] += " R09.15 refill positions (balance.py): an item the adapter refills the view with (a looked-up `buffered_vector.get(i)`, an iterator group over the buffer, an appended slice of it) is taken from the buffer position adjacent to the view - index `cur` for a Head view (a prefix), `N' - cur - 1` (descending) for Tail and Skip views (suffixes) - in every feasible case, for translators and update functions: right count *and* right items."
META["explanation"] += ' R09.16 checked additions / multiplications whose operand is the raw limit / count value (which may be usize::MAX) are reported: the stream panics where the property demands a view.'
META["explanation"] += ' R09.9 decides the collect() idioms (a Peekable whose peek() is Some on every path; `repeat(x).take(a - b)` under a > b) and, in the balance analysis, reports a path that answers Some(..) with only `x n` groups whose counts can all be 0 (witness). R09.5 is UNDECIDED when the translator does not build its result by pushes; the balance analysis refuses (UNDECIDED) paths on which a diff is built but not pushed. An update function written as a free function over the projected fields is recognised; its own rules are then not evaluated (UNDECIDED), the rest of the adapter is.'
META["explanation"] += ' R09.17 no panic! / assert! of their own in the Head / Tail / Skip modules. Shared with C12: R12.1 / R12.2 (what into_parts hands to the next stage).'
META["explanation"] += ' R09.18 secondary input fused: an input of the poll function whose end does not end the adapter (limit / count stream) is not polled again after it answered Ready(None) - the field is a fused type, or every poll site is guarded by a termination memory (a bool field written true only under that None edge). On the unchanged tree this re-derives the known finding F12 for Head, Tail and Skip. The typestate (R14.1) treats an input whose termination memory is true as ended.'
META["explanation"] += ' Capture forwarding (facts normalisation): items looked up through a local closure are resolved to the buffer, so R09.15 / the balance analysis decide them.'


def run(ctx):
    F = ctx.facts
    ads = find_adapters(F)
    register_roles(ctx, ads)
    for name in ADAPTERS:
        a = ads[name]
        free_update = a.update is None and getattr(a, "update_alt", None) is not None
        for what, v in (("translator", a.translator), ("poll function", a.poll), ("update function", a.update), ("per-diff closure", a.closure)):
            if v is None and not (what == "update function" and free_update):
                ctx.missing("R09.0", "%s of %s" % (what, name))
        if free_update:
            ctx.undecided("R09.0", a.update_alt, "update-function-shape", a.update_alt.loc(),
                          "the %s update function is a free function over the projected fields: the rules about it (R09.4, R09.7, R09.9, update balance) are written for the method shape and are not evaluated" % name)
        if None in (a.translator, a.poll, a.closure) or (a.update is None and not free_update):
            continue
        r09_1(ctx, a)
        r09_3(ctx, a)
        if not free_update:
            r09_4(ctx, a)
        r09_5(ctx, a)
        if not free_update:
            r09_7(ctx, a)
        r09_8(ctx, a)
        if not free_update:
            r09_9(ctx, a)
        r09_14(ctx, a)
        r09_18(ctx, a)
        r09_10(ctx, a)
        from . import balance
        nb = balance.run_adapter(ctx, a, want=("balance", "index", "bound"))
        ctx.floor("R09.12", nb, 11)
        if not free_update:
            balance.run_update(ctx, a)
        sites = [(blk, t) for blk, t in a.poll.built.calls() if wakers.is_poll_call(t)] + [(blk, t) for blk, t, c in wakers.local_poll_helper_calls(F, a.poll)]
        wakers.check_poll_fn(ctx, "R14.1", a.poll, sites)
    r09_6(ctx, ads)
    r09_11(ctx)
    r09_17(ctx)
    # the view an adapter hands to an adapter stacked on it (VectorObserver::into_parts) is part of "presents exactly the .. items"
    from . import c12
    c12.parts_rules(ctx)
    r09_16(ctx)
    # applicability / order of what is emitted also rests on the buffer discipline and on room-before-entry
    from . import groups, c15 as _c15
    groups.util_buffers(ctx)
    for _n in ("head", "tail"):
        if ads[_n].translator is not None:
            _c15.r15_1(ctx, ads[_n])



def source_and_param_sites(a):
    b = a.poll.built
    src, par = [], []
    for blk, t in b.calls():
        if wakers.is_poll_call(t):
            n = wakers.input_name(b, t)
            (src if n in ("inner_stream", "inner") else par).append((blk, t, n))
    return src, par


def r09_1(ctx, a):
    f = a.poll
    b = f.built
    src, par = source_and_param_sites(a)
    slocs = {(blk, len(b.blocks[blk]["stmts"])) for blk, t, n in src}
    plocs = {(blk, len(b.blocks[blk]["stmts"])) for blk, t, n in par}
    found = 0
    for loc, s in b.iter_stmts():
        if s["k"] == "assign" and s["rv"]["k"] == "agg" and s["rv"].get("adt") == "std::option::Option" and s["rv"]["variant"] == "None":
            found += 1
            facts = conds.bare(conds.dominating_facts(b, loc[0]))
            by_src = any(x[0] == "variant" and x[2] == frozenset(["None"]) and strip(x[1], through_calls=False)[0] == "call" and strip(x[1], through_calls=False)[4] in slocs for x in facts)
            by_par = any(x[0] == "variant" and x[2] == frozenset(["None"]) and strip(x[1], through_calls=False)[0] == "call" and strip(x[1], through_calls=False)[4] in plocs for x in facts)
            where = b.line_at(loc)
            if by_src:
                ctx.holds("R09.1", f, "ends-with-source", where, "Ready(None) is under the None edge of the source stream's poll")
            elif by_par:
                ctx.violated("R09.1", f, "ends-with-source", where, "the %s adapter ends its stream when the %s stream ends: the view stops following the source" % (a.name, a.param))
            else:
                ctx.violated("R09.1", f, "ends-with-source", where, "the %s adapter returns end-of-stream on a path that is not the end of the source stream" % a.name)
    if not found:
        ctx.violated("R09.1", f, "ends-with-source", f.loc(), "the %s adapter never ends its stream" % a.name)


def r09_3(ctx, a):
    F = ctx.facts
    c = a.closure
    b = inl(F, c, a.translator)
    applies = [(blk, t) for blk, t in b.calls(r"VectorDiff::<.*>::apply$") if mentions_field(b.expr_of_op(t["args"][1]), "buffered_vector") or True]
    tcalls = [(blk, t) for blk, t in b.calls() if F.local_callee(c, t) is a.translator]
    if not tcalls:
        # translator called from a nested closure: use the block where that closure is created
        for nc in F.children.get(c.key, []):
            if nc.built and any(F.local_callee(nc, t) is a.translator for _, t in nc.built.calls()):
                for loc, s_ in b.iter_stmts():
                    if s_["k"] == "assign" and s_["rv"]["k"] == "agg" and s_["rv"].get("def") == nc.path:
                        tcalls.append((loc[0], None))
    ctx.call_sites += len(applies) + len(tcalls)
    if not applies:
        ctx.violated("R09.3", c, "replica-always-updated", c.loc(), "the per-diff closure of %s never applies the source diff to the replica" % a.name)
        return
    ablks = [blk for blk, _ in applies]
    pd = b.post_dominated_by(0, ablks)
    dom = all(any(b.dominates(ab, tb) for ab in ablks) for tb, _ in tcalls)
    # the applied diff is (a clone of) the closure's argument
    arg_ok = all(contains(b.expr_of_op(t["args"][0]), lambda x: x[0] == "param" and x[1] == 2) for _, t in applies)
    where = b.line_at((ablks[0], 10 ** 6))
    if not pd:
        ctx.violated("R09.3", c, "replica-always-updated", where,
                     "the source diff is applied to the replica only on some paths of the per-diff closure (e.g. only once a %s is known): the replica falls behind the source and later diffs are translated against a wrong buffer" % a.param)
    elif not dom:
        ctx.violated("R09.3", c, "replica-always-updated", where, "the translator is called on a path that has not yet applied the diff to the replica")
    elif not arg_ok:
        ctx.violated("R09.3", c, "replica-always-updated", where, "the diff applied to the replica is not the incoming diff")
    else:
        ctx.holds("R09.3", c, "replica-always-updated", where, "diff.clone().apply(buffered_vector) (bb%s) post-dominates entry and dominates the translator call" % ablks)
    c15.per_diff_length(ctx, "R09.3b", a)


def r09_4(ctx, a):
    f = a.update
    b = f.built
    field = a.param
    stores = []
    for blk, t in b.calls(r"^std::mem::replace$|Option::<.*>::replace$|Option::<.*>::insert$"):
        if mentions_field(b.expr_of_op(t["args"][0]), field) and contains(b.expr_of_op(t["args"][1]), lambda x: x[0] == "param" and x[1] == 2):
            stores.append(blk)
    for loc, s in assigns_to_field(b, field):
        if contains(b.expr_of_rv(s["rv"], 8, ()), lambda x: x[0] == "param" and x[1] == 2):
            stores.append(loc[0])
    # an assignment through the projected reference: (*(*self).limit) = new
    for loc, s in b.iter_stmts():
        if s["k"] == "assign" and field in place_fields(s["place"]) and contains(b.expr_of_rv(s["rv"], 8, ()), lambda x: x[0] == "param" and x[1] == 2):
            stores.append(loc[0])
    if not stores:
        ctx.violated("R09.4", f, "parameter-stored", f.loc(), "`%s` never stores the new %s" % (f.path, field))
        return
    ok = b.post_dominated_by(0, stores) and all(b.must_pass(0, rb, stores) for rb in b.return_blocks())
    ctx.verdict(ok, "R09.4", f, "parameter-stored", b.line_at((stores[0], 10 ** 6)), "the new %s is stored (bb%s) on every path to return" % (field, sorted(set(stores))),
                "`%s` can return without storing the new %s (e.g. the early exit for an empty buffer): later source diffs are translated with the old %s" % (f.path, field, field))


def r09_5(ctx, a):
    f = a.translator
    b = f.built
    sw, info, arms = arms_of(b)
    ev = {blk for blk, kind, vs, e, cnt in emits(b)}
    multi = arm_targets(info)[1]
    n = 0
    if not ev:
        # the translator does not build its result by pushing onto a buffer (e.g. one Option<VectorDiff> per arm, collected at the
        # end): "which arm emits" is read off the pushes, so it is not decided for this shape
        ctx.undecided("R09.5", f, "arm=*", f.loc(), "the %s translator's result is not built by pushes: emitting arms not determined" % a.name)
        return
    for v in VARIANTS:
        if v in arms:
            region = arm_region(b, sw, arms[v])
            n += 1
            ok = bool(region & ev)
            ctx.verdict(ok, "R09.5", f, "arm=%s" % v, b.line_at((arms[v], 0)), "arm %s has an emitting path" % v,
                        "the %s translator never emits anything for `%s` diffs: that kind of change never reaches the view" % (a.name, v))
        else:
            share = [t for t, vs in multi if v in vs]
            if share:
                region = arm_region(b, sw, share[0])
                if region & ev:
                    ctx.undecided("R09.5", f, "arm=%s" % v, b.line_at((share[0], 0)), "%s is handled by a catch-all arm that emits" % v)
                else:
                    ctx.violated("R09.5", f, "arm=%s" % v, b.line_at((share[0], 0)), "`%s` diffs fall into a catch-all arm of the %s translator that emits nothing" % (v, a.name))
            else:
                ctx.violated("R09.5", f, "arm=%s" % v, f.loc(), "no arm for %s" % v)
    ctx.floor("R09.5", n, 11)


def r09_6(ctx, ads):
    F = ctx.facts
    for name in ADAPTERS:
        fs = [f for f in F.find(crate=UT, name="dynamic") if f.path.startswith("vector::%s::" % name)]
        if not fs:
            ctx.missing("R09.6", "vector::%s::..::dynamic" % name)
            continue
        f = fs[0]
        b = f.built
        field = "count" if name == "skip" else "limit"
        for loc, s in b.iter_stmts():
            if s["k"] == "assign" and s["rv"]["k"] == "agg" and s["rv"].get("adt", "").startswith("vector::%s::" % name) and field in s["rv"]["fields"]:
                e = strip(b.expr_of_op(s["rv"]["ops"][s["rv"]["fields"].index(field)]), through_calls=False)
                if name == "skip":
                    ok = e[0] == "agg" and e[3] == "None"
                    ctx.verdict(ok, "R09.6", f, "dynamic-initial-parameter", b.line_at(loc), "Skip::dynamic starts with count = None",
                                "Skip::dynamic starts with count = `%s`: before the first count arrives the view is not empty" % fmt(e, 3))
                else:
                    ok = e[0] == "const" and e[3] == 0
                    ctx.verdict(ok, "R09.6", f, "dynamic-initial-parameter", b.line_at(loc), "%s::dynamic starts with limit = 0" % name.capitalize(),
                                "%s::dynamic starts with limit = `%s`: before the first limit arrives the view is not empty" % (name.capitalize(), fmt(e, 3)))
    # Skip: no translation while count is None
    a = ads["skip"]
    if a.closure is not None and a.translator is not None:
        b = inl(F, a.closure, a.translator)
        for blk, t in b.calls():
            if F.local_callee(a.closure, t) is a.translator:
                facts = conds.bare(conds.dominating_facts(b, blk))
                ok = any(x[0] == "variant" and x[2] == frozenset(["Some"]) and mentions_field(x[1], "count") for x in facts)
                ctx.verdict(ok, "R09.6", a.closure, "skip-untranslated-until-count", b.line_at((blk, 10 ** 6)), "Skip translates only on the Some edge of count",
                            "Skip translates source diffs while its count is still unknown")


def payload_dep(e):
    return contains(e, lambda x: x[0] == "field" and x[2] in ("index", "length") and x[1][0] == "downcast")


def r09_7(ctx, a):
    f = a.translator
    b = f.built
    LIMIT, PREV = 2, 3
    dep_lim = lambda e: contains(e, lambda x: x[0] == "param" and x[1] == LIMIT)
    dep_prev = lambda e: contains(e, lambda x: x[0] == "param" and x[1] == PREV)
    n = 0
    for blk, kind, vs, e, cnt in emits(b):
        for agg in find_all(e, lambda y: y[0] == "agg" and y[1] == "adt" and isinstance(y[2], str) and y[2].endswith("::VectorDiff")):
            for name, op in zip(agg[4], agg[5]):
                if name not in ("index", "length"):
                    continue
                n += 1
                where = b.line_at((blk, 10 ** 6))
                need = ["incoming payload"]
                ok = payload_dep(op)
                if a.name == "tail":
                    need += ["previous length", "limit"]
                    ok = ok and dep_lim(op) and dep_prev(op)
                if a.name == "skip":
                    need += ["count"]
                    ok = ok and dep_lim(op)
                closed = not contains(op, lambda x: x[0] in ("unknown", "local", "cycle", "undef"))
                if ok:
                    ctx.holds("R09.7", f, "%s.%s" % (agg[3], name), where, "emitted %s.%s = %s depends on %s" % (agg[3], name, fmt(op, 4), ", ".join(need)))
                elif closed:
                    ctx.violated("R09.7", f, "%s.%s" % (agg[3], name), where,
                                 "the %s translator emits `%s { %s: %s }`, which does not depend on %s: a view index is the source index minus the view's start, so this cannot be right for all %ss" % (
                                     a.name, agg[3], name, fmt(op, 4), " and ".join(need), a.param))
                else:
                    ctx.undecided("R09.7", f, "%s.%s" % (agg[3], name), where, "slice not closed: %s" % fmt(op, 4))
    # multiplicities of repeated shrink diffs: translator and update function
    for fn in (a.translator, a.update):
        fb = fn.built
        for blk, kind, vs, e, cnt in emits(fb) + collect_emits(fb):
            if cnt is None or not (set(vs) & SHRINK):
                continue
            n += 1
            where = fb.line_at((blk, 10 ** 6))
            is_len = lambda x: (x[0] == "call" and ecall_matches(x, r"::len$")) or (fn is a.translator and x[0] == "param" and x[1] == PREV)
            if contains(cnt, is_len):
                ctx.holds("R09.7", fn, "multiplicity:%s" % "/".join(sorted(set(vs))), where, "count `%s` depends on the source length by data" % fmt(cnt, 4))
                continue
            atoms = []

            def g(x):
                if x[0] == "param" or (x[0] == "call" and ecall_matches(x, r"^std::mem::replace$|Option::<.*>::replace$")) or (x[0] == "field" and x[2] in ("limit", "count")):
                    atoms.append(x)
                    return True
                return False
            walk(cnt, g)
            facts = conds.dominating_facts(fb, blk)
            unrelated = []
            for at in atoms:
                same = lambda y, at=at: strip(y) == strip(at) or contains(y, lambda z: z == at)
                rel = False
                for op_ in ("Lt", "Le", "Gt", "Ge", "Eq"):
                    if conds.cmp_holds(facts, op_, lambda y: contains(y, lambda z: z[0] == "call" and ecall_matches(z, r"::len$")), same):
                        rel = True
                if not rel:
                    unrelated.append(at)
            if not atoms:
                ctx.undecided("R09.7", fn, "multiplicity:%s" % "/".join(sorted(set(vs))), where, "count expression not recognised: %s" % fmt(cnt, 4))
            elif unrelated:
                guards = sorted({"len%s%s" % ({"Lt": "<", "Le": "<=", "Gt": ">", "Ge": ">=", "Eq": "=="}[o], fmt(other, 2)) for o, other in len_guards(facts)})
                ctx.violated("R09.7", fn, "multiplicity:%s|%s" % ("/".join(sorted(set(vs))), ",".join(guards)), where,
                             "`%s` emits %s x `%s` where the count neither depends on the buffer length nor is `%s` compared with the length on this path: the view holds min(%s, len) items, so for a %s larger than the length too many diffs are emitted" % (
                                 fn.path, "/".join(sorted(set(vs))), fmt(cnt, 4), fmt(unrelated[0], 3), a.param, a.param))
            else:
                ctx.holds("R09.7", fn, "multiplicity:%s" % "/".join(sorted(set(vs))), where, "every limit in `%s` is compared with the length on this path" % fmt(cnt, 4))
    # no floor on the number of *sites* (helpers, `vec![d; n]`, loops change it); emitted indices and multiplicities are decided
    # exactly by R09.10 / R09.12 / R09.13, whose floors count arms
    ctx.floor("R09.7", n, 1)


def collect_emits(body):
    """`repeat(diff).take(n).collect()` groups (update functions build a Vec this way)."""
    out = []
    for blk, t in body.calls(r"Iterator>?::collect(::<.*>)?$"):
        e = body.expr_of_op(t["args"][0])
        vs = diff_variants_in(e)
        takes = find_all(e, lambda y: y[0] == "call" and ecall_matches(y, r"Iterator>?::take$"))
        reps = find_all(e, lambda y: y[0] == "call" and ecall_matches(y, r"^std::iter::repeat$"))
        if vs and takes and reps:
            out.append((blk, "collect", vs, e, takes[0][3][1]))
    return out


def r09_8(ctx, a):
    """a diff returned without passing through the ready buffer only when the buffer is known empty."""
    F = ctx.facts
    f = a.poll
    b = f.built
    pops = [(blk, t) for blk, t in b.calls(r"::pop_from_\w+_buf$")]
    if not pops:
        ctx.undecided("R09.8", f, "fifo", f.loc(), "no pop_from_*_buf call")
        return
    plocs = {(blk, len(b.blocks[blk]["stmts"])) for blk, _ in pops}
    upd = a.update or getattr(a, "update_alt", None)
    producers = [(blk, t) for blk, t in b.calls() if (upd is not None and F.local_callee(f, t) is upd) or re.search(r"::(push_into|extend)_\w+_buf", t.get("callee") or "")]
    for blk, t in producers:
        facts = conds.bare(conds.dominating_facts(b, blk))
        empty = any(x[0] == "variant" and x[2] == frozenset(["None"]) and strip(x[1], through_calls=False)[0] == "call" and strip(x[1], through_calls=False)[4] in plocs for x in facts)
        name = (t.get("callee") or "").split("::")[-1]
        ctx.verdict(empty, "R09.8", f, "produce-only-when-buffer-empty:%s" % name, b.line_at((blk, 10 ** 6)),
                    "`%s` is reached only on the None edge of pop_from_*_buf (ready buffer empty)" % name,
                    "`%s` produces new diffs while a previously translated diff may still be parked in the ready buffer: the new diff overtakes it and the consumer replays them out of order" % name)


def len_guards(facts):
    """(op, other) for dominating comparisons `len(..) op other` (normalised so that the length is on the left)."""
    out = []
    for f in conds.bare(facts):
        if f[0] != "cmp":
            continue
        _, o, a_, b_ = f
        la = contains(a_, lambda z: z[0] == "call" and ecall_matches(z, r"::len$"))
        lb = contains(b_, lambda z: z[0] == "call" and ecall_matches(z, r"::len$"))
        if la and not lb:
            out.append((o, b_))
        elif lb and not la:
            out.append((conds.SWAP[o], a_))
    return out


def r09_9(ctx, a):
    """an update function that answers Some(diffs) never answers an empty list: the poll function forwards it through
    extend_*_buf, which yields None for an empty list, and the adapter would report end-of-stream while the source is alive."""
    f = a.update
    b = f.built
    if "Vec<" not in b.locals[0]["ty"]:
        return
    n = 0
    for loc, kind, payload in blocks_assigning_ret(b):
        if loc[0] not in b.reachable() or kind != "assign" or payload["k"] != "agg" or payload.get("variant") != "Some":
            continue
        n += 1
        op = payload["ops"][0]
        e = strip(b.expr_of_op(op), through_calls=False)
        where = b.line_at(loc)
        if e[0] == "call" and isinstance(e[1], str) and re.search(r"into_vec$|from_elem$|box_assume_init_into_vec_unsafe$", e[1]):
            ctx.holds("R09.9", f, "some-is-nonempty", where, "Some(vec![..]) literal")
        elif e[0] == "call" and ecall_matches(e, r"^std::vec::Vec::<.*>::(new|with_capacity)$|Default>?::default$"):
            # pushes into that local
            root = op["place"]["l"] if op["k"] in ("move", "copy") else None
            aliases = {root}
            whole, _ = b.defs
            for l, ds in whole.items():
                for dl, k2, p2 in ds:
                    if k2 == "assign" and p2["k"] == "use" and p2["op"]["k"] in ("move", "copy") and not p2["op"]["place"]["proj"] and l == root:
                        aliases.add(p2["op"]["place"]["l"])
            pushes = []
            for blk, t in b.calls(r"^std::vec::Vec::<.*>::(push|extend|append|insert|extend_from_slice)$"):
                r0 = b.expr_of_op(t["args"][0])
                if t["args"][0]["k"] in ("move", "copy"):
                    # &mut <local>
                    for sl, st in b.iter_stmts():
                        if st["k"] == "assign" and st["place"]["l"] == t["args"][0]["place"]["l"] and st["rv"]["k"] == "ref" and st["rv"]["place"]["l"] in aliases:
                            pushes.append(blk)
            dom = [p for p in pushes if b.dominates(p, loc[0])]
            if dom:
                ctx.holds("R09.9", f, "some-is-nonempty", where, "a push (bb%s) dominates the Some(..) return" % dom)
            else:
                ctx.violated("R09.9", f, "some-is-nonempty", where,
                             "`%s` can return Some(<empty list>) (the list starts empty and no push dominates the return): the poll function turns that into Ready(None) through extend_*_buf, ending the adapter's stream while the source is alive" % f.path)
        elif e[0] == "call" and ecall_matches(e, r"Iterator>?::collect$|FromIterator.*::from_iter$") and _collect_nonempty(b, e, loc):
            ctx.holds("R09.9", f, "some-is-nonempty", where, "collect() of an iterator that is known to be non-empty here (%s)" % _collect_nonempty(b, e, loc))
        else:
            ctx.undecided("R09.9", f, "some-is-nonempty", where, "non-emptiness of `%s` not decided" % fmt(e, 3))
    return n


_LEN_PRESERVING = r"Iterator>?::(map|rev|cloned|copied|enumerate|inspect|by_ref)$|IntoIterator>?::into_iter$"


def _collect_nonempty(b, e, loc):
    """why the iterator a `collect()` drains has at least one item at this point, or None. Two idioms: (a) it is (a length-preserving
    adaptation of) a Peekable whose `peek()` is known to be Some on every path to here; (b) `repeat(x).take(a - b)` under a > b."""
    x = e[3][0] if e[3] else None
    facts = conds.bare(conds.dominating_facts(b, loc[0]))
    while x is not None and x[0] == "call" and isinstance(x[1], str) and re.search(_LEN_PRESERVING, x[1]) and x[3]:
        x = x[3][0]
        while x is not None and x[0] in ("ref", "deref"):
            x = x[1]
    if x is None:
        return None
    if x[0] == "call" and ecall_matches(x, r"Iterator>?::peekable$"):
        for ft in facts:
            if ft[0] == "variant" and ft[2] == frozenset(["Some"]) and ft[1][0] == "call" and ecall_matches(ft[1], r"Peekable::<.*>::peek$") and contains(ft[1], lambda y: y == x):
                return "its peek() is Some"
    if x[0] == "call" and ecall_matches(x, r"Iterator>?::take$") and len(x[3]) == 2:
        src, cnt = x[3]
        if src[0] == "call" and ecall_matches(src, r"^std::iter::repeat(_n|_with)?$"):
            c = strip(cnt, through_calls=False)
            while c[0] == "field" and c[2] == "0":
                c = c[1]
            if c[0] == "bin" and c[1].startswith("Sub"):
                l_, r_ = c[2], c[3]
                for ft in facts:
                    if ft[0] == "cmp" and ((ft[1] == "Gt" and ft[2] == l_ and ft[3] == r_) or (ft[1] == "Lt" and ft[2] == r_ and ft[3] == l_)):
                        return "repeat(..).take(a - b) under a > b"
    return None


def r09_10(ctx, a):
    """linear-form index check. The view index of source index I is I - start, with start = 0 for Head, = count for Skip
    (on every path), and = 0 for Tail on every path that has established prev_len < limit (view not full, before and after
    a single insertion because prev_len + 1 <= limit). The emitted index expression is normalised to a linear form under the
    path assumptions and compared with that function."""
    from .linear import Lin, sym, Normaliser, provable_nonneg
    f = a.translator
    b = f.built
    LIMIT, PREV = 2, 3
    sw, info, arms = arms_of(b)
    emit_blocks = {}
    for blk, kind, vs, e, cnt in emits(b):
        if kind == "push":
            emit_blocks[blk] = e

    def symbols(e):
        x = e
        while x[0] in ("ref", "deref", "cast"):
            x = x[1]
        if x[0] == "param" and x[1] == LIMIT:
            return "C" if a.name == "skip" else "L"
        if x[0] == "param" and x[1] == PREV:
            return "P"
        if x[0] == "field" and x[2] in ("index", "length") and x[1][0] == "downcast":
            return "I"
        return None
    I, P, L, C = sym("I"), sym("P"), sym("L"), sym("C")
    base = [I, P]
    n = 0
    for v in ("Insert", "Set", "Remove") + (("Truncate",) if a.name != "tail" else ()):
        if v not in arms:
            continue
        start = arms[v]
        bound = [P - I] if v in ("Insert", "Truncate") else [P - I - Lin(const=1)]

        def is_prev(e):
            x = strip(e)
            return x[0] == "param" and x[1] == PREV

        def is_lim(e):
            x = strip(e)
            return x[0] == "param" and x[1] == LIMIT
        results = []

        def transfer(blk, st):
            if blk in emit_blocks:
                results.append((blk, st))
            return [st]

        def edge(bk, nx, st):
            fs = conds.edge_facts(b, bk, nx)
            if fs and a.name == "tail" and conds.cmp_holds(fs, "Lt", is_prev, is_lim):
                return 1
            if fs and a.name == "tail" and conds.cmp_holds(fs, "Ge", is_prev, is_lim):
                return 2
            return st
        forward_states(b, 0, transfer, start=start, edge_filter=edge)
        seen = set()
        for blk, pstate in results:
            if (blk, pstate) in seen:
                continue
            seen.add((blk, pstate))
            e = emit_blocks[blk]
            # the cases to examine: Head/Skip one case; Tail: view not full / full (both when the path does not say)
            if a.name == "tail":
                cases = {0: ["not-full", "full"], 1: ["not-full"], 2: ["full"]}[pstate]
            else:
                cases = ["always"]
            for agg in find_all(e, lambda y: y[0] == "agg" and y[1] == "adt" and isinstance(y[2], str) and y[2].endswith("::VectorDiff")):
                for name, op in zip(agg[4], agg[5]):
                    if name not in ("index", "length") or agg[3] != v:
                        continue
                    for case in cases:
                        n += 1
                        one = Lin(const=1)
                        if a.name == "tail" and case == "not-full":
                            assume = base + bound + [L - P - one, L - one]
                            target = I
                            cond = "while prev_len < limit (the tail view is the whole vector, also after one insertion)"
                        elif a.name == "tail":
                            assume = base + bound + [P - L, L - one]
                            target = (I - P - one + L) if v == "Insert" else (I - P + L)
                            cond = "while prev_len >= limit (the tail view starts at %s)" % ("prev_len + 1 - limit after the insertion" if v == "Insert" else "prev_len - limit")
                        elif a.name == "head":
                            assume = base + bound + [L - one]
                            target = I
                            cond = "always (the head view starts at 0)"
                        else:
                            assume = base + bound + [C]
                            target = I - C
                            cond = "always (the skip view starts at `count`)"
                        nz = Normaliser(b, symbols, assume)
                        r = nz.nf(op)
                        where = b.line_at((blk, 10 ** 6))
                        key = "%s.%s%s" % (agg[3], name, "|" + case if a.name == "tail" else "")
                        sat = nz.as_sat(r)
                        if not r.opaque():
                            d = r - target
                            if d.is_const() and d.c == 0:
                                ctx.holds("R09.10", f, key, where, "emitted %s = %s = %s, %s" % (name, fmt(op, 4), r, cond))
                            elif d.is_const():
                                ctx.violated("R09.10", f, key, where,
                                             "%s translator, arm %s: %s the view %s of source %s I is `%s`, but the emitted expression `%s` normalises to `%s` (off by %d)" % (
                                                 a.name, v, cond, name, name, target, fmt(op, 4), r, d.c))
                            else:
                                ctx.undecided("R09.10", f, key, where, "normal form `%s` differs from `%s` symbolically" % (r, target))
                        elif sat is not None:
                            d = sat - target
                            if d.is_const() and d.c < 0 and not provable_nonneg(-I, assume):
                                ctx.violated("R09.10", f, key, where,
                                             "%s translator, arm %s: %s the view %s must be `%s`, but the emitted expression `%s` normalises to `max(%s, 0)`, which is %d too small whenever I >= %d (nothing on this path forces I = 0)" % (
                                                 a.name, v, cond, name, target, fmt(op, 4), sat, -d.c, -d.c))
                            elif d.is_const() and d.c == 0:
                                ctx.holds("R09.10", f, key, where, "emitted %s = max(%s, 0) with %s >= 0" % (name, sat, sat))
                            else:
                                ctx.undecided("R09.10", f, key, where, "saturating form max(%s, 0) not comparable with %s" % (sat, target))
                        else:
                            ctx.undecided("R09.10", f, key, where, "expression not linear: %s (%s)" % (fmt(op, 4), "; ".join(nz.notes[:2])))
    return n


PARTIAL = r"imbl::GenericVector::<.*>::(take|split_at|split_off|slice)$"


def r09_11(ctx):
    """imbl's `take(n)`, `split_at(n)`, `split_off(n)`, `slice(range)` panic for n > len (they assert it; `truncate`, `skip` do
    not). The limit / count is any number from 0 to beyond the vector length, so such a call in the Head / Tail / Skip
    modules whose position argument is made of the limit / count alone - not bounded by the vector's length through
    min / saturating_sub / a dominating comparison - panics for a limit larger than the length."""
    F = ctx.facts
    n = 0
    for f in F.find(crate=UT):
        if not re.match(r"(<.*)?vector::(head|tail|skip)::", f.path) and not re.search(r"vector::(head|tail|skip)::", f.raw.get("self_ty") or "") \
                and not re.search(r"vector::(head|tail|skip)::", f.path):
            continue
        b = f.built
        if not b:
            continue
        for blk, t in b.calls(PARTIAL):
            if len(t["args"]) < 2:
                continue
            n += 1
            e = b.expr_of_op(t["args"][1])
            where = b.line_at((blk, 10 ** 6))
            is_len = lambda x: x[0] == "call" and ecall_matches(x, r"::len$")
            limity = lambda x: (x[0] == "field" and x[2] in ("limit", "count")) or (x[0] == "param" and re.search(r"limit|count", str(x[2] or "")))
            bounded = contains(e, is_len)
            facts = conds.dominating_facts(b, blk)
            compared = any(conds.cmp_holds(facts, op_, lambda y: contains(y, is_len), lambda y: contains(y, limity) or y == strip(e)) for op_ in ("Lt", "Le", "Gt", "Ge", "Eq"))
            closed = not contains(e, lambda x: x[0] in ("unknown", "local", "cycle", "undef")) and not contains(e, lambda x: x[0] == "call" and not is_len(x) and not ecall_matches(x, r"Clone>?::clone$|Deref>?::deref$|::(min|max|saturating_sub)$"))
            m = (t.get("callee") or "").split("::")[-1]
            if bounded or compared:
                ctx.holds("R09.11", f, "partial-call-bounded:%s" % m, where, "`%s(%s)`: the position is bounded by the vector's length" % (m, fmt(e, 3)))
            elif contains(e, limity) and closed:
                ctx.violated("R09.11", f, "partial-call-bounded:%s" % m, where,
                             "`%s` calls imbl's `%s(%s)`, which asserts its position <= len, with a position made of the %s alone: it panics whenever the limit / count is larger than the number of buffered items (limits beyond the length are explicitly allowed)" % (
                                 f.path, m, fmt(e, 3), "limit / count"))
            else:
                ctx.undecided("R09.11", f, "partial-call-bounded:%s" % m, where, "position `%s` not recognised" % fmt(e, 4))
    if not n:
        ctx.holds("R09.11", None, "partial-calls=0", None, "no take / split_at / split_off / slice call in the Head, Tail, Skip modules (positive example: seeded change C12a-w3)")


def r09_14(ctx, a):
    """nothing from the source reaches the consumer untranslated: an item the poll function returns is produced by the
    adapter's container operations (push_into_* / pop_from_* / extend_*, i.e. by the translator or the update function), never
    the polled source item itself. A "nothing is hidden, forward as is" shortcut bypasses the per-diff translation - for a
    batch only its end state is then known to fit the limit - and the room-before-entry discipline with it."""
    F = ctx.facts
    f = a.poll
    b = inl(F, f, a.translator, a.update) or f.built
    n = 0
    for loc, kind, payload in blocks_assigning_ret(b):
        if loc[0] not in b.reachable():
            continue
        e = b.expr_of_rv(payload, 14, (), loc) if kind == "assign" else b.expr_of_call(payload, 14, (), loc)
        somes = find_all(e, lambda y: y[0] == "agg" and y[1] == "adt" and y[2] == "std::option::Option" and y[3] == "Some")
        for sm in somes:
            n += 1
            x = sm[5][0]
            via_ops = contains(x, lambda y: y[0] == "call" and isinstance(y[1], str) and re.search(r"::(push_into_\w+_buf|pop_from_\w+_buf|extend_\w+_buf|from_item)$", y[1])) \
                or contains(x, lambda y: y[0] == "call" and F.fns.get(UT + "::" + str(y[2] or y[1])) in (a.update, a.translator))
            from_src = contains(x, lambda y: y[0] == "call" and isinstance(y[1], str) and re.search(wakers.POLL_PAT, y[1]))
            where = b.line_at(loc)
            if via_ops:
                ctx.holds("R09.14", f, "items-come-from-the-translator", where, "the returned item is produced by the container operations")
            elif from_src and not contains(x, lambda y: y[0] in ("unknown", "local", "cycle", "undef")):
                ctx.violated("R09.14", f, "items-come-from-the-translator", where,
                             "`%s` returns the item polled from the source stream as it is (`%s`), without passing it through the translator: the consumer receives source diffs that were not limited / re-indexed one by one" % (f.path, fmt(x, 4)))
            else:
                ctx.undecided("R09.14", f, "items-come-from-the-translator", where, "provenance of the returned item not recognised: %s" % fmt(x, 4))
    return n


def r09_16(ctx):
    """the limit / count may be any usize - `usize::MAX` is the natural "show everything" value - so no checked addition or
    multiplication in the Head / Tail / Skip modules has the limit / count (or a value computed from it) as an operand: it
    overflows (a panic in debug builds, a wrapped comparison in release builds) for a large limit. Lengths and indices are
    bounded by the vector's length, their sums are fine. Expected count 0."""
    F = ctx.facts
    n = 0
    bad = 0
    limity = lambda x: (x[0] == "field" and x[2] in ("limit", "count")) or (x[0] == "param" and re.search(r"limit|count", str(x[2] or "")))
    for f in F.find(crate=UT):
        if not re.search(r"vector::(head|tail|skip)::", f.path) or not f.built:
            continue
        b = f.built
        for loc, s_ in b.iter_stmts():
            if s_["k"] == "assign" and s_["rv"]["k"] == "bin" and re.match(r"(Add|Mul)", s_["rv"]["op"]):
                n += 1
                l_, r_ = b.expr_of_op(s_["rv"]["l"]), b.expr_of_op(s_["rv"]["r"])
                # a limit that went through min(.., len) / a comparison-bounded path is fine; a raw limit operand is not
                raw = [e for e in (l_, r_) if contains(e, limity) and not contains(e, lambda y: y[0] == "call" and ecall_matches(y, r"::(min|len)$"))]
                if raw:
                    bad += 1
                    ctx.violated("R09.16", root_fn(F, f), "no-overflowing-arithmetic-on-the-limit", b.line_at(loc),
                                 "`%s` computes `%s` with the %s as an operand of a checked `%s`: for a limit near usize::MAX (limits beyond the length are allowed, usize::MAX is the usual \"no limit\") it overflows - a panic in debug builds, a wrong comparison in release builds" % (
                                     f.path, fmt(b.expr_of_rv(s_["rv"], 6, ()), 4), "count" if "skip" in f.path else "limit", s_["rv"]["op"].replace("WithOverflow", "")))
    if not bad:
        ctx.holds("R09.16", None, "no-overflowing-arithmetic-on-the-limit", None, "%d checked additions / multiplications in the Head, Tail, Skip modules, none with the limit / count as an operand" % n)



def r09_17(ctx):
    """Head, Tail and Skip contain no `panic!` / `assert!` of their own: every source diff that the ObservableVector can produce
    (an Insert at the very end, a Set of the last item ..) must come out as a view, not as a panic of the adapter. Expected count 0."""
    F = ctx.facts
    n = 0
    for f in F.find(crate=UT):
        b = f.built
        if not b or not re.search(r"vector::(head|tail|skip)::", f.path):
            continue
        for blk, t in b.calls(r"^core::panicking::(panic|panic_fmt|panic_display|assert_failed|panic_explicit|unreachable_display)$|^std::rt::(begin_panic|panic_fmt)$"):
            sp = t.get("span") or {}
            n += 1
            root = root_fn(F, f)
            # decided only when the panic is guarded by a test of the incoming diff's payload (an index / length check of the adapter's
            # own); an `unreachable!()` in an arm the author believes impossible is not decided here
            facts = conds.bare(conds.dominating_facts(b, blk))
            on_payload = any(x[0] in ("cmp", "truth") and any(isinstance(y, tuple) and contains(y, lambda z: z[0] == "downcast" or (z[0] == "field" and z[2] in ("index", "length", "values", "value"))) for y in x[1:]) for x in facts)
            if not on_payload:
                ctx.undecided("R09.17", root, "no-own-panic", b.line_at((blk, 10 ** 6)), "a panic site that is not guarded by a test of the diff's payload")
                continue
            ctx.violated("R09.17", root, "no-own-panic", b.line_at((blk, 10 ** 6)),
                         "`%s` contains a panic / assertion of its own: a source diff that trips it (e.g. an Insert at the very end of the vector, index == length) makes the adapter's stream panic where the property demands the corresponding view" % root.path)
    if not n:
        ctx.holds("R09.17", None, "no-own-panic", None, "no panic!/assert! in the Head / Tail / Skip modules")



def r09_18(ctx, a):
    """the limit / count stream may end (a finite sequence of limits) while the source lives on: the adapter then keeps presenting
    the window with the last value. It must not poll that stream again after it answered Ready(None) - the Stream contract allows a
    finished stream to panic or block when polled again (futures' `unfold`, async generators ..). Since poll_next is re-entered for
    every source change, the adapter has to remember the termination: the poll site is guarded by a test of a field of the adapter
    (written on the None edge), or the field's type is a fused stream."""
    F = ctx.facts
    f = a.poll
    b = f.built
    n = 0
    for blk, t in b.calls():
        if not wakers.is_poll_call(t) or not t["args"]:
            continue
        name = wakers.input_name(b, t)
        if name in ("inner_stream", "?", "<waker list>") or name.startswith("helper:"):
            continue
        n += 1
        ty = ""
        adt = F.adt(UT, (root_fn(F, f).raw.get("self_ty") or "").split("<")[0].replace("Proj", ""))
        if adt:
            for fd in adt["variants"][0]["fields"]:
                if fd["name"] == name:
                    ty = fd["ty"]
        fused = bool(re.search(r"(^|::)Fuse<", ty))
        facts = conds.bare(conds.dominating_facts(b, blk))
        guarded = any(x[0] in ("truth", "cmp", "variant") and any(isinstance(y, tuple) and contains(y, lambda z: z[0] == "field" and z[2] not in (name, "inner_stream", "ready_values", "buffered_vector")) for y in x[1:]) for x in facts)
        # the memory must be written on the None edge of this very poll
        none_written = False
        info = None
        sw = t.get("target")
        for _ in range(4):
            if sw is None:
                break
            info = conds.switch_info(b, sw)
            if info:
                break
            sw = b.succ[sw][0] if len(b.succ[sw]) == 1 else None
        where = b.line_at((blk, 10 ** 6))
        if fused or guarded:
            ctx.holds("R09.18", f, "secondary-input-fused:%s" % name, where, "`%s` is not polled again after it ended (%s)" % (name, "fused type" if fused else "guarded by a field of the adapter"))
        else:
            ctx.violated("R09.18", f, "secondary-input-fused:%s" % name, where,
                         "`%s` polls `%s` on every call, also after that stream has answered Ready(None): a finite, non-fused limit stream (e.g. futures' `unfold`) panics on the first source change after its end, where the adapter should keep following the source with the last value" % (f.path, name))
    return n
