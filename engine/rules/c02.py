"""C02 — no lost wakeups: a pending subscriber is woken by the next update or close."""
import re
from ..facts import strip, ecall_matches, contains, find_all, fmt, mentions_field, mentions_call
from .. import conds
from .common import *
from . import leaf

CRATES = (EY,)

META = {
    "explanation": (
        "Static decision of the waker protocol on MIR: R02.1 the poll leaf tests the version and registers the waker inside ONE exclusive "
        "critical section on the metadata lock (guard not released before the push) - the schedule-dependent clause, decided on the code shape "
        "for every interleaving; R02.2 every Pending return is dominated by a push of a clone of the caller's cx.waker(); R02.3 the wake helper "
        "iterates the whole iterator (only exit of the loop is the None edge of next, wake() called on each item on every path, no shrinking "
        "adapter); R02.4 notify and close hand the wake helper a full drain / mem::take of the waker list and that call post-dominates the "
        "version write; in close both happen under one guard; R02.5 inventory of mutations of the waker list (push in the leaf, drain in notify, "
        "take in close, nothing else); R02.6 every caller of the leaf derives the receiver from a lock guard. The link 'every notifying update "
        "reaches notify' is C01/R01.1, 'drop closes' is C03."),
    "trusted_base": ["std::sync::RwLock mutual exclusion", "std::task::Waker::wake schedules the task", "Vec::drain(..)/mem::take remove all elements", "rustc MIR construction"],
    "assumptions": [],
}
META["explanation"] += " R04.3 (value and marked version under one guard) is evaluated here for the clause 'never suspended over an unobserved update'."
META["explanation"] += ' Shared with C01: R01.1 (every mutable access to the value reaches the notify function on every path - a "no subscribers" fast path that stores without notifying loses the wake-up of a subscriber it did not see) and R01.13.'
META["explanation"] += ' The poll typestate (R02.7) runs on bodies in which combinators with closures are rewritten into branches (a `Pending` passed as the default of `map_or` is seen) and has a clause for locally owned inputs: a future that lives in a local of the poll function (created there, or taken out of self) and is left Pending must be stored back before a Pending return - dropping it drops the waker registration.'

NEXT = r"(^|::)Iterator(>)?::next$|^<.* as std::iter::Iterator>::next$"


def run(ctx):
    F = ctx.facts
    leaf.check_critical_section(ctx, "R02.1")
    leaf.check_pending_registered(ctx, "R02.2")
    wakes = find_wake_fn(F)
    if len(wakes) != 1:
        ctx.missing("R02.3", "wake helper (role: calls Waker::wake) - found %d" % len(wakes))
        return
    wake_fn = wakes[0]
    r02_3(ctx, wake_fn)
    r02_4(ctx, wake_fn)
    r02_5(ctx, wake_fn)
    r02_6(ctx)
    # "and by the closing of the observable": the close (which wakes) must actually be reached when the last owner goes away
    from . import c03, c04, groups
    c03.run(ctx)
    groups.eyeball_poll_typestate(ctx)
    # "never suspended over an unobserved update": a subscriber that marks a version it did not hand out parks on top of it
    c04.r04_3(ctx)
    # an update that is stored without the version bump / the wake (a "nobody is listening" fast path) leaves a parked subscriber asleep
    from . import c01
    notify = find_notify_fn(F)
    if notify:
        nset = c01.NotifySet(notify)
        c01.r01_1(ctx, nset)
        c01.r01_13(ctx, nset)


def r02_3(ctx, wake_fn):
    b = wake_fn.built
    nexts = b.calls(NEXT)
    wcalls = b.calls(r"^std::task::Waker::wake$")
    ctx.call_sites += len(nexts) + len(wcalls)
    if len(nexts) != 1:
        # `iter.for_each(|w| w.wake())` idiom
        fes = b.calls(r"Iterator>?::for_each$")
        if len(fes) == 1 and not wcalls:
            blk, t = fes[0]
            it = b.expr_of_op(t["args"][0])
            shrink = find_all(it, lambda x: x[0] == "call" and isinstance(x[1], str) and re.search(r"Iterator(>)?::(skip|take|step_by|filter|skip_while|take_while|filter_map|nth)$", x[1]))
            cl = [ctx.facts.fns.get(wake_fn.crate + "::" + g) for g in (t.get("garg_defs") or []) if g]
            cl = [c for c in cl if c is not None and c.built]
            where = b.line_at((blk, 10 ** 6))
            if shrink:
                ctx.violated("R02.3", wake_fn, "wake-all", where, "the wake helper iterates `%s`: some parked wakers are never woken" % fmt(shrink[0], 4))
            elif len(t["args"]) > 1 and t["args"][1].get("k") == "const" and re.search(r"^std::task::Waker::wake$", str(t["args"][1].get("fn") or "")) and contains(it, lambda x: x[0] == "param" and x[1] == 1):
                ctx.holds("R02.3", wake_fn, "wake-all", where, "into_iter(param).for_each(Waker::wake): every item is woken")
            elif cl and contains(it, lambda x: x[0] == "param" and x[1] == 1):
                cb = cl[0].built
                wk = cb.calls(r"^std::task::Waker::wake$")
                ok = bool(wk) and cb.post_dominated_by(0, [x for x, _ in wk]) and all(contains(cb.expr_of_op(tt["args"][0]), lambda x: x[0] == "param" and x[1] == 2) for _, tt in wk)
                ctx.verdict(ok, "R02.3", wake_fn, "wake-all", where, "into_iter(param).for_each(|w| w.wake()): every item is woken",
                            "the for_each closure of the wake helper does not wake its item on every path")
            else:
                ctx.undecided("R02.3", wake_fn, "wake-all", where, "for_each idiom not recognised")
            return
        ctx.undecided("R02.3", wake_fn, "wake-all", wake_fn.loc(), "iteration idiom not recognised (%d calls of Iterator::next)" % len(nexts))
        return
    nblk, nt = nexts[0]
    # the iterator must be the whole parameter
    it = b.expr_of_op(nt["args"][0])
    adapters = find_all(it, lambda x: x[0] == "call" and isinstance(x[1], str) and re.search(r"Iterator(>)?::(skip|take|step_by|filter|skip_while|take_while|filter_map|nth|rev)$", x[1]))
    shrink = [a for a in adapters if not re.search(r"::rev$", a[1])]
    from_param = contains(it, lambda x: x[0] == "param" and x[1] == 1)
    where = b.line_at((nblk, 10 ** 6))
    if shrink:
        ctx.violated("R02.3", wake_fn, "wake-all", where, "the wake loop iterates `%s`: some parked wakers are never woken" % fmt(shrink[0], 4))
        return
    if not from_param:
        ctx.undecided("R02.3", wake_fn, "wake-all", where, "iterator does not derive from the helper's parameter: %s" % fmt(it, 4))
        return
    # switch on the result of next
    sw = nt["target"]
    info = None
    hops = 0
    while sw is not None and hops < 4:
        info = conds.switch_info(b, sw)
        if info:
            break
        ss = b.succ[sw]
        sw = ss[0] if len(ss) == 1 else None
        hops += 1
    if not info or info["kind"] != "variant":
        ctx.undecided("R02.3", wake_fn, "wake-all", where, "no discriminant switch on the result of next()")
        return
    some_t = [t for t, fs in info["edges"].items() if any(f[0] == "variant" and f[2] == frozenset(["Some"]) for f in fs)]
    none_t = [t for t, fs in info["edges"].items() if any(f[0] == "variant" and f[2] == frozenset(["None"]) for f in fs)]
    if not some_t or not none_t:
        ctx.undecided("R02.3", wake_fn, "wake-all", where, "Some/None edges of next() not found")
        return
    st = some_t[0]
    wblks = [blk for blk, _ in wcalls]
    # (a) wake is called on the item
    item_ok = all(contains(b.expr_of_op(t["args"][0]), lambda x: x[0] == "call" and x[4] == (nblk, len(b.blocks[nblk]["stmts"]))) for _, t in wcalls)
    # (b) from the Some edge: every path back to the loop head passes a wake call; return unreachable without passing next again
    r = b.reachable_from(st, avoid_blocks=wblks + [nblk])
    skips_wake = nblk in b.reachable_from(st, avoid_blocks=wblks) if nblk not in (st,) else True
    leaves_loop = any(b.term(x)["k"] == "return" for x in b.reachable_from(st, avoid_blocks=[nblk]))
    if leaves_loop:
        ctx.violated("R02.3", wake_fn, "wake-all", where,
                     "the wake loop can be left from inside its body (break/return after an item): the remaining parked wakers are never woken")
    elif skips_wake:
        ctx.violated("R02.3", wake_fn, "wake-all", where, "an iteration of the wake loop can skip `Waker::wake` for its item")
    elif not item_ok:
        ctx.violated("R02.3", wake_fn, "wake-all", where, "Waker::wake is not called on the item yielded by next()")
    else:
        ctx.holds("R02.3", wake_fn, "wake-all", where,
                  "loop over into_iter(param): only exit is the None edge (bb%d) of next() (bb%d); every path from the Some edge (bb%d) back to next passes Waker::wake(item) (bb%s)" % (none_t[0], nblk, st, wblks))
        ctx.edges += len(r)


def is_full_removal(body, e):
    """expression handed to the wake helper: drain(RangeFull) / mem::take / mem::replace(.., empty) of the waker list."""
    x = strip(e, through_calls=False)
    if x[0] == "call" and ecall_matches(x, r"^std::vec::Vec::<.*>::drain$"):
        rng = strip(x[3][1], through_calls=False) if len(x[3]) > 1 else None
        full = rng is not None and rng[0] == "agg" and rng[2] == "std::ops::RangeFull"
        return mentions_field(x[3][0], "wakers"), full, "drain"
    if x[0] == "call" and ecall_matches(x, r"^std::mem::(take|replace)$"):
        return mentions_field(x[3][0], "wakers"), True, "take"
    return False, False, None


def r02_4(ctx, wake_fn):
    F = ctx.facts
    notify = find_notify_fn(F)
    closes = find_close_fn(F)
    targets = [(f, "notify") for f in notify] + [(c[0], "close") for c in closes]
    ctx.floor("R02.4", len(targets), 2)
    for f, role in targets:
        b = f.built
        wr = assigns_to_field(b, "version")
        wcalls = [(blk, t) for blk, t in b.calls() if F.local_callee(f, t) is wake_fn]
        ctx.call_sites += len(wcalls)
        if not wcalls:
            ctx.violated("R02.4", f, "%s-wakes" % role, f.loc(),
                         "`%s` writes `version` but never calls the wake helper: subscribers parked before this %s are never woken" % (f.name, "update" if role == "notify" else "close"))
            continue
        for wloc, _ in wr:
            pd = b.post_dominated_by(wloc[0], [blk for blk, _ in wcalls])
            if not pd:
                ctx.violated("R02.4", f, "%s-wakes" % role, b.line_at(wloc), "a path from the version write (bb%d) returns without calling the wake helper" % wloc[0])
                continue
            for blk, t in wcalls:
                e = b.expr_of_op(t["args"][0])
                on_list, full, how = is_full_removal(b, e)
                where = b.line_at((blk, 10 ** 6))
                if on_list and full:
                    ctx.holds("R02.4", f, "%s-wakes" % role, where, "wake(%s) of the whole waker list post-dominates the version write (bb%d)" % (how, wloc[0]))
                elif on_list:
                    ctx.violated("R02.4", f, "%s-wakes" % role, where, "only part of the waker list is drained (`%s`): the other parked subscribers are not woken by this %s" % (fmt(e, 5), role))
                else:
                    ctx.violated("R02.4", f, "%s-wakes" % role, where, "the wake helper is given `%s`, not the full waker list" % fmt(e, 5))
        if role == "close":
            # version write and removal of the wakers under one metadata guard
            acq = [(blk, t) for blk, t in b.calls(r"^std::sync::RwLock::<.*>::(write|read)$|^std::sync::Mutex::<.*>::lock$") if mentions_field(b.expr_of_op(t["args"][0]), "metadata")]
            excl = [x for x in acq if re.search(r"::(write|lock)$", x[1]["callee"])]
            ok = len(acq) == 1 and len(excl) == 1
            if ok:
                ablk = acq[0][0]
                gl = {acq[0][1]["dest"]["l"]}
                for blk, t in b.calls(r"::(unwrap|expect)$"):
                    if t["args"] and t["args"][0]["k"] == "move" and t["args"][0]["place"]["l"] in gl:
                        gl.add(t["dest"]["l"])
                drops = [blk for blk in b.reachable() if b.term(blk)["k"] == "drop" and b.term(blk)["place"]["l"] in gl and not b.term(blk)["place"]["proj"]]
                drops += [blk for blk, t in b.calls(r"^std::mem::drop$") if t["args"][0]["place"]["l"] in gl]
                takes = [blk for blk, t in b.calls(r"^std::mem::(take|replace)$|Vec::<.*>::drain$") if mentions_field(b.expr_of_op(t["args"][0]), "wakers")]
                early = [d for d in drops if any(tk in b.reachable_from(d) for tk in takes)]
                ok = not early
            ctx.verdict(ok, "R02.4", f, "close-one-guard", f.loc(), "sentinel write and removal of the wakers happen under a single exclusive metadata guard",
                        "close writes the sentinel and takes the wakers in separate critical sections: a poll in between parks a waker nobody will wake")


def r02_5(ctx, wake_fn):
    F = ctx.facts
    notify = find_notify_fn(F)
    closes = [c[0] for c in find_close_fn(F)]
    leaves = find_poll_leaf(F)
    n = 0
    for f in F.find(crate=EY):
        b = f.built
        if not b:
            continue
        for blk, t in b.calls():
            if not t["args"]:
                continue
            a0 = t["args"][0]
            if a0["k"] not in ("move", "copy"):
                continue
            e = strip(b.expr_of_op(a0), through_calls=False)
            if not (e[0] == "field" and e[2] == "wakers"):
                continue
            # is the first argument a mutable borrow?
            l = a0["place"]["l"]
            ty = b.locals[l]["ty"]
            if not ty.startswith("&mut"):
                continue
            n += 1
            ctx.call_sites += 1
            m = (t["callee"] or "").split("::")[-1]
            where = b.line_at((blk, 10 ** 6))
            if m == "push" and f in leaves:
                ctx.holds("R02.5", f, "wakers.push", where, "registration in the poll leaf")
            elif m == "drain" and f in notify:
                ctx.holds("R02.5", f, "wakers.drain", where, "drain in notify")
            elif m in ("take", "replace") and f in closes:
                ctx.holds("R02.5", f, "wakers.take", where, "take in close")
            elif m in ("drain", "take", "replace", "pop", "remove", "swap_remove", "clear", "truncate", "retain", "retain_mut", "dedup", "dedup_by", "dedup_by_key", "split_off"):
                # removal elsewhere: are the removed wakers handed to the wake helper?
                dest_used = any(F.local_callee(f, t2) is wake_fn and contains(b.expr_of_op(t2["args"][0]), lambda x: x[0] == "call" and x[4] == (blk, len(b.blocks[blk]["stmts"]))) for _, t2 in b.calls())
                if dest_used:
                    ctx.holds("R02.5", f, "wakers.%s" % m, where, "removed wakers are handed to the wake helper")
                else:
                    ctx.violated("R02.5", f, "wakers.%s" % m, where, "`%s` removes parked wakers from the list in `%s` without waking them: those subscribers are lost" % (m, f.path))
            elif m in ("push", "insert", "extend", "append", "reserve", "shrink_to_fit", "iter_mut", "as_mut_slice", "deref_mut"):
                ctx.holds("R02.5", f, "wakers.%s" % m, where, "non-removing mutation")
            else:
                ctx.undecided("R02.5", f, "wakers.%s" % m, where, "unlisted mutation of the waker list")
    ctx.floor("R02.5", n, 3)


def r02_6(ctx):
    F = ctx.facts
    leaves = find_poll_leaf(F)
    if not leaves:
        return
    lf = leaves[0]
    n = 0
    for f in F.find(crate=EY):
        b = f.built
        if not b:
            continue
        for blk, t in b.calls():
            if F.local_callee(f, t) is not lf:
                continue
            n += 1
            e = b.expr_of_op(t["args"][0])
            via_guard = contains(e, lambda x: x[0] == "call" and isinstance(x[1], str) and re.search(r"SharedReadLock::<.*>::(lock|lock_owned|try_lock)$|ReusableBoxFuture::<.*>::poll$|OwnedSharedReadGuard|SharedReadGuard", (x[1] or "") + " " + (x[2] or "")))
            ctx.verdict(True if via_guard else None, "R02.6", f, "leaf-called-under-read-lock", b.line_at((blk, 10 ** 6)),
                        "receiver of the poll leaf derives from a read guard: %s" % fmt(e, 5))
    ctx.floor("R02.6", n, 1 if not ctx.has_async else 3)
