"""Shared anchors and emit analysis for the Head / Tail / Skip / Sort / Filter adapters of eyeball-im-util."""
import re
from ..facts import strip, ecall_matches, contains, find_all, fmt, mentions_field, walk, has_arith
from .. import conds
from .common import *
from .vecdiff import *
from . import wakers

ADAPTERS = ("head", "tail", "skip")
PUSH = r"^(smallvec::SmallVec|arrayvec::ArrayVec|std::vec::Vec)::<.*>::push$"
EXTEND = r"Extend<.*>>?::extend(::<.*>)?$|::extend$"


class Adapter:
    def __init__(self, name):
        self.name = name
        self.translator = None   # handle_diff
        self.poll = None         # XProj::poll_next
        self.update = None       # update_limit / update_count
        self.closure = None      # per-diff closure passed to push_into_*_buf
        self.param = "count" if name == "skip" else "limit"


def find_adapters(F):
    """anchors of the three limit adapters, by role (private items may be renamed, split, merged or inlined into the Stream impl)."""
    out = {}
    for name in ADAPTERS:
        a = Adapter(name)
        mod = "vector::%s::" % name
        fns = [f for f in F.find(crate=UT) if mod in f.path and f.built and f.kind in ("fn", "assoc")]
        for f in fns:
            b = f.built
            if f.kind == "fn" and diff_switches(b) and b.arg_count == 4:
                a.translator = f
        # update function: (self, new value: usize) -> Option<..> that replaces the `limit` / `count` field
        for f in fns:
            b = f.built
            if f.kind != "assoc" or b.arg_count != 2 or "usize" not in str(b.locals[2]["ty"]) or not str(b.locals[0]["ty"]).startswith("std::option::Option<"):
                continue
            repl = [t for _, t in b.calls(r"^std::mem::(replace|swap|take)$|Option::<.*>::(replace|insert)$") if t["args"] and mentions_field(b.expr_of_op(t["args"][0]), a.param)]
            wr = [s_ for _, s_ in b.iter_stmts() if s_["k"] == "assign" and last_field(s_["place"]) == a.param]
            if repl or wr:
                a.update = f
        # an update function written as a free function over the projected fields (`update_count(count: &mut Option<usize>, buffer, n)`):
        # recognised so that its absence as a method is not mistaken for a missing anchor; its own rules are not evaluated on that shape
        a.update_alt = None
        if a.update is None:
            for f in fns:
                b = f.built
                if f.kind not in ("fn", "assoc") or not str(b.locals[0]["ty"]).startswith("std::option::Option<") or "VectorDiff<" not in str(b.locals[0]["ty"]):
                    continue   # (an associated function without a receiver - `Self::update_limit(limit, buffer, n)` - is the same shape)
                muts = [i for i in range(1, b.arg_count + 1) if re.match(r"^&mut (usize|std::option::Option<usize>)$", str(b.locals[i]["ty"]))]
                if muts and any("usize" == str(b.locals[i]["ty"]) for i in range(1, b.arg_count + 1)):
                    a.update_alt = f
        # poll function: has the caller's Context, and (itself, or with its private helpers inlined) hands the polled items to
        # push_into_*_buf; the one whose own body does so is preferred (the Stream impl merely delegates to it)
        cands = [f for f in fns if f.kind == "assoc" and wakers.cx_param(f.built) is not None]
        own = [f for f in cands if f.built.calls(r"::push_into_\w+_buf")]
        via = [f for f in cands if f not in own and (inl(F, f, a.translator, a.update) or f.built).calls(r"::push_into_\w+_buf")]
        pick = own or via
        if pick:
            # several candidates: the one that also polls (the loop itself), else the first
            pick.sort(key=lambda f: (-sum(1 for _, t in f.built.calls() if wakers.is_poll_call(t)), f.path))
            a.poll = pick[0]
        # per-diff closure (or named function) handed to push_into_*_buf, wherever that call sits
        for f in ([a.poll] if a.poll else []) + [f for f in fns if f is not a.poll]:
            for blk, t in f.built.calls(r"::push_into_\w+_buf"):
                for gd in t.get("garg_defs") or []:
                    if gd:
                        cf = F.fns.get(UT + "::" + gd)
                        if cf is not None and a.closure is None:
                            a.closure = cf
        out[name] = a
    return out


def register_roles(ctx, ads):
    """stable names for the private anchors of the limit adapters (used in finding keys instead of their paths)."""
    for name, a in ads.items():
        ctx.role(a.translator, "role:%s-translator" % name)
        ctx.role(a.update, "role:%s-update" % name)
        ctx.role(a.poll, "role:%s-poll" % name)
        ctx.role(a.closure, "role:%s-per-diff-closure" % name)


def diff_variants_in(e):
    """VectorDiff variants of aggregates inside an expression."""
    return [x[3] for x in find_all(e, lambda y: y[0] == "agg" and y[1] == "adt" and isinstance(y[2], str) and y[2].endswith("VectorDiff"))]


def natural_loops(body):
    """[(header, blocks)] of the natural loops of the body (back edge u -> h with h dominating u)."""
    cached = getattr(body, "_loops", None)
    if cached is not None:
        return cached
    loops = {}
    reach = body.reachable()
    for u in reach:
        for h in body.succ[u]:
            if body.dominates(h, u):
                blks = loops.setdefault(h, {h})
                work = [u]
                while work:
                    x = work.pop()
                    if x in blks:
                        continue
                    blks.add(x)
                    work.extend(p for p in body.pred[x] if p in reach)
    body._loops = sorted(loops.items())
    return body._loops


def loop_group(body, blk):
    """A push in block `blk` that sits in a `for x in ITER { .. }` loop is one group, like `extend(ITER.map(..))`:
    returns (block of the into_iter call before the loop, expression of ITER, count expression or None) or None."""
    inner = None
    for h, blks in natural_loops(body):
        if blk in blks and (inner is None or len(blks) < len(inner[1])):
            inner = (h, blks)
    if inner is None:
        return None
    h, blks = inner
    for b2 in sorted(blks):
        t = body.term(b2)
        if t["k"] == "call" and re.search(r"Iterator>?::next$", t.get("callee") or "") and t["args"] and t["args"][0]["k"] in ("move", "copy"):
            it = body.expr_of_op(t["args"][0])
            src = find_all(it, lambda y: y[0] == "call" and ecall_matches(y, r"IntoIterator>?::into_iter$"))
            if not src or src[0][4] is None:
                continue
            pre = src[0][4][0]
            if pre in blks or not body.dominates(pre, h):
                continue
            e = src[0][3][0] if src[0][3] else src[0]
            cnt = None
            takes = find_all(e, lambda y: y[0] == "call" and ecall_matches(y, r"Iterator>?::take$"))
            if takes:
                cnt = takes[0][3][1]
            else:
                rng = find_all(e, lambda y: y[0] == "agg" and y[1] == "adt" and isinstance(y[2], str) and re.search(r"ops::Range(Inclusive)?$", y[2]))
                if rng and len(rng[0][5]) == 2:
                    lo, hi = rng[0][5]
                    cnt = hi if (strip(lo)[0] == "const" and strip(lo)[3] == 0) else ("bin", "Sub", hi, lo)
            return pre, e, cnt
    return None


def emits(body, blocks=None):
    """emit events: [(blk, kind, variants, expr, count_expr)] kind in push|extend"""
    out = []
    for blk, t in body.calls(None, blocks=blocks):
        c = t.get("callee") or ""
        if re.search(PUSH, c) and len(t["args"]) == 2:
            e = body.expr_of_op(t["args"][1])
            vs = diff_variants_in(e)
            if vs or "VectorDiff" in body.locals[t["args"][1]["place"]["l"]]["ty"] if t["args"][1]["k"] in ("move", "copy") else vs:
                lg = loop_group(body, blk) if vs else None
                if lg is not None:
                    # `for x in ITER { res.push(D) }` == `res.extend(ITER.map(|x| D))`: one group, attributed to the loop's entry
                    pre, it, cnt = lg
                    out.append((pre, "extend", vs, ("call", "loop-group", None, (it, e), None, ()), cnt))
                else:
                    out.append((blk, "push", vs, e, None))
        elif re.search(EXTEND, c) or re.search(EXTEND, (t.get("extra") or {}).get("full") or ""):
            if len(t["args"]) != 2:
                continue
            e = body.expr_of_op(t["args"][1])
            vs = diff_variants_in(e)
            # closures mapping to a diff: look into closure bodies named in the expression
            cl = find_all(e, lambda y: y[0] == "agg" and y[1] == "closure")
            for c_ in cl:
                cf = body.fn.facts.fns.get(body.fn.crate + "::" + c_[2])
                if cf is not None and cf.built:
                    vs += diff_variants_in(cf.built.expr_of_local(0))
            takes = find_all(e, lambda y: y[0] == "call" and ecall_matches(y, r"Iterator>?::take$"))
            cnt = takes[0][3][1] if takes else None
            if vs:
                out.append((blk, "extend", vs, e, cnt))
    return out


def arms_of(body):
    sws = diff_switches(body)
    if not sws:
        return None, None, {}
    sw, info = sws[0]
    arms, multi = arm_targets(info)
    return sw, info, arms
