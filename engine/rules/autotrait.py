"""Auto-trait requirement calculus for hand-written `unsafe impl Send / Sync` (R20.5b).

For an `unsafe impl<T: B..> Send for X<T>` the rule computes, from the types X stores (and, for a type-erased boxed future, from the parameter
types of the async fn whose future is put into the box), which marker traits the type parameter needs for the stored data to be Send,
using a small trusted table for external containers, and requires every computed need to be among the impl's declared bounds.
Nothing here inspects text of the source; it works on the type strings of the type-checked program (fields, signatures, generic args of
resolved calls) and on the predicate list of the impl."""
import re
from ..facts import strip, ecall_matches, contains, find_all, fmt
from .common import *


# ---------------------------------------------------------------------------
# a tiny parser for rustc's printed types

def split_top(s, sep=","):
    out, depth, cur = [], 0, ""
    for ch in s:
        if ch in "<([":
            depth += 1
        elif ch in ">)]":
            depth -= 1
        if ch == sep and depth == 0:
            out.append(cur.strip())
            cur = ""
        else:
            cur += ch
    if cur.strip():
        out.append(cur.strip())
    return out


def parse(ty):
    """-> ('tuple', [..]) | ('ref', mut, inner) | ('ptr', inner) | ('slice', inner) | ('path', name, [type args]) | ('opaque', text)"""
    ty = ty.strip()
    if ty.startswith("("):
        inner = ty[1:-1].strip()
        return ("tuple", [parse(x) for x in split_top(inner)] if inner else [])
    m = re.match(r"^&('\w+\s+)?(mut\s+)?(.*)$", ty)
    if m:
        return ("ref", bool(m.group(2)), parse(m.group(3)))
    m = re.match(r"^\*(const|mut)\s+(.*)$", ty)
    if m:
        return ("ptr", parse(m.group(2)))
    if ty.startswith("["):
        inner = ty[1:-1]
        return ("slice", parse(split_top(inner, ";")[0]))
    if ty.startswith("dyn ") or ty.startswith("impl ") or ty.startswith("fn(") or ty.startswith("for<") or ty.startswith("{"):
        return ("opaque", ty)
    m = re.match(r"^([^<]+)(<(.*)>)?$", ty, re.S)
    if not m:
        return ("opaque", ty)
    args = [a for a in split_top(m.group(3) or "") if not a.startswith("'") and not re.match(r"^\d+$", a)]
    return ("path", m.group(1).strip(), [parse(a) for a in args])


SEND, SYNC = "Send", "Sync"
BOTH = (SEND, SYNC)

# trusted table: how an external generic container's Send / Sync depends on its type arguments.  value: per trait, a list of
# (argument position, markers the argument needs); arguments not listed are irrelevant (allocator / pointer-kind parameters).
TABLE = {
    "imbl::GenericVector": {SEND: [(0, BOTH)], SYNC: [(0, BOTH)]},          # chunks shared through Arc
    "imbl::Vector": {SEND: [(0, BOTH)], SYNC: [(0, BOTH)]},
    "std::sync::Arc": {SEND: [(0, BOTH)], SYNC: [(0, BOTH)]},
    "std::sync::Weak": {SEND: [(0, BOTH)], SYNC: [(0, BOTH)]},
    "std::rc::Rc": {SEND: [(0, ("!",))], SYNC: [(0, ("!",))]},
    "std::sync::Mutex": {SEND: [(0, (SEND,))], SYNC: [(0, (SEND,))]},
    "std::sync::RwLock": {SEND: [(0, (SEND,))], SYNC: [(0, BOTH)]},
    "std::cell::Cell": {SEND: [(0, (SEND,))], SYNC: [(0, ("!",))]},
    "std::cell::RefCell": {SEND: [(0, (SEND,))], SYNC: [(0, ("!",))]},
    "tokio::sync::broadcast::Receiver": {SEND: [(0, (SEND,))], SYNC: [(0, (SEND,))]},
    "tokio::sync::broadcast::Sender": {SEND: [(0, (SEND,))], SYNC: [(0, (SEND,))]},
    "tokio::sync::RwLock": {SEND: [(0, (SEND,))], SYNC: [(0, BOTH)]},
}
STRUCTURAL = r"^(std::(option::Option|result::Result|vec::Vec|vec::IntoIter|collections::VecDeque|boxed::Box|pin::Pin|mem::ManuallyDrop|marker::PhantomData|task::Poll)|smallvec::SmallVec|arrayvec::ArrayVec)$"
LEAF_OK = r"^(u8|u16|u32|u64|u128|usize|i8|i16|i32|i64|i128|isize|bool|char|str|\(\)|f32|f64|std::string::String|tokio::sync::broadcast::error::\w+|std::task::Waker)$"


class Undecided(Exception):
    pass


def need(F, crate, t, trait, params, depth=0, seen=()):
    """set of (param name, marker) the type needs for `trait`; raises Undecided for shapes outside the calculus."""
    if depth > 12:
        raise Undecided("type too deep")
    k = t[0]
    if k == "tuple":
        return set().union(*[need(F, crate, x, trait, params, depth + 1, seen) for x in t[1]]) if t[1] else set()
    if k == "slice":
        return need(F, crate, t[1], trait, params, depth + 1, seen)
    if k == "ref":
        # &X: Send iff X: Sync; &X: Sync iff X: Sync; &mut X: Send iff X: Send; &mut X: Sync iff X: Sync
        inner_trait = SYNC if (not t[1] or trait == SYNC) else SEND
        return need(F, crate, t[2], inner_trait, params, depth + 1, seen)
    if k == "ptr":
        raise Undecided("raw pointer")
    if k == "opaque":
        raise Undecided("opaque type `%s`" % t[1][:60])
    name, args = t[1], t[2]
    if name in params and not args:
        return {(name, trait)}
    if re.match(LEAF_OK, name):
        return set()
    if name in TABLE:
        out = set()
        for pos, marks in TABLE[name][trait]:
            if pos < len(args):
                for mk in marks:
                    if mk == "!":
                        raise Undecided("`%s` is never %s" % (name, trait))
                    out |= need(F, crate, args[pos], mk, params, depth + 1, seen)
        return out
    if re.match(STRUCTURAL, name):
        out = set()
        for a in args[:1] if name.endswith(("SmallVec", "ArrayVec")) else args:
            out |= need(F, crate, a, trait, params, depth + 1, seen)
        return out
    adt = F.adts.get(crate + "::" + name)
    if adt is not None:
        if name in seen:
            return set()
        fields = [fd["ty"] for v in adt["variants"] for fd in v["fields"]]
        # generic parameter names of the ADT: the free single identifiers of its field types, in order of first appearance
        free = []
        for ft in fields:
            for ident in re.findall(r"(?<![\w:'])([A-Z]\w*)(?![\w:<])", ft):
                if ident not in free and ident not in ("Self",):
                    free.append(ident)
        if len(free) != len(args):
            if not free and not args:
                pass
            else:
                raise Undecided("generic parameters of `%s` not matched (%s vs %d args)" % (name, free, len(args)))
        out = set()
        for ft in fields:
            sub = need(F, crate, parse(ft), trait, set(free), depth + 1, seen + (name,))
            for (p_, mk) in sub:
                out |= need(F, crate, args[free.index(p_)], mk, params, depth + 1, seen)
        return out
    raise Undecided("unknown type `%s`" % name)


def declared(bounds):
    out = set()
    for b in bounds or []:
        m = re.match(r"^(\w+): std::marker::(Send|Sync)$", b)
        if m:
            out.add((m.group(1), m.group(2)))
    return out


def stored_types(F, crate, adt_path, adt):
    """types whose Send-ness the wrapper vouches for: its fields; for a type-erased reusable box, the parameter types of the async fns
    whose futures the wrapper's own methods put into it (they are captured in the future's state)."""
    out = []
    for v in adt["variants"]:
        for fd in v["fields"]:
            t = parse(fd["ty"])
            if t[0] == "path" and t[1].endswith("ReusableBoxFuture"):
                found = False
                for f in F.find(crate=crate):
                    if not f.built or not (f.raw.get("self_ty") or "").startswith(adt_path + "<"):
                        continue
                    b = f.built
                    for blk, tm in b.calls(r"ReusableBoxFuture::<.*>::(new|set|try_set)$"):
                        e = b.expr_of_op(tm["args"][-1])
                        for c in find_all(e, lambda y: y[0] == "call" and isinstance(y[1], str)):
                            g = F.fns.get(crate + "::" + (c[2] or c[1])) or F.fns.get(crate + "::" + c[1])
                            if g is None or not g.raw.get("is_async"):
                                continue
                            # the call's generic arguments
                            gargs = None
                            for blk2, t2 in b.calls():
                                if (blk2, len(b.blocks[blk2]["stmts"])) == c[4]:
                                    gargs = t2.get("gargs")
                            ins = g.raw["sig"]["inputs"]
                            gparams = []
                            for it in ins:
                                for ident in re.findall(r"(?<![\w:'])([A-Z]\w*)(?![\w:<])", it):
                                    if ident not in gparams:
                                        gparams.append(ident)
                            if gargs is None or len(gparams) != len([a for a in gargs if not a.startswith("'")]):
                                raise Undecided("generic arguments of `%s` not matched" % g.path)
                            for it in ins:
                                for p_, a_ in zip(gparams, [a for a in gargs if not a.startswith("'")]):
                                    it = re.sub(r"(?<![\w:'])%s(?![\w:<])" % re.escape(p_), a_, it)
                                out.append(("parameter of `%s`, captured by the boxed future" % g.name, it))
                                found = True
                if not found:
                    raise Undecided("no constructor of the boxed future found in the methods of `%s`" % adt_path)
            else:
                out.append(("field `%s`" % fd["name"], fd["ty"]))
    return out


def check_unsafe_marker_impls(ctx, rule="R20.5"):
    F = ctx.facts
    n = 0
    for im in F.impls:
        if not im.get("unsafe") or im.get("trait") not in ("std::marker::Send", "std::marker::Sync"):
            continue
        crate = im["crate"]
        trait = im["trait"].split("::")[-1]
        st = parse(im["self_ty"])
        if st[0] != "path":
            continue
        adt_path = st[1]
        adt = F.adts.get(crate + "::" + adt_path)
        where = "%s:%s" % (im["span"]["file"], im["span"]["line"])
        key = "marker-impl-bound:%s:%s" % (adt_path.split("::")[-1], trait)
        if adt is None:
            continue
        params = {a[1] for a in st[2] if a[0] == "path" and not a[2] and re.match(r"^[A-Z]\w*$", a[1])}
        if not params:
            continue   # a concrete witness type (e.g. `IsSend`): nothing generic is vouched for
        if trait == SYNC:
            continue   # Sync of the reusable box is argued from its API (no &self access to the box): R20.5 sync-impl clause
        n += 1
        try:
            needs = set()
            why = {}
            for label, ty in stored_types(F, crate, adt_path, adt):
                for x in need(F, crate, parse(ty), trait, params):
                    needs.add(x)
                    why.setdefault(x, "%s: `%s`" % (label, ty))
        except Undecided as u:
            ctx.undecided(rule, None, key, where, "requirement not computed: %s" % u)
            continue
        have = declared(im.get("bounds"))
        missing = sorted(needs - have)
        if missing:
            p_, mk = missing[0]
            ctx.violated(rule, "impl:" + adt_path, key, where,
                         "`unsafe impl %s for %s` declares %s but the data it stores needs `%s: %s` as well (%s; imbl vectors share their chunks through Arc, so they are Send only for Send + Sync elements): "
                         "for an element type that is Send but not Sync the stream can be moved to another thread and then reads / clones / drops elements that the ObservableVector's thread still reaches through `&T` - a data race in safe code, and for element types that keep ownership bookkeeping in a Cell a double or missing drop" % (
                             trait, im["self_ty"], sorted(have) or "no bound", p_, mk, why[(p_, mk)]))
        else:
            ctx.holds(rule, "impl:" + adt_path, key, where, "declared bounds %s cover the computed need %s" % (sorted(have), sorted(needs)))
    return n
