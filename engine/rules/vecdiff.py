"""VectorDiff tables: the reader table extracted from VectorDiff::apply, arm regions of discriminant switches."""
import re
from ..facts import strip, ecall_matches, contains, find_all, fmt, mentions_field
from .. import conds
from .common import *

VARIANTS = ["Append", "Clear", "PushFront", "PushBack", "PopFront", "PopBack", "Insert", "Set", "Remove", "Truncate", "Reset"]

# documented meaning of each variant: imbl method and which payload field goes to which argument
DOC_TABLE = {
    "Append": ("append", ["values"]), "Clear": ("clear", []), "PushFront": ("push_front", ["value"]),
    "PushBack": ("push_back", ["value"]), "PopFront": ("pop_front", []), "PopBack": ("pop_back", []),
    "Insert": ("insert", ["index", "value"]), "Set": ("set", ["index", "value"]), "Remove": ("remove", ["index"]),
    "Truncate": ("truncate", ["length"]), "Reset": ("=", ["values"]),
}
LEN_EFFECT = {"Append": "+len", "Clear": "=0", "PushFront": "+1", "PushBack": "+1", "PopFront": "-1", "PopBack": "-1",
              "Insert": "+1", "Set": "0", "Remove": "-1", "Truncate": "=arg", "Reset": "=len"}
GROW = {"PushFront", "PushBack", "Insert", "Append"}
SHRINK = {"PopFront", "PopBack", "Remove", "Truncate", "Clear"}

IMBL = r"^imbl::(GenericVector|Vector)::<.*>::(\w+)$"
MUTATING = {"append", "clear", "push_front", "push_back", "pop_front", "pop_back", "insert", "set", "remove", "truncate",
            "retain", "split_off", "split_at", "slice", "sort", "sort_by", "swap", "insert_ord", "extend"}


def imbl_method(t):
    m = re.match(IMBL, t.get("callee") or "")
    return m.group(2) if m else None


def diff_switches(body, adt_suffix="::VectorDiff"):
    """blocks whose terminator switches on the discriminant of a VectorDiff value: [(block, info)]"""
    out = []
    for b in sorted(body.reachable()):
        info = conds.switch_info(body, b)
        if info and info["kind"] == "variant" and (info.get("adt") or "").endswith(adt_suffix):
            out.append((b, info))
    return out


def arm_targets(info):
    """variant name -> target block for single-variant edges; plus 'otherwise' targets with several variants."""
    arms = {}
    multi = []
    for t, fs in info["edges"].items():
        for f in fs:
            if f[0] == "variant":
                if len(f[2]) == 1:
                    arms[next(iter(f[2]))] = t
                elif len(f[2]) > 1:
                    multi.append((t, f[2]))
    return arms, multi


def arm_region(body, sw, target):
    """blocks reachable from `target` that are edge-dominated by (sw -> target)."""
    r = body.reachable_from(target)
    return {x for x in r if body.edge_dominates((sw, target), x)}


def apply_table(F):
    """variant -> (method, [payload field per argument]) read from VectorDiff::apply on this run."""
    f = F.fn(IM, "vector::VectorDiff::<T>::apply")
    if f is None:
        return None, None
    b = f.built
    sws = diff_switches(b)
    if not sws:
        return f, {}
    sw, info = sws[0]
    arms, multi = arm_targets(info)
    table = {}
    for v, t in arms.items():
        region = arm_region(b, sw, t)
        entry = None
        for blk in sorted(region):
            tm = b.term(blk)
            if tm["k"] == "call":
                m = imbl_method(tm)
                if m and contains(b.expr_of_op(tm["args"][0]), lambda x: x[0] == "param" and x[1] == 2):
                    fields = []
                    for a in tm["args"][1:]:
                        e = strip(b.expr_of_op(a), through_calls=False)
                        fields.append(e[2] if e[0] == "field" and e[1][0] == "downcast" else "?" + fmt(e, 3))
                    entry = (m, fields, (blk, len(b.blocks[blk]["stmts"])))
            for i, s in enumerate(b.blocks[blk]["stmts"]):
                if s["k"] == "assign" and s["place"]["l"] == 2 and s["place"]["proj"] == ["deref"]:
                    e = strip(b.expr_of_rv(s["rv"], 8, ()), through_calls=False)
                    entry = ("=", [e[2] if e[0] == "field" else "?" + fmt(e, 3)], (blk, i))
        table[v] = entry
    return f, table


def diff_agg_variant(e):
    """variant name if e is a VectorDiff aggregate."""
    if e[0] == "agg" and e[1] == "adt" and e[2].endswith("::VectorDiff"):
        return e[3]
    return None


def agg_field(e, name):
    if e[0] == "agg" and name in e[4]:
        return e[5][e[4].index(name)]
    return None


def same_param_no_arith(e1, e2):
    """both expressions carry the same parameter (modulo clone/ref), with no arithmetic on the way."""
    from ..facts import has_arith
    a, b = strip(e1), strip(e2)
    if has_arith(e1) or has_arith(e2):
        return False
    if a[0] == "param" and b[0] == "param":
        return a[1] == b[1]
    return a == b and a[0] in ("param", "field")
