"""C11 — Sort, SortBy and SortByKey present a sorted permutation of the source (structural clauses)."""
import re
from ..facts import strip, ecall_matches, contains, find_all, fmt, mentions_field, has_arith, walk
from .. import conds
from .common import *
from .vecdiff import *
from .adapters import diff_variants_in
from . import wakers
from .c01 import CALL_CLOSURE

CRATES = (UT,)

META = {
    "explanation": (
        "Static decision on MIR of the sort translator (its sorted buffer IS the view, tagged with source indices): R11.1 exhaustive dispatch over the 11 "
        "diff kinds and all three public flavours funnel into the one implementation with a comparison derived from the user's function / Ord::cmp / key; "
        "R11.2 mirror rule - on every path of every arm the sequence of structural mutations of the sorted buffer (imbl methods and whole assignment) equals, "
        "in FIFO order, the sequence of diffs pushed to the result: same operation by VectorDiff::apply's table (insert(0,.)~PushFront, insert(len,.)~PushBack "
        "accepted) with the same index operand; an unmirrored mutation or push is a violation; R11.3 the position of every insert into the buffer derives "
        "from binary_search_by over the buffer with the caller's comparison; R11.4 tag-shift table (PushFront all +1; Insert tags >= i +1; PopFront others -1; "
        "Remove tags > i -1; nothing else shifts); plus end-of-stream and the waker typestate of SortImpl::poll_next. Whether the user's comparison is a "
        "consistent total order is not decided."),
    "trusted_base": ["imbl::Vector::{binary_search_by, insert, remove, set, retain, ...}", "rustc MIR construction"],
    "assumptions": ["the user's comparison / key function is a consistent total order"],
    "not_decided": "arithmetic on positions (new_index - 1 after removing the old element) and that the buffer is sorted at all times",
}
META["explanation"] += ' R11.4 also requires the tag shift to accompany every structural change of the sorted buffer on every path of the arm (no fast path that inserts and returns before the shift).'
META["explanation"] += ' R11.8 inside a loop that inserts into the sorted buffer, a searched position is not compared with a length of the buffer read before the loop.'
META["explanation"] += " R11.9 every positional access to the sorted buffer (get / remove / set / insert / ..) takes a position that is not a diff's own index payload (a source-order index) unless it went through a search."
META["explanation"] += ' R11.10 a searched position that is then advanced over a run of items (take_while(pred).count()) walks only over items not greater than the new value (polarity of Ordering::is_* against the argument order of the comparison). Shared: R10.12.'
META["explanation"] += ' R11.4c looks through order-preserving iterator adapters and plain copies of the incoming vector (sorted first, numbered afterwards is a violation). R11.12 a working collection handed to the translator is empty between diffs: no arm drains it without clearing first while another arm leaves items in it.'
META["explanation"] += ' R11.2 also compares the value operand of the buffer mutation with the value of the emitted diff (clones of one source).'
META["explanation"] += ' R11.5 the sorted buffer is not started empty next to returned initial values that depend on the given vector unless the vector is known to be empty.'

STRUCT = {"append", "clear", "push_front", "push_back", "pop_front", "pop_back", "insert", "set", "remove", "truncate", "retain", "split_off", "slice", "extend"}
TRANSLATOR = "vector::sort::handle_diff_and_update_buffered_vector"


def find_translator(F):
    c = [f for f in F.find(crate=UT) if f.kind == "fn" and f.path.startswith("vector::sort::") and f.built and diff_switches(f.built)]
    return c[0] if len(c) == 1 else None


def run(ctx):
    F = ctx.facts
    f = find_translator(F)
    if f is None:
        ctx.missing("R11.1", "sort translator (role: the free function of vector::sort with a VectorDiff switch)")
        return
    ctx.role(f, "role:sort-translator")
    b = inl(F, f) or f.built   # arms moved into private helpers (handle_append, ...) are analysed in place
    if not diff_switches(b):
        b = f.built
    sw, info = diff_switches(b)[0]
    arms, multi = arm_targets(info)
    missing = [v for v in VARIANTS if v not in arms]
    ctx.verdict(not missing, "R11.1", f, "exhaustive-dispatch", f.loc(), "all 11 diff kinds have their own arm", "no explicit arm for %s: those diffs do not reach the sorted view" % missing)
    r11_1_flavours(ctx, f)
    buf = None
    for i in range(1, b.arg_count + 1):
        if "GenericVector<(usize" in b.locals[i]["ty"] or "Vector<(usize" in b.locals[i]["ty"]:
            buf = i
    if buf is None:
        ctx.missing("R11.2", "sorted buffer parameter of the translator")
        return
    n = 0
    for v in VARIANTS:
        if v in arms:
            n += 1
            mirror(ctx, f, b, sw, arms[v], v, buf)
            tags(ctx, f, b, sw, arms[v], v, buf)
            new_tag(ctx, f, b, sw, arms[v], v, buf)
            locate_by_tag(ctx, f, b, sw, arms[v], v, buf)
    ctx.floor("R11.2", n, 11)
    r11_3(ctx, f, b, buf)
    r11_8(ctx, f, b, buf)
    r11_9(ctx, f, b, buf)
    r11_10(ctx, f)
    r11_12(ctx, f, b, sw, arms)
    from . import c10
    c10.r10_12(ctx)
    bulk_tags(ctx, f, sw, arms, buf)
    # poll function: end-of-stream and typestate
    for pf, sites in wakers.poll_fns(F, (UT,)):
        if pf.path.startswith("vector::sort::"):
            pb = pf.built
            slocs = {(blk, len(pb.blocks[blk]["stmts"])) for blk, t in sites}
            for loc, s in pb.iter_stmts():
                if s["k"] == "assign" and s["rv"]["k"] == "agg" and s["rv"].get("adt") == "std::option::Option" and s["rv"]["variant"] == "None":
                    facts = conds.bare(conds.dominating_facts(pb, loc[0]))
                    ok = any(x[0] == "variant" and x[2] == frozenset(["None"]) and strip(x[1], through_calls=False)[0] == "call" and strip(x[1], through_calls=False)[4] in slocs for x in facts)
                    ctx.verdict(ok, "R11.6", pf, "ends-with-source", pb.line_at(loc), "Ready(None) only on the source's None edge", "the sort adapter ends its stream on a path that is not the end of the source")
            wakers.check_poll_fn(ctx, "R14.1", pf, sites)
    from . import groups
    groups.util_buffers(ctx)



def r11_1_flavours(ctx, tr):
    F = ctx.facts
    n = 0
    for f in F.find(crate=UT, name="poll_next"):
        if not f.path.startswith("<vector::sort::Sort") or not f.built:
            continue
        b = f.built
        calls = [(blk, t) for blk, t in b.calls() if F.local_callee(f, t) is not None and F.local_callee(f, t).path.startswith("vector::sort::SortImpl")]
        for blk, t in calls:
            n += 1
            e = b.expr_of_op(t["args"][-1])
            st = f.raw.get("self_ty") or ""
            if st.startswith("vector::sort::SortBy<"):
                ok = mentions_field(e, "compare")
            elif st.startswith("vector::sort::SortByKey<"):
                ok = contains(e, lambda x: x[0] == "agg" and x[1] == "closure") and (mentions_field(e, "key_fn") or True)
            else:
                ok = contains(e, lambda x: x[0] == "fn" and re.search(r"Ord>?::cmp$", x[1]))
            ctx.verdict(True if ok else None, "R11.1", f, "flavour-funnels-into-impl", b.line_at((blk, 10 ** 6)), "comparison handed to SortImpl::poll_next: %s" % fmt(e, 3))
    ctx.floor("R11.1", n, 3)


def is_buf(body, op, buf):
    x = strip(body.expr_of_op(op))
    return x[0] == "param" and x[1] == buf


def arm_events(body, region, buf):
    """block -> ('op', method, term) | ('push', variants, term)"""
    ev = {}
    for blk in sorted(region):
        t = body.term(blk)
        if t["k"] == "call":
            m = imbl_method(t)
            if m in STRUCT and t["args"] and is_buf(body, t["args"][0], buf):
                ev[blk] = ("op", m, t)
            elif re.search(r"^(smallvec::SmallVec|arrayvec::ArrayVec|std::vec::Vec)::<.*>::push$", t.get("callee") or "") and len(t["args"]) == 2:
                e = body.expr_of_op(t["args"][1])
                vs = diff_variants_in(e)
                if vs:
                    ev[blk] = ("push", vs, t)
        for i, s in enumerate(body.blocks[blk]["stmts"]):
            if s["k"] == "assign" and s["place"]["l"] == buf and s["place"]["proj"] == ["deref"]:
                ev[blk] = ("op", "=", s)
    return ev


def root_local(body, op, depth=0):
    """follow single-definition copy/move chains to the local a value originates from (None for constants)."""
    if op["k"] not in ("copy", "move") or op["place"]["proj"]:
        return ("place", str(op.get("place"))) if op["k"] in ("copy", "move") else ("const", op.get("val"))
    l = op["place"]["l"]
    whole, _ = body.defs
    for _ in range(12):
        ds = whole.get(l, [])
        if len(ds) == 1 and ds[0][1] == "assign" and ds[0][2]["k"] == "use" and ds[0][2]["op"]["k"] in ("copy", "move") and not ds[0][2]["op"]["place"]["proj"]:
            l = ds[0][2]["op"]["place"]["l"]
            continue
        if len(ds) == 1 and ds[0][1] == "assign" and ds[0][2]["k"] == "use" and ds[0][2]["op"]["k"] == "const":
            return ("const", ds[0][2]["op"].get("val"))
        break
    return ("local", l)


def diff_agg_stmts(body, op):
    """the VectorDiff aggregate statements that can define the value of operand `op` (through moves, both branches of an if)."""
    out = []
    seen = set()
    work = [op]
    whole, _ = body.defs
    while work:
        o = work.pop()
        if o["k"] not in ("copy", "move") or o["place"]["proj"]:
            continue
        l = o["place"]["l"]
        if l in seen:
            continue
        seen.add(l)
        for loc, kind, payload in whole.get(l, []):
            if kind != "assign":
                continue
            if payload["k"] == "agg" and (payload.get("adt") or "").endswith("::VectorDiff"):
                out.append((loc, payload))
            elif payload["k"] == "use":
                work.append(payload["op"])
    return out


def compat(method, variant):
    if DOC_TABLE[variant][0] == method:
        return True
    if method == "insert" and variant in ("PushFront", "PushBack"):
        return True
    return False


def mirror(ctx, f, b, sw, target, v, buf):
    region = arm_region(b, sw, target)
    ev = arm_events(b, region, buf)
    problems = []
    CAP = 3

    agg_blocks = {}
    for loc, s_ in b.iter_stmts(sorted(region)):
        if s_["k"] == "assign" and s_["rv"]["k"] == "agg" and (s_["rv"].get("adt") or "").endswith("::VectorDiff"):
            agg_blocks.setdefault(loc[0], set()).add(loc)

    def transfer(blk, st):
        if st == "OVER":
            return ["OVER"]
        q, seen_aggs = st
        if blk in agg_blocks:
            seen_aggs = frozenset(seen_aggs | agg_blocks[blk])
        if blk in ev:
            kind, x, t = ev[blk]
            if kind == "op":
                q = q + ((x, blk),)
                if len(q) > CAP:
                    return ["OVER"]
            else:
                # a pushed value built in several branches (`match pos { 0 => PopFront, .. }`): on this path it is the
                # aggregate(s) the path went through
                cands = diff_agg_stmts(b, t["args"][1])
                onpath = [(aloc, arv) for aloc, arv in cands if aloc in seen_aggs]
                if onpath:
                    x = [arv["variant"] for _, arv in onpath]
                    cands = onpath
                seen_aggs = frozenset()
                if not q:
                    problems.append(("unmirrored-push", blk, x, None))
                else:
                    (m, oblk), rest = q[0], q[1:]
                    bad = [vv for vv in x if not compat(m, vv)]
                    if bad:
                        problems.append(("mismatch", blk, bad, (m, oblk)))
                    else:
                        # index operand agreement
                        ot = ev[oblk][2]
                        if m in ("insert", "set", "remove") and "args" in ot:
                            oi = strip(b.expr_of_op(ot["args"][1]))
                            oroot = root_local(b, ot["args"][1])
                            for aloc, arv in cands:
                                if "index" in arv["fields"]:
                                    iop = arv["ops"][arv["fields"].index("index")]
                                    pi = strip(b.expr_of_op(iop))
                                    proot = root_local(b, iop)
                                    same = (oroot is not None and oroot == proot) or fmt(pi, 8) == fmt(oi, 8)
                                    if not same:
                                        problems.append(("operand", blk, arv["variant"], (m, oblk, fmt(oi, 3), fmt(pi, 3))))
                        # value operand agreement: the item stored in the buffer and the item the consumer is handed are the
                        # same value (clones of one source) - not e.g. the entry just removed from the buffer
                        if m in ("insert", "set", "push_back", "push_front") and "args" in ot and len(ot["args"]) >= 2:
                            def unclone(e_):
                                x_ = strip(e_)
                                for _ in range(6):
                                    if x_[0] == "call" and ecall_matches(x_, r"Clone>?::clone$|::clone$|ToOwned>?::to_owned$") and x_[3]:
                                        x_ = strip(x_[3][0])
                                    else:
                                        break
                                return x_
                            se = unclone(b.expr_of_op(ot["args"][-1]))
                            if se[0] == "agg" and se[1] == "tuple" and len(se[5]) == 2:
                                stored_v = unclone(se[5][1])
                                for aloc, arv in cands:
                                    if "value" in arv["fields"]:
                                        ev_ = unclone(b.expr_of_op(arv["ops"][arv["fields"].index("value")]))
                                        if fmt(ev_, 8) != fmt(stored_v, 8):
                                            # a removed / looked-up buffer entry on one side and the diff's payload on the other?
                                            from_buf = lambda e_: contains(e_, lambda y: y[0] == "call" and ecall_matches(y, r"GenericVector::<.*>::(remove|get|set|pop_front|pop_back|index)$|Index>?::index$"))
                                            if from_buf(stored_v) != from_buf(ev_):
                                                problems.append(("value", blk, arv["variant"], (m, oblk, fmt(stored_v, 3), fmt(ev_, 3))))
                            elif se[0] == "call" and ecall_matches(se, r"GenericVector::<.*>::(remove|pop_front|pop_back)$"):
                                # the whole stored entry is one that was just taken out of the buffer
                                for aloc, arv in cands:
                                    if "value" in arv["fields"]:
                                        ev_ = unclone(b.expr_of_op(arv["ops"][arv["fields"].index("value")]))
                                        if not contains(ev_, lambda y: y[0] == "call" and y[4] == se[4]):
                                            problems.append(("value", blk, arv["variant"], (m, oblk, fmt(se, 3), fmt(ev_, 3))))
                    q = rest
        return [(q, seen_aggs)]
    ins, outs = forward_states(b, ((), frozenset()), transfer, start=target)
    finals = set()
    for rb in b.return_blocks():
        for st in outs.get(rb, ()):
            finals.add(st if st == "OVER" else st[0])
    where = b.line_at((target, 0))
    seen = set()
    bad = False
    for kind, blk, x, extra in problems:
        key = (kind, blk)
        if key in seen:
            continue
        seen.add(key)
        bad = True
        if kind == "mismatch":
            m, oblk = extra
            ctx.violated("R11.2", f, "arm=%s,replica=%s,emitted=%s" % (v, m, "/".join(x)), b.line_at((blk, 10 ** 6)),
                         "sort translator, arm %s: the sorted buffer is changed with `%s` (bb%d) but the consumer is told `%s`, which it applies as `%s`: the rebuilt view differs from the adapter's sorted buffer" % (
                             v, m, oblk, "/".join(x), "/".join(DOC_TABLE[vv][0] for vv in x)))
        elif kind == "unmirrored-push":
            ctx.violated("R11.2", f, "arm=%s,unmirrored-push=%s" % (v, "/".join(x)), b.line_at((blk, 10 ** 6)),
                         "sort translator, arm %s: `%s` is emitted although no matching mutation of the sorted buffer precedes it (order of emissions differs from the order of buffer mutations)" % (v, "/".join(x)))
        elif kind == "value":
            m, oblk, sv, evv = extra
            ctx.violated("R11.2", f, "arm=%s,operand=%s.value" % (v, x), b.line_at((blk, 10 ** 6)),
                         "sort translator, arm %s: the sorted buffer gets `%s` through buffer.%s(..) but the emitted %s carries `%s`: the adapter's buffer and the consumer's view hold different items at that position, and later comparisons (insertions, sets) are made against the stale one" % (v, sv, m, x, evv))
        else:
            m, oblk, oi, pi = extra
            ctx.violated("R11.2", f, "arm=%s,operand=%s.index" % (v, x), b.line_at((blk, 10 ** 6)),
                         "sort translator, arm %s: buffer.%s(%s, ..) but the emitted %s carries index `%s`" % (v, m, oi, x, pi))
    left = [q for q in finals if q and q != "OVER"]
    if left:
        bad = True
        q = sorted(left, key=len)[-1]
        ctx.violated("R11.2", f, "arm=%s,unmirrored-op=%s" % (v, q[0][0]), b.line_at((q[0][1], 10 ** 6)),
                     "sort translator, arm %s: the buffer mutation `%s` is not followed by a diff telling the consumer about it" % (v, q[0][0]))
    if "OVER" in finals:
        ctx.undecided("R11.2", f, "arm=%s" % v, where, "more than %d unmirrored mutations in flight: pairing not decided" % CAP)
    elif not bad:
        ctx.holds("R11.2", f, "arm=%s" % v, where, "every structural mutation of the sorted buffer in arm %s is mirrored, in order, by the diff pushed to the result (%d mutation/push sites)" % (v, len(ev)))


def tag_closures(F, f, b, region):
    """closures created in the region that modify field .0 (the source-index tag) of their item: [(closure fn, sign, guard facts)]"""
    out = []
    for loc, s in b.iter_stmts(sorted(region)):
        if s["k"] == "assign" and s["rv"]["k"] == "agg" and s["rv"]["of"] == "closure":
            c = F.fns.get(f.crate + "::" + s["rv"]["def"])
            if c is None or not c.built:
                continue
            cb = c.built
            for cloc, cs in cb.iter_stmts():
                if cs["k"] == "assign" and cs["place"]["proj"] and last_field(cs["place"]) in ("0",) or (cs["k"] == "assign" and cs["place"]["proj"] == ["deref"] and "&mut usize" in cb.locals[cs["place"]["l"]]["ty"]):
                    e = cb.expr_of_rv(cs["rv"], 8, ())
                    adds = find_all(e, lambda y: y[0] == "bin" and re.match(r"(Add|Sub)", y[1]))
                    if adds and is_const_int(adds[0][3], 1):
                        facts = conds.bare(conds.dominating_facts(cb, cloc[0]))
                        out.append((c, "+" if adds[0][1].startswith("Add") else "-", facts, cloc, loc[0]))
    return out


def tag_shifts_inline(f, b, region):
    """`for (tag, _) in buffered_vector.iter_mut() { if .. { *tag +-= 1 } }` written in the arm itself."""
    out = []
    for loc, s in b.iter_stmts(sorted(region)):
        if s["k"] != "assign" or not s["place"]["proj"]:
            continue
        lf = last_field(s["place"])
        is_tag_place = (lf == "0") or (s["place"]["proj"] == ["deref"] and "&mut usize" in b.locals[s["place"]["l"]]["ty"])
        if not is_tag_place:
            continue
        e = b.expr_of_rv(s["rv"], 8, ())
        adds = find_all(e, lambda y: y[0] == "bin" and re.match(r"(Add|Sub)", y[1]))
        if adds and is_const_int(adds[0][3], 1) and contains(b.expr_of_local(s["place"]["l"]), lambda y: y[0] == "call" and ecall_matches(y, r"::iter_mut$|IterMut|Iterator>?::next$")):
            facts = [x for (ss, tt, x) in conds.dominating_facts(b, loc[0]) if ss in region]
            out.append((f, "+" if adds[0][1].startswith("Add") else "-", facts, loc, loop_entry(b, loc[0])))
    return out


def loop_entry(b, blk):
    """the block through which the innermost loop around blk is entered (executed whenever the loop is reached, even for
    zero iterations); blk itself when it is not in a loop."""
    from .adapters import natural_loops
    inner = None
    for h, blks in natural_loops(b):
        if blk in blks and (inner is None or len(blks) < len(inner[1])):
            inner = (h, blks)
    if inner is None:
        return blk
    h, blks = inner
    outside = [p for p in b.pred[h] if p not in blks and p in b.reachable()]
    return outside[0] if len(outside) == 1 else h


def tags(ctx, f, b, sw, target, v, buf):
    F = ctx.facts
    region = arm_region(b, sw, target)
    tcs = tag_closures(F, f, b, region) + tag_shifts_inline(f, b, region)
    if not tcs:
        # the shift may be written with a named function handed to for_each / a combinator chain: look at the desugared body
        bd = inl(F, f, desugar=True, tag="c11-desugar")
        if bd is not None and diff_switches(bd):
            swd, infod = diff_switches(bd)[0]
            armsd, _ = arm_targets(infod)
            if v in armsd:
                regd = arm_region(bd, swd, armsd[v])
                alt = tag_shifts_inline(f, bd, regd)
                if alt:
                    b, sw, target, region, tcs = bd, swd, armsd[v], regd, alt
    where = b.line_at((target, 0))
    want = {"PushFront": ("+", None), "Insert": ("+", "Ge"), "PopFront": ("-", "any"), "Remove": ("-", "Gt")}
    if v not in want:
        ctx.verdict(not tcs, "R11.4", f, "tag-shift:%s" % v, where, "no source-index tags are shifted for %s" % v,
                    "arm %s shifts source-index tags although a `%s` does not move the remaining items" % (v, v))
        return
    sign, guard = want[v]
    if len(tcs) != 1:
        ctx.violated("R11.4", f, "tag-shift:%s" % v, where, "arm %s shifts the source-index tags %d times (must be exactly once, by %s1)" % (v, len(tcs), sign))
        return
    c, s, facts, cloc, site = tcs[0]
    cb = c.built if c is not f else b
    probs = []
    # the shift accompanies every structural change of the sorted buffer: no path through the arm changes the buffer
    # (inserts / removes an entry) and leaves without having shifted the other entries' tags
    for oblk, ot in b.calls(IMBL, blocks=sorted(region)):
        if imbl_method(ot) in STRUCT and is_buf(b, ot["args"][0], buf) and oblk != site:
            before = oblk in b.reachable_from(target, avoid_blocks=[site])
            after = any(b.term(x)["k"] == "return" for x in b.reachable_from(oblk, avoid_blocks=[site]))
            if before and after:
                probs.append("a path through the arm changes the sorted buffer with `%s` (bb%d) and returns without shifting the tags of the other entries (bb%d is bypassed): their recorded source indices are stale from then on" % (imbl_method(ot), oblk, site))
                break
    if s != sign:
        probs.append("shifts by %s1 instead of %s1" % (s, sign))
    cmps = [x for x in facts if x[0] == "cmp"]
    if guard is None and cmps:
        probs.append("shifts only some tags (a PushFront moves every item)")
    if guard in ("Ge", "Gt"):
        is_tag = lambda e: contains(e, lambda y: y[0] == "param" and y[1] == 2) or (e[0] == "field" and e[2] == "0") or contains(e, lambda y: y[0] == "call" and ecall_matches(y, r"Iterator>?::next$"))
        is_new = lambda e: (contains(e, lambda y: y[0] == "field" and y[1][0] in ("param", "deref") and y[2] not in ("0", "1")) or contains(e, lambda y: y[0] == "field" and y[2] == "index" and y[1][0] == "downcast")) \
            and not contains(e, lambda y: y[0] == "call" and ecall_matches(y, r"Iterator>?::next$"))
        ok = conds.cmp_holds(facts, guard, is_tag, is_new)
        other = "Gt" if guard == "Ge" else "Ge"
        if not ok:
            if conds.cmp_holds(facts, other, is_tag, is_new):
                probs.append("shifts the tags `%s` the changed source index, but a `%s` moves the items whose source index is `%s` it: %s" % (
                    {"Gt": ">", "Ge": ">="}[other], v, {"Gt": ">", "Ge": ">="}[guard],
                    "the item that was at the insertion index keeps its old tag, two entries then claim the same source index" if v == "Insert" else "the removed position's successor is shifted twice / not at all"))
            else:
                # e.g. the selection is made by an iterator adapter (`.filter(..)`) whose predicate is not a branch of this body
                ctx.undecided("R11.4", f, "tag-shift:%s" % v, cb.line_at(cloc), "guard of the shift not recognised as `tag %s index`" % {"Gt": ">", "Ge": ">="}[guard])
                return
    ctx.verdict(not probs, "R11.4", f, "tag-shift:%s" % v, cb.line_at(cloc), "arm %s: tags %s are shifted by %s1" % (v, {"Ge": ">= index", "Gt": "> index", None: "(all)", "any": "of the other items"}[guard], sign),
                "sort translator, arm %s: %s" % (v, "; ".join(probs)))


def r11_3(ctx, f, b, buf):
    n = 0
    for blk, t in b.calls(IMBL):
        if imbl_method(t) != "insert" or not is_buf(b, t["args"][0], buf):
            continue
        n += 1
        e = b.expr_of_op(t["args"][1])
        from_search = contains(e, lambda y: y[0] == "call" and ecall_matches(y, r"::binary_search_by$|::partition_point$|Iterator>?::position$") )
        closed = not contains(e, lambda y: y[0] in ("unknown", "local", "cycle", "undef"))
        where = b.line_at((blk, 10 ** 6))
        if from_search:
            # the search closure calls the caller's comparison
            ctx.holds("R11.3", f, "insert-position-from-comparison", where, "insert position = %s" % fmt(e, 4))
        elif closed:
            ctx.violated("R11.3", f, "insert-position-from-comparison", where,
                         "the sorted buffer is inserted into at `%s`, which does not derive from a search with the comparison: the view is no longer ordered" % fmt(e, 4))
        else:
            ctx.undecided("R11.3", f, "insert-position-from-comparison", where, "slice not closed: %s" % fmt(e, 4))
    ctx.floor("R11.3", n, 5)


def new_tag(ctx, f, b, sw, target, v, buf):
    """R11.4b: the source-index tag stored with a newly inserted element."""
    if v not in ("PushFront", "PushBack", "Insert", "Set"):
        return
    region = arm_region(b, sw, target)
    ev = arm_events(b, region, buf)
    n = 0
    for blk, (kind, m, t) in sorted(ev.items()):
        if kind != "op" or m not in ("push_front", "push_back", "insert", "set"):
            continue
        val = b.expr_of_op(t["args"][-1])
        x = strip(val, through_calls=False)
        if not (x[0] == "agg" and x[1] == "tuple" and len(x[5]) == 2):
            ctx.undecided("R11.4b", f, "new-tag:%s" % v, b.line_at((blk, 10 ** 6)), "stored element is not a (tag, value) tuple literal: %s" % fmt(val, 3))
            continue
        tag = x[5][0]
        tg = strip(tag, through_calls=False)
        n += 1
        if v == "PushFront":
            ok = tg[0] == "const" and tg[3] == 0
            want = "0"
        elif v == "PushBack":
            ok = tg[0] == "call" and ecall_matches(tg, r"::len$") and strip(tg[3][0])[0] == "param" and strip(tg[3][0])[1] == buf
            # the length must be read before the buffer is mutated in this arm
            if ok:
                ok = all(b.loc_dominates(tg[4], (ob, 10 ** 6)) and tg[4][0] != ob for ob, (k2, m2, t2) in ev.items() if k2 == "op")
            want = "the buffer length before the push"
        else:
            ok = tg[0] == "field" and tg[2] == "index" and tg[1][0] == "downcast" and tg[1][2] == v
            want = "the incoming diff's index"
        from ..facts import has_arith
        ok = ok and not has_arith(tag)
        ctx.verdict(ok, "R11.4b", f, "new-tag:%s" % v, b.line_at((blk, 10 ** 6)), "arm %s stores the new element with tag %s" % (v, want),
                    "sort translator, arm %s: the new element is stored with source-index tag `%s`, which must be %s: later index-addressed diffs (Set/Remove/PopBack) would pick the wrong element" % (v, fmt(tag, 4), want))


def locate_by_tag(ctx, f, b, sw, target, v, buf):
    """R11.7: the element a Pop*/Remove/Set concerns is located by equality of its tag with the right source index."""
    if v not in ("PopFront", "PopBack", "Remove", "Set"):
        return
    F = ctx.facts
    region = arm_region(b, sw, target)
    eqs = []
    def scan(body, blocks, owner):
        for loc, s_ in body.iter_stmts(blocks):
            if s_["k"] == "assign" and s_["rv"]["k"] == "bin" and s_["rv"]["op"] == "Eq":
                l, r = body.expr_of_op(s_["rv"]["l"]), body.expr_of_op(s_["rv"]["r"])
                eqs.append((owner, loc, l, r))
    scan(b, sorted(region), f)
    for loc, s_ in b.iter_stmts(sorted(region)):
        if s_["k"] == "assign" and s_["rv"]["k"] == "agg" and s_["rv"]["of"] == "closure":
            c = F.fns.get(f.crate + "::" + s_["rv"]["def"])
            if c is not None and c.built:
                scan(c.built, None, c)
    # equalities that compare a tag (field .0 of an item / deref of the tag reference) with something
    def is_tag(e):
        return contains(e, lambda y: y[0] == "field" and y[2] == "0" and y[1][0] not in ("downcast", "bin", "call"))
    cands = [(o, loc, l, r) for o, loc, l, r in eqs if (is_tag(l) != is_tag(r))]
    if not cands:
        ctx.undecided("R11.7", f, "locate:%s" % v, b.line_at((target, 0)), "no tag equality found in arm %s" % v)
        return
    for o, loc, l, r in cands:
        other = r if is_tag(l) else l
        x = strip(other, through_calls=False)
        if v == "PopFront":
            ok = x[0] == "const" and x[3] == 0
            want = "0"
        elif v == "PopBack":
            # last_index = len - 1 (captured variable in a closure, or the local itself)
            ok = (x[0] == "field" and "last" in x[2]) or contains(other, lambda y: y[0] == "call" and ecall_matches(y, r"::len$"))
            want = "len - 1"
        else:
            ok = (x[0] == "field" and ("index" in x[2])) or (x[0] == "field" and x[1][0] == "downcast")
            want = "the incoming diff's index"
        if x[0] in ("const",) and v != "PopFront":
            ok = False
        ctx.verdict(True if ok else (False if x[0] == "const" else None), "R11.7", f, "locate:%s" % v, o.built.line_at(loc), "arm %s locates its element by tag == %s" % (v, want),
                    "sort translator, arm %s: the element is located by tag == `%s` instead of %s" % (v, fmt(other, 3), want))


def r11_12(ctx, f, b, sw, arms):
    """scratch collections carry nothing from one diff to the next.  A `&mut Vec` (VecDeque, SmallVec ..) the translator is handed
    besides the sorted buffer is working space: an arm that fills it with the incoming items and then moves *everything* out of it
    (drain(..), mem::take) treats it as empty on entry. That is only true if every arm that puts items into it also empties it
    before it ends - or if the draining arm clears it first. One arm that leaves its items behind (clear on entry, iterate, no
    drain) next to one that drains without clearing re-inserts the first arm's items with the next diff."""
    cols = [i for i in range(1, b.arg_count + 1) if re.search(r"^&mut (std::vec::Vec|std::collections::VecDeque|smallvec::SmallVec|arrayvec::ArrayVec)<", str(b.locals[i]["ty"]))
            and "VectorDiff<" not in str(b.locals[i]["ty"])]
    n = 0
    for p_ in cols:
        def on_p(t):
            return bool(t["args"]) and contains(b.expr_of_op(t["args"][0]), lambda y: y[0] == "param" and y[1] == p_)
        grow = {blk for blk, t in b.calls(r"::(extend|push|push_back|push_front|append|insert|extend_from_slice)$") if on_p(t)}
        def full_range(t):
            return len(t["args"]) < 2 or "RangeFull" in str(fmt(b.expr_of_op(t["args"][1]), 3)) or "RangeFull" in str((t.get("extra") or {}).get("full"))
        drains = {blk for blk, t in b.calls(r"::drain$") if on_p(t) and full_range(t)} | {blk for blk, t in b.calls(r"^std::mem::take$") if on_p(t)}
        clears = {blk for blk, t in b.calls(r"::clear$") if on_p(t)}
        empties = drains | clears
        scratch_arms, leaky_arms = [], []
        for v, tgt in sorted(arms.items()):
            region = arm_region(b, sw, tgt)
            g = sorted(grow & region)
            if not g:
                continue
            entry_clear = all(gb not in b.reachable_from(tgt, avoid_blocks=sorted(empties & region)) for gb in g) and tgt not in g
            rets = set(b.return_blocks())
            exit_empty = all(not (b.reachable_from(gb, avoid_blocks=sorted((empties & region) - {gb})) & rets) for gb in g)
            drains_after = any(d in b.reachable_from(gb) for gb in g for d in drains & region)
            if drains_after and not entry_clear:
                scratch_arms.append(v)
            if not exit_empty:
                leaky_arms.append(v)
        if not (scratch_arms or leaky_arms) and not grow:
            continue
        n += 1
        nm = b.locals[p_].get("name") or "_%d" % p_
        bad = bool(scratch_arms) and bool(leaky_arms)
        ctx.verdict(not bad, "R11.12", f, "scratch-empty-between-diffs:%s" % nm, f.loc(), "every arm that fills `%s` empties it again, or the arms that drain it clear it first" % nm,
                    "sort translator: the %s arm fills the working vector `%s` and moves everything out of it again (drain(..)), so it relies on `%s` being empty when the arm starts; the %s arm puts items into it and leaves them "
                    "there. The first %s after a %s therefore re-inserts all items of the earlier diff: every earlier item appears twice in the sorted view and the source-index tags are duplicated" % (
                        " / ".join(scratch_arms), nm, nm, " / ".join(leaky_arms), scratch_arms[0] if scratch_arms else "?", leaky_arms[0] if leaky_arms else "?"))
    return n


def bulk_tags(ctx, f, sw, arms, buf):
    """R11.4c: source-index tags given to whole vectors (constructor, Reset, Append): enumerate() runs over the items in SOURCE order
    (before any sorting), without offset for the constructor and Reset, with offset = buffer length before the append for Append."""
    F = ctx.facts
    sites = []
    tb = inl(F, f)  # helpers shared between the Append and Reset arms are inlined
    sws = diff_switches(tb)
    if sws:
        sw2, info2 = sws[0]
        arms2, _ = arm_targets(info2)
        for v in ("Reset", "Append"):
            if v in arms2:
                sites.append((v, f, tb, arm_region(tb, sw2, arms2[v])))
    ctor = [g for g in F.find(crate=UT, name="new") if g.path.startswith("vector::sort::SortImpl::")]
    for g in ctor:
        gb = inl(F, g)
        sites.append(("new", g, gb, set(gb.reachable())))
    n = 0
    for what, g, gb, region in sites:
        enums = [(blk, t) for blk, t in gb.calls(r"Iterator>?::enumerate$", blocks=sorted(region))]
        if not enums:
            ctx.undecided("R11.4c", g, "bulk-tags:%s" % what, g.loc(), "no enumerate() found: tagging idiom not recognised")
            continue
        for blk, t in enums:
            n += 1
            where = gb.line_at((blk, 10 ** 6))
            src = gb.expr_of_op(t["args"][0])
            x = strip(src, through_calls=False)
            probs = []
            # (1) source order: the enumerated iterator comes from the incoming vector, which has not been sorted before
            base = None
            # order-preserving adapters between the vector and enumerate() do not matter
            while x[0] == "call" and ecall_matches(x, r"Iterator>?::(cloned|copied|by_ref|peekable|fuse)$") and x[3]:
                x = strip(x[3][0], through_calls=False)
            if x[0] == "call" and ecall_matches(x, r"IntoIterator>?::into_iter$|::iter$|::into_iter$") and x[3]:
                base = strip(x[3][0])
            incoming = base is not None and (base[0] == "param" or (base[0] == "field" and base[1][0] == "downcast"))
            if base is not None and not incoming:
                # a plain copy of the incoming vector (`incoming.into_iter().collect::<Vec<_>>()`) is the incoming vector in the same order
                y = strip(base, through_calls=False)
                if y[0] == "call" and ecall_matches(y, r"Iterator>?::collect$|FromIterator>?::from_iter$|::from$") and y[3]:
                    z = strip(y[3][0], through_calls=False)
                    while z[0] == "call" and ecall_matches(z, r"Iterator>?::(cloned|copied|by_ref)$") and z[3]:
                        z = strip(z[3][0], through_calls=False)
                    if z[0] == "call" and ecall_matches(z, r"IntoIterator>?::into_iter$|::iter$|::into_iter$") and z[3]:
                        z0 = strip(z[3][0])
                        if z0[0] == "param" or (z0[0] == "field" and z0[1][0] == "downcast"):
                            incoming = True
            if base is None:
                ctx.undecided("R11.4c", g, "bulk-tags:%s" % what, where, "enumerate over `%s`" % fmt(src, 3))
                continue
            if not incoming:
                probs.append("enumerate() runs over `%s`, not over the incoming vector in source order" % fmt(base, 3))
            def same_vec(a_, b_):
                if a_ == b_:
                    return True
                la = {c_[4] for c_ in find_all(a_, lambda y: y[0] == "call" and ecall_matches(y, r"Iterator>?::collect$|FromIterator>?::from_iter$")) if c_[4]}
                lb = {c_[4] for c_ in find_all(b_, lambda y: y[0] == "call" and ecall_matches(y, r"Iterator>?::collect$|FromIterator>?::from_iter$")) if c_[4]}
                return bool(la & lb)
            sorts = [sb for sb, st in gb.calls(r"::(sort|sort_by|sort_by_key|sort_unstable\w*|sort_by_cached_key)$") if gb.dominates(sb, blk) and sb != blk
                     and same_vec(strip(gb.expr_of_op(st["args"][0])), base)]
            if sorts:
                probs.append("the vector is sorted (bb%d) before its items are numbered: the tags are sorted positions, not source indices" % sorts[0])
            # (2) offset added to the enumerate index
            offs = []
            for mb, mt in gb.calls(r"Iterator>?::map$", blocks=sorted(region)):
                if contains(gb.expr_of_op(mt["args"][0]), lambda y: y[0] == "call" and y[4] == (blk, len(gb.blocks[blk]["stmts"]))):
                    cl = gb.expr_of_op(mt["args"][1])
                    for c_ in find_all(cl, lambda y: y[0] == "agg" and y[1] == "closure"):
                        cf = F.fns.get(g.crate + "::" + c_[2])
                        if cf is not None and cf.built and contains(cf.built.expr_of_local(0), lambda y: y[0] == "bin" and y[1].startswith("Add")):
                            offs += list(c_[5])
            if not offs:
                # the loop form: `for (i, v) in it.enumerate() { out.push((i + offset, v)) }`
                eloc = (blk, len(gb.blocks[blk]["stmts"]))
                for loc_, s_ in gb.iter_stmts(sorted(region)):
                    if s_["k"] == "assign" and s_["rv"]["k"] == "bin" and str(s_["rv"]["op"]).startswith("Add"):
                        l_, r_ = gb.expr_of_op(s_["rv"]["l"]), gb.expr_of_op(s_["rv"]["r"])
                        from_enum = lambda e_: contains(e_, lambda y: y[0] == "call" and y[4] == eloc)
                        if from_enum(l_) and not from_enum(r_):
                            offs.append(r_)
                        elif from_enum(r_) and not from_enum(l_):
                            offs.append(l_)
            if what in ("new", "Reset"):
                nz = [o for o in offs if not is_const_int(o, 0)]
                if nz:
                    probs.append("the tags are shifted by `%s`; a %s numbers the items from 0" % (fmt(nz[0], 3), "Reset" if what == "Reset" else "fresh adapter"))
            else:
                ok = any(contains(o, lambda y: y[0] == "call" and ecall_matches(y, r"::len$") and strip(y[3][0])[0] == "param" and strip(y[3][0])[1] == buf) for o in offs)
                if not ok:
                    probs.append("appended items are not tagged with `buffer length + position`")
            ctx.verdict(not probs, "R11.4c", g, "bulk-tags:%s" % what, where, "%s: items are numbered in source order%s" % (what, ", offset by the previous length" if what == "Append" else " from 0"),
                        "sort adapter, %s: %s: later index-addressed source diffs (Set/Remove/Pop*) would locate the wrong element" % (what, "; ".join(probs)))
    ctx.floor("R11.4c", n, 3)
    # R11.5: the initial values handed out are the values of the very buffer the adapter keeps (same sorted order)
    for g in ctor:
        gb = inl(F, g)
        for loc, kind, payload in blocks_assigning_ret(gb):
            if kind == "assign" and payload["k"] == "agg" and payload["of"] == "tuple" and len(payload["ops"]) == 2:
                vals = gb.expr_of_op(payload["ops"][0])
                impl = strip(gb.expr_of_op(payload["ops"][1]), through_calls=False)
                buf_op = None
                if impl[0] == "agg" and "buffered_vector" in impl[4]:
                    buf_expr = impl[5][impl[4].index("buffered_vector")]
                    # both derive from the same collect(enumerate(..)) call site
                    srcs = [x[4] for x in find_all(buf_expr, lambda y: y[0] == "call" and ecall_matches(y, r"Iterator>?::collect$"))]
                    same = any(contains(vals, lambda y, l=l: y[0] == "call" and y[4] == l) for l in srcs)
                    if not same:
                        # a buffer that does not depend on the given values at all (`Vector::new()`) next to returned values that do:
                        # right only where the given vector is known to be empty
                        be = strip(buf_expr, through_calls=False)
                        fresh = be[0] == "call" and ecall_matches(be, r"GenericVector::<.*>::new$|Default>?::default$|::new$") and not contains(buf_expr, lambda y: y[0] == "param")
                        dep = contains(vals, lambda y: y[0] == "param")
                        if fresh and dep:
                            facts = conds.bare(conds.dominating_facts(gb, loc[0]))
                            known_empty = any(fc[0] == "truth" and fc[2] is True and fc[1][0] == "call" and ecall_matches(fc[1], r"::is_empty$") and contains(fc[1], lambda y: y[0] == "param") for fc in facts) or \
                                conds.cmp_holds(conds.dominating_facts(gb, loc[0]), "Eq", lambda e_: contains(e_, lambda y: y[0] == "call" and ecall_matches(y, r"::len$")), lambda e_: is_const_int(e_, 0))
                            if not known_empty:
                                ctx.violated("R11.5", g, "initial-values=buffer-order", gb.line_at(loc),
                                             "`%s` hands out the given values but starts its sorted buffer empty on a path where the given vector need not be empty (e.g. exactly one initial item): every later diff is translated against a buffer that lacks those items - "
                                             "positions are off, and a Set / Remove addressing one of them does not find its tag" % g.path)
                                continue
                    ctx.verdict(True if same else None, "R11.5", g, "initial-values=buffer-order", gb.line_at(loc), "the returned initial values are read from the sorted buffer the adapter keeps")


def r11_8(ctx, f, b, buf):
    """inside a loop that changes the sorted buffer, a position found in the *current* buffer (binary search, partition
    point, position) is never compared with a length of the buffer that was read before the loop: after the first insertion
    that length is stale and the end-of-buffer test misfires (items are then appended behind greater ones)."""
    from .adapters import natural_loops
    n = 0
    for h, blks in natural_loops(b):
        muts = [blk for blk in blks if b.term(blk)["k"] == "call" and imbl_method(b.term(blk)) in STRUCT and is_buf(b, b.term(blk)["args"][0], buf)]
        if not muts:
            continue
        for sblk in sorted(blks):
            info = conds.switch_info(b, sblk)
            if not info:
                continue
            for t_, fs in info["edges"].items():
                for fct in fs:
                    if fct[0] != "cmp":
                        continue
                    for pos, ln in ((fct[2], fct[3]), (fct[3], fct[2])):
                        is_pos = contains(pos, lambda y: y[0] == "call" and ecall_matches(y, r"::binary_search_by$|::partition_point$|Iterator>?::position$"))
                        x = strip(ln, through_calls=False)
                        if not is_pos or not (x[0] == "call" and ecall_matches(x, r"GenericVector::<.*>::len$") and x[3] and is_buf_expr(x[3][0], buf)):
                            continue
                        n += 1
                        stale = x[4] is not None and x[4][0] not in blks
                        ctx.verdict(not stale, "R11.8", f, "position-vs-current-length", b.line_at((sblk, 10 ** 6)),
                                    "the length compared with the searched position is read inside the loop (bb%s)" % (x[4][0] if x[4] else "?"),
                                    "sort translator: inside the loop that inserts into the sorted buffer (bb%s) a position found in the current buffer is compared with `len()` read before the loop (bb%s): after the first insertion that length is stale, so a valid position equal to the old length is treated as the end of the buffer" % (muts[0], x[4][0] if x[4] else "?"))
    if not n:
        ctx.undecided("R11.8", f, "position-vs-current-length", f.loc(), "no loop compares a searched position with the buffer's length")


def is_buf_expr(e, buf):
    x = strip(e)
    return x[0] == "param" and x[1] == buf



SEARCH = r"::binary_search_by$|::binary_search_by_key$|::binary_search$|::partition_point$|Iterator>?::(position|rposition|fold|try_fold|find|find_map|enumerate)$"


def r11_9(ctx, f, b, buf):
    """positions in the sorted buffer are sorted positions: an element access / removal / replacement of the buffer whose position
    is a diff's own `index` payload (an index into the SOURCE order) touches an unrelated element."""
    n = 0
    for blk, t in b.calls(IMBL):
        m = imbl_method(t)
        if m not in ("get", "get_mut", "index", "index_mut", "remove", "set", "insert", "split_at", "split_off", "truncate", "take", "skip", "slice") or len(t["args"]) < 2:
            continue
        if not is_buf(b, t["args"][0], buf):
            continue
        n += 1
        e = b.expr_of_op(t["args"][1])
        where = b.line_at((blk, 10 ** 6))
        src = contains(e, lambda y: y[0] == "field" and y[2] in ("index", "length") and contains(y[1], lambda z: z[0] == "param" and z[1] == 1))
        searched = contains(e, lambda y: y[0] == "call" and ecall_matches(y, SEARCH))
        if src and not searched:
            ctx.violated("R11.9", f, "position-is-sorted-position:%s" % m, where,
                         "`%s` on the sorted buffer is positioned by `%s`, a position in the source order: the sorted buffer holds the items in comparison order, so this reads / changes an unrelated item" % (m, fmt(e, 4)))
        else:
            ctx.holds("R11.9", f, "position-is-sorted-position:%s" % m, where, "position = %s" % fmt(e, 3))
    ctx.floor("R11.9", n, 8)



def r11_10(ctx, f):
    """a searched position that is then advanced over a run of items (`.skip(i).take_while(pred).count()`, a while loop over the
    buffer) may only walk over items that are NOT greater than the new value: walking while `compare(item, new).is_ge()` passes
    every greater item and puts the new value at the end of the buffer. The predicate's polarity is read off the closure:
    Ordering::is_{eq,le,lt} for compare(item, new), is_{eq,ge,gt} for compare(new, item)."""
    F = ctx.facts
    n = 0
    work = [f]
    seen = set()
    while work:
        g = work.pop()
        if g.key in seen or not g.built:
            continue
        seen.add(g.key)
        work.extend(F.children.get(g.key, []))
        b = g.built
        for blk, t in b.calls(r"Iterator>?::(take_while|skip_while)$"):
            recv = b.expr_of_op(t["args"][0])
            if not contains(recv, lambda y: y[0] == "call" and ecall_matches(y, r"GenericVector::<.*>::(iter|iter_mut)$|Iterator>?::skip$")):
                continue
            cl = [F.fns.get(g.crate + "::" + d_) for d_ in (t.get("garg_defs") or []) if d_]
            cl = [c for c in cl if c is not None and c.built]
            if not cl:
                continue
            cb = cl[0].built
            tests = cb.calls(r"^std::cmp::Ordering::is_(eq|ne|lt|le|gt|ge)$")
            if len(tests) != 1:
                continue
            tb, tt = tests[0]
            pol = (tt.get("callee") or "").split("::is_")[-1]
            e = cb.expr_of_op(tt["args"][0])
            calls = find_all(e, lambda y: y[0] == "call" and ecall_matches(y, r"ops::Fn(Mut|Once)?(<.*>>?)?::call(_mut|_once)?$"))
            if not calls or len(calls[0][3]) < 2:
                continue
            tup = strip(calls[0][3][1], through_calls=False)
            if tup[0] != "agg" or len(tup[5]) != 2:
                continue
            first_is_item = contains(tup[5][0], lambda y: y[0] == "param" and y[1] == 2)
            second_is_item = contains(tup[5][1], lambda y: y[0] == "param" and y[1] == 2)
            if first_is_item == second_is_item:
                continue
            n += 1
            ok_set = ("eq", "le", "lt") if first_is_item else ("eq", "ge", "gt")
            which = (t.get("callee") or "").split("::")[-1]
            ok = pol in ok_set if which == "take_while" else True
            ctx.verdict(ok, "R11.10", root_fn(F, g), "run-walk-polarity", b.line_at((blk, 10 ** 6)), "the run walked after the search consists of items not greater than the new value (is_%s)" % pol,
                        "after the binary search the position is advanced while `compare(%s).is_%s()`: that predicate holds for every item greater than the new value, so the value is placed behind all of them - the sorted buffer (and the view) is no longer ordered when a tie is hit" % (
                            "item, new" if first_is_item else "new, item", pol))
    if not n:
        ctx.holds("R11.10", f, "run-walk-polarity", f.loc(), "no searched position is advanced over a run of items")
