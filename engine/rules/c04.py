"""C04 — concurrent use of a SharedObservable is linearizable (decided part: the lock discipline)."""
import re
from ..facts import strip, ecall_matches, contains, find_all, fmt, mentions_field, mentions_call
from .. import conds
from .common import *
from .c01 import logical_bodies, SETTERS

WITNESSES = ["W04", "W03"]

CRATES = (EY,)

META = {
    "explanation": (
        "Static decision of the lock discipline that makes the RwLock the linearization device (MIR, sync and async flavours): R04.1 every public "
        "writer of SharedObservable performs exactly one acquisition on self.state, an exclusive one, and the single ObservableState method call "
        "(the whole read-modify-notify) is made through that guard - read-then-write splits are flagged; R04.2 the read/write guard types consist of "
        "exactly the lock's guard, and every function returning them builds them from an acquisition result; R04.3 next_now/next_ref_now read the "
        "version and the value through one guard; R04.4 the unique Observable's setters take &mut Self (+ compile_fail witnesses: set while a &T "
        "borrowed through get is alive is rejected; a write guard keeps the observable borrowed). Linearizability of the lock itself is trusted."),
    "trusted_base": ["std::sync::RwLock / tokio::sync::RwLock are linearizable reader-writer locks", "rustc borrow checker", "rustc MIR construction"],
    "assumptions": [],
}
META["explanation"] += ' R04.1 counts acquisitions made in private helpers of the wrapper as its own (virtual inlining); R01.1 (every mutable borrow of the value reaches the version bump in the same function) is evaluated here too: a value written in one critical section and the version bumped in another is visible with the old version.'
META["explanation"] += ' R04.5 no acquisition of the state lock while a kept guard of it is alive (writer-fair RwLocks: a recursive read lock deadlocks with a queued writer); metadata-lock acquisitions are nested by design and not counted; for the async flavour creating a lock future is not an acquisition, polling / awaiting it is.'
META["explanation"] += ' Shared with C01: R01.13 and R01.14 (a conditional setter deciding on a stale derivation of the value returns a result no sequential order explains).'
META["explanation"] += ' R04.5 also sees acquisitions made inside closures handed to combinators (`poll.map(|r| r.map(|_| self.read()))`) while a guard is alive in the enclosing body.'
META["explanation"] += ' Also evaluated: the unsafe inventory R20.1 and R20.5 marker-impl-bound (an `unsafe impl Sync` for the state would let two read guards race).'
META["explanation"] += ' Shared: the leaf ready clause R01.4 / R01.4b (a value is handed out exactly for observed < current).'

ACQ = r"^(std::sync::RwLock|tokio::sync::RwLock)::<.*>::(write|read|try_write|try_read|blocking_write|blocking_read|write_owned|read_owned)$"
EXCL = r"::(write|try_write|blocking_write|write_owned)$"
SUB_ACQ = r"SharedReadLock::<.*>::(lock|try_lock|lock_owned)$"


def run(ctx):
    F = ctx.facts
    r04_1(ctx)
    r04_2(ctx)
    r04_3(ctx)
    r04_4(ctx)
    r04_5(ctx)
    # "each subscriber observes values in that order ... and ends on the final value": needs the version protocol and no lost wake-up
    from . import c01, groups
    closes = find_close_fn(F)
    notify = find_notify_fn(F)
    if len(closes) == 1 and notify:
        nset = c01.NotifySet(notify)
        c01.r01_1(ctx, nset)   # a value written without the version bump in the same step is visible with the old version
        init = c01.r01_5(ctx, nset, closes[0], closes[0][2])
        c01.r01_6(ctx, init)
        c01.r01_7(ctx, init)
        c01.r01_13(ctx, nset)
        c01.r01_14(ctx)
        from . import leaf
        leaf.check_ready_clause(ctx, "R01.4")   # a value is handed out exactly for observed < current (not `!=`, which is also true after close)   # a conditional setter deciding on a stale cache returns a result no sequential order explains
    groups.eyeball_close_and_wake(ctx)
    # the sequential order is an argument about safe Rust: every hand-written `unsafe impl Send / Sync` of the crate is in the audited
    # inventory and its bounds cover what it stores (an `unsafe impl Sync` for the state would let two read guards race on a Cell)
    from . import c20, autotrait
    c20.r20_1(ctx)
    autotrait.check_unsafe_marker_impls(ctx, "R20.5")


GUARD_TY = r"(SharedReadGuard|OwnedSharedReadGuard|RwLockReadGuard|RwLockWriteGuard|OwnedRwLockReadGuard|OwnedRwLockWriteGuard|ObservableReadGuard|ObservableWriteGuard)<"


def r04_1(ctx):
    F = ctx.facts
    n = 0
    sfns = state_fns(F)
    for f in F.find(crate=EY):
        st = f.raw.get("self_ty") or ""
        if f.vis != "pub" or f.raw.get("impl_trait") or not st.startswith("shared::SharedObservable<"):
            continue
        if f.name not in SETTERS and f.name != "take":
            continue
        bodies = logical_bodies(F, f)
        if not bodies or not bodies[0].built:
            continue
        main = bodies[0]
        b = inl(F, main, *sfns) or main.built   # acquisitions made in private helpers of the wrapper count as its own
        n += 1
        acqs = []
        for lb in bodies:
            lbb = b if lb is main else lb.built
            if lbb:
                acqs += [(lb, blk, t) for blk, t in lbb.calls(ACQ)]
        ctx.call_sites += len(acqs)
        if f.name == "take":
            sets = [(blk, t) for blk, t in b.calls() if F.local_callee(main, t) is not None and F.local_callee(main, t).name == "set"
                    and (F.local_callee(main, t).raw.get("self_ty") or "") == st]
            if sets or not acqs:
                ok = len(sets) == 1 and not acqs
                ctx.verdict(ok, "R04.1", f, "one-critical-section", f.loc(), "take delegates to a single call of Self::set and takes no lock itself",
                            "take performs %d lock acquisition(s) of its own and %d call(s) of set: not one atomic step" % (len(acqs), len(sets)))
                continue
            # take written against the state directly: judged like every other writer below
        on_state = [(lb, blk, t) for lb, blk, t in acqs if mentions_field((b if lb is main else lb.built).expr_of_op(t["args"][0]), "state")]
        scalls = [(blk, t) for blk, t in b.calls() if F.local_callee(main, t) in sfns]
        where = b.line_at((on_state[0][1], 10 ** 6)) if on_state and on_state[0][0] is main else f.loc()
        if len(on_state) != 1:
            ctx.violated("R04.1", f, "one-critical-section", where,
                         "`%s` acquires the state lock %d times (%s): its read-modify-notify is not one atomic step - a concurrent writer can interleave between the sections" % (
                             f.path, len(on_state), ", ".join(t["callee"].split("::")[-1] for _, _, t in on_state)))
            continue
        lb, ablk, at = on_state[0]
        if not re.search(EXCL, at["callee"]):
            ctx.violated("R04.1", f, "one-critical-section", where, "`%s` modifies the state under a shared (read) acquisition" % f.path)
            continue
        if len(scalls) != 1:
            ctx.violated("R04.1", f, "one-critical-section", where, "`%s` calls %d state methods (%s) instead of one" % (f.path, len(scalls), [F.local_callee(main, t).name for _, t in scalls]))
            continue
        sblk, stt = scalls[0]
        recv = b.expr_of_op(stt["args"][0])
        aloc = (ablk, len(b.blocks[ablk]["stmts"]))
        via = contains(recv, lambda x: x[0] == "call" and x[4] == aloc)
        ctx.verdict(via, "R04.1", f, "one-critical-section", where,
                    "single exclusive acquisition `%s` (bb%d); the one state call `%s` (bb%d) goes through that guard" % (at["callee"].split("::")[-1], ablk, F.local_callee(main, stt).name, sblk),
                    "the state method is not called through the guard obtained by the acquisition")
    ctx.floor("R04.1", n, 6 if not ctx.has_async else 12)


def r04_2(ctx):
    F = ctx.facts
    for path, want in (("read_guard::ObservableReadGuard", "SharedReadGuard"), ("shared::ObservableWriteGuard", "RwLockWriteGuard")):
        a = F.adt(EY, path)
        if not a:
            ctx.missing("R04.2", path)
            continue
        fields = a["variants"][0]["fields"]
        ok = len(fields) == 1 and want in fields[0]["ty"]
        ctx.verdict(ok, "R04.2", None, "guard-type:" + path, "%s:%d" % (a["span"]["file"], a["span"]["line"]),
                    "%s has exactly one field `%s: %s` (the lock's own guard)" % (path, fields[0]["name"], fields[0]["ty"]) if fields else "",
                    "%s no longer consists of exactly the lock guard (fields: %s): holding it does not keep the lock" % (path, [(x["name"], x["ty"]) for x in fields]))
    # constructions come from an acquisition
    n = 0
    for f in F.find(crate=EY):
        b = f.built
        if not b:
            continue
        for blk, t in b.calls(r"ObservableReadGuard::<.*>::new$|ObservableWriteGuard::<.*>::new$"):
            c = F.local_callee(f, t)
            if c is None or c.name != "new":
                continue
            n += 1
            e = b.expr_of_op(t["args"][0])
            ok = contains(e, lambda x: (x[0] == "call" and isinstance(x[1], str) and (re.search(ACQ, x[1]) or re.search(SUB_ACQ, x[1]) or re.search(r"PoisonError::<.*>::into_inner$", x[1])))
                          or x[0] in ("param",) or (x[0] == "field" and x[1][0] == "param"))
            ctx.verdict(True if ok else None, "R04.2", root_fn(F, f), "guard-from-acquisition", b.line_at((blk, 10 ** 6)), "guard built from %s" % fmt(e, 4))
    ctx.floor("R04.2", n, 4)


def r04_3(ctx):
    F = ctx.facts
    n = 0
    for f in F.find(crate=EY):
        st = f.raw.get("self_ty") or ""
        if not st.startswith("subscriber::Subscriber<") or f.name not in ("next_now", "next_ref_now"):
            continue
        bodies = logical_bodies(F, f)
        main = bodies[0]
        b = inl(F, main)
        acq = b.calls(SUB_ACQ)
        n += 1
        where = b.line_at((acq[0][0], 10 ** 6)) if acq else f.loc()
        if len(acq) != 1:
            # the acquisition may live in a private (async) helper of the same type that hands the guard back: judged on
            # the union of the bodies - exactly one acquisition in total, the version read and the value read both present
            from .c01 import effective_bodies
            eb = [x for x in effective_bodies(F, f) if x.built]
            if len(eb) > len([x for x in bodies if x.built]):
                tot_acq = sum(len(inl(F, x).calls(SUB_ACQ)) for x in eb)
                vers_ = sum(len(inl(F, x).calls(r"ObservableState::<.*>::version$")) for x in eb)
                vals_ = sum(len(inl(F, x).calls(r"ObservableState::<.*>::get$|ObservableReadGuard::<.*>::new$")) for x in eb)
                pubs_ = [t for x in eb for blk, t in x.built.calls() if F.local_callee(x, t) is not None and root_fn(F, F.local_callee(x, t)).vis == "pub"
                         and (root_fn(F, F.local_callee(x, t)).raw.get("self_ty") or "").startswith("subscriber::Subscriber<") and root_fn(F, F.local_callee(x, t)).name in ("get", "read", "next_now", "next_ref_now")]
                if tot_acq == 1 and vers_ >= 1 and vals_ >= 1 and not pubs_:
                    ctx.holds("R04.3", f, "value+version-under-one-guard", where, "one acquisition in a private helper that hands the guard back; version and value are read through it")
                    continue
            # pure delegation: no acquisition of its own, exactly one call of the sibling that returns value + marks under one guard
            # (judged on its own), nothing else of the subscriber API
            sib = [F.local_callee(main, t) for blk, t in b.calls() if F.local_callee(main, t) is not None
                   and (root_fn(F, F.local_callee(main, t)).raw.get("self_ty") or "").startswith("subscriber::Subscriber<") and root_fn(F, F.local_callee(main, t)) is not f]
            sib_roots = [root_fn(F, c) for c in sib]
            sib_roots = list({r_.key: r_ for r_ in sib_roots}.values())
            if not acq and len(sib_roots) == 1 and sib_roots[0].name in ("next_ref_now", "next_now") and sib_roots[0].vis == "pub":
                ctx.holds("R04.3", f, "value+version-under-one-guard", where, "delegates to `%s`, which reads value and version under one guard" % sib_roots[0].name)
                continue
            # count acquisitions in callees (get()/read()) too
            extra = [t for blk, t in b.calls() if F.local_callee(main, t) is not None and F.local_callee(main, t).name in ("get", "read", "next_ref_now", "next_now")]
            ctx.violated("R04.3", f, "value+version-under-one-guard", where,
                         "`%s` takes the read lock %d times%s: the value it returns and the version it marks as observed can belong to different updates (a write in between is then never reported)" % (
                             f.path, len(acq), " plus calls to %s" % [F.local_callee(main, t).name for t in extra] if extra else ""))
            continue
        ablk, at = acq[0]
        aloc = (ablk, len(b.blocks[ablk]["stmts"]))
        through = lambda e: contains(e, lambda x: x[0] == "call" and x[4] == aloc)
        vers = b.calls(r"ObservableState::<.*>::version$")
        vals = b.calls(r"ObservableState::<.*>::get$|ObservableReadGuard::<.*>::new$")
        other = [t for blk, t in b.calls() if F.local_callee(main, t) is not None and (F.local_callee(main, t).raw.get("self_ty") or "").startswith("subscriber::Subscriber<")]
        ok = bool(vers) and bool(vals) and all(through(b.expr_of_op(t["args"][0])) for _, t in vers + vals) and not other
        ctx.verdict(ok, "R04.3", f, "value+version-under-one-guard", where,
                    "one acquisition (bb%d) feeds both version() and the value read" % ablk,
                    "version() and the value are not both read through the single guard (helper calls: %s)" % [F.local_callee(main, t).name for t in other])
    ctx.floor("R04.3", n, 2 if not ctx.has_async else 4)


def r04_4(ctx):
    F = ctx.facts
    n = 0
    for f in F.find(crate=EY):
        st = f.raw.get("self_ty") or ""
        if f.vis != "pub" or not st.startswith("unique::Observable<") or f.raw.get("impl_trait"):
            continue
        base = (f.name or "").replace("_async", "")
        if base not in SETTERS and base != "take":
            continue
        n += 1
        first = f.raw["sig"]["inputs"][0] if f.raw["sig"]["inputs"] else ""
        ctx.verdict(first.startswith("&mut "), "R04.4", f, "setter-needs-&mut", f.loc(), "first parameter is `%s`" % first,
                    "`%s` takes `%s`: the unique Observable could be modified through a shared reference" % (f.path, first))
    ctx.floor("R04.4", n, 6 if not ctx.has_async else 12)


def state_lock_sites(b):
    """blocks of this body that acquire the *state* lock (not the metadata lock inside ObservableState, which is nested by
    design): SharedReadLock::lock / try_lock, RwLock::{read, write, ..} on a `state` field. For the async flavour the call only
    creates a future; it counts when that future is polled / awaited in this body (a future stored for later is no acquisition)."""
    out = []
    for blk, t in b.calls():
        callee = t.get("callee") or ""
        is_sub = bool(re.search(SUB_ACQ, callee))
        is_rw = bool(re.search(ACQ, callee)) and t["args"] and mentions_field(b.expr_of_op(t["args"][0]), "state")
        if not (is_sub or is_rw):
            continue
        dty = str(b.locals[t["dest"]["l"]]["ty"]) if not t["dest"]["proj"] else ""
        is_future = dty.startswith("impl ") or not (re.match(r"^[\w:]*Guard<", dty) or dty.startswith("std::result::Result<") or dty.startswith("std::option::Option<"))
        if is_future:
            # awaited here?  (into_future / poll applied to a value derived from this call)
            loc = (blk, len(b.blocks[blk]["stmts"]))
            polled = False
            for blk2, t2 in b.calls(r"IntoFuture>?::into_future$|Future>?::poll$"):
                if t2["args"] and contains(b.expr_of_op(t2["args"][0]), lambda y: y[0] == "call" and y[4] == loc):
                    polled = True
            if not polled:
                continue
        out.append(blk)
    return out


def acquiring_fns(F):
    """local functions that take the state lock somewhere in their logical bodies (direct acquisition or through another one)."""
    from .c01 import logical_bodies
    acq = set()
    for f in F.find(crate=EY):
        for lb in logical_bodies(F, f):
            if lb.built and state_lock_sites(lb.built):
                acq.add(f.key)
    changed = True
    while changed:
        changed = False
        for f in F.find(crate=EY):
            if f.key in acq:
                continue
            for lb in logical_bodies(F, f):
                if not lb.built:
                    continue
                for blk, t in lb.built.calls():
                    c = F.local_callee(lb, t)
                    if c is not None and root_fn(F, c).key in acq:
                        acq.add(f.key)
                        changed = True
                        break
    return acq


def closure_acquires(F, key, acq, depth=0):
    """a closure (or a closure it hands on) acquires the state lock: directly, or through a local function that does."""
    c = F.fns.get(key)
    if c is None or not c.built or depth > 3:
        return False
    b = c.built
    if state_lock_sites(b):
        return True
    for blk, t in b.calls():
        cal = F.local_callee(c, t)
        if cal is not None and root_fn(F, cal).key in acq:
            return True
        for g_ in (t.get("garg_defs") or []):
            if g_ and closure_acquires(F, c.crate + "::" + g_, acq, depth + 1):
                return True
    return False


def r04_5(ctx):
    """no second acquisition of the state lock while a guard of it is held: both RwLocks are fair to writers, so a reader that
    asks again while a writer is queued behind its first guard waits for that writer, which waits for the first guard - the
    subscriber and every writer hang. A guard-typed local must be dropped / moved away before the function acquires again."""
    F = ctx.facts
    from .c01 import logical_bodies
    acq = acquiring_fns(F)
    n = 0
    bad = 0
    for f in F.find(crate=EY):
        st = f.raw.get("self_ty") or ""
        if not re.match(r"(subscriber::Subscriber|shared::SharedObservable|unique::Observable)<", st) or f.raw.get("impl_trait") and f.raw.get("impl_trait") not in ("futures_core::Stream", "std::future::Future", "futures_core::Future"):
            continue
        for lb in logical_bodies(F, f):
            b = lb.built
            if not b:
                continue
            whole, _ = b.defs
            # acquisition sites in this body: direct, or a call of a local function that acquires (also the creation of its future)
            sites = []
            for blk, t in b.calls():
                c = F.local_callee(lb, t)
                if c is not None and root_fn(F, c).key in acq and root_fn(F, c) is not root_fn(F, lb):
                    sites.append(blk)
            sites += state_lock_sites(b)
            # ... or the call of a combinator that is handed a closure which acquires (`poll.map(|r| r.map(|_| self.read()))`)
            for blk, t in b.calls():
                for g_ in (t.get("garg_defs") or []):
                    if g_ and closure_acquires(F, lb.crate + "::" + g_, acq):
                        sites.append(blk)
            if not sites:
                continue
            n += 1
            for l, ds in whole.items():
                ty = str(b.locals[l]["ty"])
                if not re.match(r"^[\w:]*" + GUARD_TY, ty):   # the guard itself, not a future / Poll / Option that merely mentions it
                    continue
                if l == 0 or l <= b.arg_count:
                    continue
                # only guards that are *kept* (named locals / values stored across statements): a user variable or a local moved into one
                if not b.locals[l].get("name"):
                    continue
                for loc, kind, payload in ds:
                    start = loc[0]
                    ends = set()
                    for blk in range(b.n):
                        t = b.term(blk)
                        if t["k"] == "drop" and t["place"]["l"] == l and not t["place"]["proj"]:
                            ends.add(blk)
                        for st_ in b.blocks[blk]["stmts"]:
                            if st_["k"] == "assign" and st_["rv"]["k"] == "use" and st_["rv"]["op"]["k"] == "move" and st_["rv"]["op"]["place"]["l"] == l and not st_["rv"]["op"]["place"]["proj"]:
                                ends.add(blk)
                        if t["k"] == "call":
                            for a_ in t["args"]:
                                if a_["k"] == "move" and a_["place"]["l"] == l and not a_["place"]["proj"]:
                                    ends.add(blk)
                    live = b.reachable_from(start, avoid_blocks=ends - {start})
                    hit = [q for q in sites if q in live and q != start and not b.is_cleanup(q)]
                    # the acquisition that produced the guard itself is not "a second one"
                    hit = [q for q in hit if not (kind == "call" and q == loc[0])]
                    if hit:
                        bad += 1
                        ctx.violated("R04.5", f, "no-acquisition-while-holding-a-guard", b.line_at((hit[0], 10 ** 6)),
                                     "`%s` keeps the lock guard `%s` (%s) alive while it acquires the state lock again (bb%d): with a writer queued in between, the second (read) acquisition waits for the writer and the writer waits for the first guard - subscriber and writers hang forever" % (
                                         f.path, b.locals[l].get("name"), ty.split("<")[0].split("::")[-1], hit[0]))
                        break
                else:
                    continue
                break
    if not bad:
        ctx.holds("R04.5", None, "no-acquisition-while-holding-a-guard", None, "%d function bodies with an acquisition: no kept guard is alive at another acquisition" % n)
