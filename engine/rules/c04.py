"""C04 — concurrent use of a SharedObservable is linearizable (decided part: the lock discipline)."""
import re
from ..facts import strip, ecall_matches, contains, find_all, fmt, mentions_field, mentions_call
from .. import conds
from .common import *
from .c01 import logical_bodies, SETTERS

WITNESSES = ["W04", "W03"]

CRATES = (EY,)

META = {
    "explanation": (
        "Static decision of the lock discipline that makes the RwLock the linearization device (MIR, sync and async flavours): R04.1 every public "
        "writer of SharedObservable performs exactly one acquisition on self.state, an exclusive one, and the single ObservableState method call "
        "(the whole read-modify-notify) is made through that guard - read-then-write splits are flagged; R04.2 the read/write guard types consist of "
        "exactly the lock's guard, and every function returning them builds them from an acquisition result; R04.3 next_now/next_ref_now read the "
        "version and the value through one guard; R04.4 the unique Observable's setters take &mut Self (+ compile_fail witnesses: set while a &T "
        "borrowed through get is alive is rejected; a write guard keeps the observable borrowed). Linearizability of the lock itself is trusted."),
    "trusted_base": ["std::sync::RwLock / tokio::sync::RwLock are linearizable reader-writer locks", "rustc borrow checker", "rustc MIR construction"],
    "assumptions": [],
}
META["explanation"] += ' R04.1 counts acquisitions made in private helpers of the wrapper as its own (virtual inlining); R01.1 (every mutable borrow of the value reaches the version bump in the same function) is evaluated here too: a value written in one critical section and the version bumped in another is visible with the old version.'

ACQ = r"^(std::sync::RwLock|tokio::sync::RwLock)::<.*>::(write|read|try_write|try_read|blocking_write|blocking_read|write_owned|read_owned)$"
EXCL = r"::(write|try_write|blocking_write|write_owned)$"
SUB_ACQ = r"SharedReadLock::<.*>::(lock|try_lock|lock_owned)$"


def run(ctx):
    F = ctx.facts
    r04_1(ctx)
    r04_2(ctx)
    r04_3(ctx)
    r04_4(ctx)
    # "each subscriber observes values in that order ... and ends on the final value": needs the version protocol and no lost wake-up
    from . import c01, groups
    closes = find_close_fn(F)
    notify = find_notify_fn(F)
    if len(closes) == 1 and notify:
        nset = c01.NotifySet(notify)
        c01.r01_1(ctx, nset)   # a value written without the version bump in the same step is visible with the old version
        init = c01.r01_5(ctx, nset, closes[0], closes[0][2])
        c01.r01_6(ctx, init)
        c01.r01_7(ctx, init)
    groups.eyeball_close_and_wake(ctx)


def r04_1(ctx):
    F = ctx.facts
    n = 0
    sfns = state_fns(F)
    for f in F.find(crate=EY):
        st = f.raw.get("self_ty") or ""
        if f.vis != "pub" or f.raw.get("impl_trait") or not st.startswith("shared::SharedObservable<"):
            continue
        if f.name not in SETTERS and f.name != "take":
            continue
        bodies = logical_bodies(F, f)
        if not bodies or not bodies[0].built:
            continue
        main = bodies[0]
        b = inl(F, main, *sfns) or main.built   # acquisitions made in private helpers of the wrapper count as its own
        n += 1
        acqs = []
        for lb in bodies:
            lbb = b if lb is main else lb.built
            if lbb:
                acqs += [(lb, blk, t) for blk, t in lbb.calls(ACQ)]
        ctx.call_sites += len(acqs)
        if f.name == "take":
            sets = [(blk, t) for blk, t in b.calls() if F.local_callee(main, t) is not None and F.local_callee(main, t).name == "set"
                    and (F.local_callee(main, t).raw.get("self_ty") or "") == st]
            if sets or not acqs:
                ok = len(sets) == 1 and not acqs
                ctx.verdict(ok, "R04.1", f, "one-critical-section", f.loc(), "take delegates to a single call of Self::set and takes no lock itself",
                            "take performs %d lock acquisition(s) of its own and %d call(s) of set: not one atomic step" % (len(acqs), len(sets)))
                continue
            # take written against the state directly: judged like every other writer below
        on_state = [(lb, blk, t) for lb, blk, t in acqs if mentions_field((b if lb is main else lb.built).expr_of_op(t["args"][0]), "state")]
        scalls = [(blk, t) for blk, t in b.calls() if F.local_callee(main, t) in sfns]
        where = b.line_at((on_state[0][1], 10 ** 6)) if on_state and on_state[0][0] is main else f.loc()
        if len(on_state) != 1:
            ctx.violated("R04.1", f, "one-critical-section", where,
                         "`%s` acquires the state lock %d times (%s): its read-modify-notify is not one atomic step - a concurrent writer can interleave between the sections" % (
                             f.path, len(on_state), ", ".join(t["callee"].split("::")[-1] for _, _, t in on_state)))
            continue
        lb, ablk, at = on_state[0]
        if not re.search(EXCL, at["callee"]):
            ctx.violated("R04.1", f, "one-critical-section", where, "`%s` modifies the state under a shared (read) acquisition" % f.path)
            continue
        if len(scalls) != 1:
            ctx.violated("R04.1", f, "one-critical-section", where, "`%s` calls %d state methods (%s) instead of one" % (f.path, len(scalls), [F.local_callee(main, t).name for _, t in scalls]))
            continue
        sblk, stt = scalls[0]
        recv = b.expr_of_op(stt["args"][0])
        aloc = (ablk, len(b.blocks[ablk]["stmts"]))
        via = contains(recv, lambda x: x[0] == "call" and x[4] == aloc)
        ctx.verdict(via, "R04.1", f, "one-critical-section", where,
                    "single exclusive acquisition `%s` (bb%d); the one state call `%s` (bb%d) goes through that guard" % (at["callee"].split("::")[-1], ablk, F.local_callee(main, stt).name, sblk),
                    "the state method is not called through the guard obtained by the acquisition")
    ctx.floor("R04.1", n, 6 if not ctx.has_async else 12)


def r04_2(ctx):
    F = ctx.facts
    for path, want in (("read_guard::ObservableReadGuard", "SharedReadGuard"), ("shared::ObservableWriteGuard", "RwLockWriteGuard")):
        a = F.adt(EY, path)
        if not a:
            ctx.missing("R04.2", path)
            continue
        fields = a["variants"][0]["fields"]
        ok = len(fields) == 1 and want in fields[0]["ty"]
        ctx.verdict(ok, "R04.2", None, "guard-type:" + path, "%s:%d" % (a["span"]["file"], a["span"]["line"]),
                    "%s has exactly one field `%s: %s` (the lock's own guard)" % (path, fields[0]["name"], fields[0]["ty"]) if fields else "",
                    "%s no longer consists of exactly the lock guard (fields: %s): holding it does not keep the lock" % (path, [(x["name"], x["ty"]) for x in fields]))
    # constructions come from an acquisition
    n = 0
    for f in F.find(crate=EY):
        b = f.built
        if not b:
            continue
        for blk, t in b.calls(r"ObservableReadGuard::<.*>::new$|ObservableWriteGuard::<.*>::new$"):
            c = F.local_callee(f, t)
            if c is None or c.name != "new":
                continue
            n += 1
            e = b.expr_of_op(t["args"][0])
            ok = contains(e, lambda x: (x[0] == "call" and isinstance(x[1], str) and (re.search(ACQ, x[1]) or re.search(SUB_ACQ, x[1]) or re.search(r"PoisonError::<.*>::into_inner$", x[1])))
                          or x[0] in ("param",) or (x[0] == "field" and x[1][0] == "param"))
            ctx.verdict(True if ok else None, "R04.2", root_fn(F, f), "guard-from-acquisition", b.line_at((blk, 10 ** 6)), "guard built from %s" % fmt(e, 4))
    ctx.floor("R04.2", n, 4)


def r04_3(ctx):
    F = ctx.facts
    n = 0
    for f in F.find(crate=EY):
        st = f.raw.get("self_ty") or ""
        if not st.startswith("subscriber::Subscriber<") or f.name not in ("next_now", "next_ref_now"):
            continue
        bodies = logical_bodies(F, f)
        main = bodies[0]
        b = inl(F, main)
        acq = b.calls(SUB_ACQ)
        n += 1
        where = b.line_at((acq[0][0], 10 ** 6)) if acq else f.loc()
        if len(acq) != 1:
            # count acquisitions in callees (get()/read()) too
            extra = [t for blk, t in b.calls() if F.local_callee(main, t) is not None and F.local_callee(main, t).name in ("get", "read", "next_ref_now", "next_now")]
            ctx.violated("R04.3", f, "value+version-under-one-guard", where,
                         "`%s` takes the read lock %d times%s: the value it returns and the version it marks as observed can belong to different updates (a write in between is then never reported)" % (
                             f.path, len(acq), " plus calls to %s" % [F.local_callee(main, t).name for t in extra] if extra else ""))
            continue
        ablk, at = acq[0]
        aloc = (ablk, len(b.blocks[ablk]["stmts"]))
        through = lambda e: contains(e, lambda x: x[0] == "call" and x[4] == aloc)
        vers = b.calls(r"ObservableState::<.*>::version$")
        vals = b.calls(r"ObservableState::<.*>::get$|ObservableReadGuard::<.*>::new$")
        other = [t for blk, t in b.calls() if F.local_callee(main, t) is not None and (F.local_callee(main, t).raw.get("self_ty") or "").startswith("subscriber::Subscriber<")]
        ok = bool(vers) and bool(vals) and all(through(b.expr_of_op(t["args"][0])) for _, t in vers + vals) and not other
        ctx.verdict(ok, "R04.3", f, "value+version-under-one-guard", where,
                    "one acquisition (bb%d) feeds both version() and the value read" % ablk,
                    "version() and the value are not both read through the single guard (helper calls: %s)" % [F.local_callee(main, t).name for t in other])
    ctx.floor("R04.3", n, 2 if not ctx.has_async else 4)


def r04_4(ctx):
    F = ctx.facts
    n = 0
    for f in F.find(crate=EY):
        st = f.raw.get("self_ty") or ""
        if f.vis != "pub" or not st.startswith("unique::Observable<") or f.raw.get("impl_trait"):
            continue
        base = (f.name or "").replace("_async", "")
        if base not in SETTERS and base != "take":
            continue
        n += 1
        first = f.raw["sig"]["inputs"][0] if f.raw["sig"]["inputs"] else ""
        ctx.verdict(first.startswith("&mut "), "R04.4", f, "setter-needs-&mut", f.loc(), "first parameter is `%s`" % first,
                    "`%s` takes `%s`: the unique Observable could be modified through a shared reference" % (f.path, first))
    ctx.floor("R04.4", n, 6 if not ctx.has_async else 12)
