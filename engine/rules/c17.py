"""C17 — mutators behave like a plain vector; entry traversal visits each item once."""
import re
from ..facts import strip, ecall_matches, contains, find_all, fmt, mentions_field, mentions_call, has_arith
from .. import conds
from .common import *
from .vecdiff import *
from . import c05, c07
from .c01 import CALL_CLOSURE

WITNESSES = ["W17"]

CRATES = (IM,)

META = {
    "explanation": (
        "Static decision on MIR, applied identically to the vector family and its transaction twin (sibling agreement): R17.1 an out-of-range index "
        "is rejected before anything is published - in insert/set/remove the publication is dominated by the imbl call taking the same index (which "
        "panics without modifying), in `entry` the handle is built only on the strict edge index < len; R17.2 pop_*/set/remove return the result of the "
        "same-named imbl call on the contents, entry set/remove return the container call's result; a guard of the transaction's clear must test its own "
        "working copy; R17.3 cursor protocol - Entries::next yields an entry only on index < len, the entry's Drop adds exactly 1 to a borrowed index and "
        "nothing otherwise, `remove` reads the index through the function that re-tags it as owned (so the drop does not advance), set/index use the "
        "plain read, for_each is the `while let Some(e) = next() { f(e) }` loop with no other exit. Witness: two entries alive at once is rejected (E0499)."),
    "trusted_base": ["imbl::Vector panics on out-of-range insert/set/remove without modifying", "rustc borrow checker", "rustc MIR construction"],
    "assumptions": [],
}
META["explanation"] += " R17.3's drop clause requires the increment on every path from the Borrowed edge (no early return, e.g. while panicking)."
META["explanation"] += ' R17.5 no assert / overflow-check terminator introduced in a public mutator of ObservableVector / the transaction beyond the index checks the documentation promises (explicit panics with a message are the documented bounds checks).'

FAMILIES = [
    ("vector", "vector::ObservableVector<", "vector::entry::ObservableVectorEntry<", "vector::entry::ObservableVectorEntries<"),
    ("txn", "vector::transaction::ObservableVectorTransaction<", "vector::transaction::ObservableVectorTransactionEntry<", "vector::transaction::ObservableVectorTransactionEntries<"),
]


def fns_of(F, prefix):
    return [f for f in F.find(crate=IM) if (f.raw.get("self_ty") or "").startswith(prefix)]


def run(ctx):
    F = ctx.facts
    r17_5(ctx)
    vec_pub, txn_pub = c05.publication_fns(F)
    # role: the EntryIndex function that re-tags Borrowed as Owned
    make_owned = []
    plain_read = []
    for f in fns_of(F, "vector::entry::EntryIndex<"):
        b = f.built
        if not b:
            continue
        writes_owned = any(s["k"] == "assign" and s["place"]["l"] == 1 and s["place"]["proj"] == ["deref"] and "Owned" in fmt(b.expr_of_rv(s["rv"], 4, ()), 3) for _, s in b.iter_stmts())
        (make_owned if writes_owned else plain_read).append(f)
    if len(make_owned) != 1:
        ctx.missing("R17.3", "EntryIndex function that re-tags the index as owned (found %d)" % len(make_owned))
    for fam, cont_p, entry_p, entries_p in FAMILIES:
        pub = (vec_pub if fam == "vector" else txn_pub)
        pub = pub[0] if pub else None
        cont = fns_of(F, cont_p)
        r17_1(ctx, fam, cont, pub, entry_p)
        r17_2(ctx, fam, cont, fns_of(F, entry_p), cont_p)
        r17_3(ctx, fam, cont, fns_of(F, entry_p), fns_of(F, entries_p), make_owned, plain_read, entry_p)
    c07.clear_guard(ctx, c07.txn_fns(F), rule="R17.2")
    # "changes the contents and returns exactly what the same operation on a plain vector would ... without notifying anyone"
    from . import groups
    groups.im_core(ctx)



def r17_1(ctx, fam, cont, pub, entry_p):
    F = ctx.facts
    n = 0
    for f in cont:
        if f.vis != "pub" or f.raw.get("impl_trait"):
            continue
        b = f.built
        if f.name in ("insert", "set", "remove"):
            muts = c05.values_mutations(b)
            pubs = [(blk, t) for blk, t in b.calls() if pub is not None and F.local_callee(f, t) is pub]
            for pblk, pt in pubs:
                n += 1
                rej = [mb for mb, mt, m in muts if m == f.name and b.dominates(mb, pblk) and mb != pblk
                       and strip(b.expr_of_op(mt["args"][1]))[0] == "param" and strip(b.expr_of_op(mt["args"][1]))[1] == 2]
                # or an explicit comparison whose failing edge diverges
                facts = conds.dominating_facts(b, pblk)
                is_idx = lambda e: strip(e)[0] == "param" and strip(e)[1] == 2
                is_len = lambda e: contains(e, lambda y: y[0] == "call" and ecall_matches(y, r"::len$"))
                explicit = conds.cmp_holds(facts, "Lt", is_idx, is_len) or conds.cmp_holds(facts, "Le", is_idx, is_len)
                ctx.verdict(bool(rej) or explicit, "R17.1", f, "rejected-before-published", b.line_at((pblk, 10 ** 6)),
                            "publication is dominated by %s" % ("the imbl `%s(index, ..)` call (panics on out-of-range without modifying)" % f.name if rej else "an explicit index test"),
                            "`%s` publishes its diff on a path where an out-of-range index has not been rejected yet: subscribers are notified of an operation that then panics" % f.path)
        if f.name == "entry":
            ctors = [(blk, t) for blk, t in b.calls() if F.local_callee(f, t) is not None and (F.local_callee(f, t).raw.get("self_ty") or "").startswith(entry_p)]
            for blk, t in ctors:
                n += 1
                facts = conds.dominating_facts(b, blk)
                is_idx = lambda e: strip(e)[0] == "param" and strip(e)[1] == 2
                is_len = lambda e: contains(e, lambda y: y[0] == "call" and ecall_matches(y, r"::len$"))
                lt = conds.cmp_holds(facts, "Lt", is_idx, is_len)
                le = conds.cmp_holds(facts, "Le", is_idx, is_len)
                where = b.line_at((blk, 10 ** 6))
                if lt:
                    ctx.holds("R17.1", f, "entry-strict-bound", where, "the entry is handed out only on the edge index < len")
                elif le:
                    ctx.violated("R17.1", f, "entry-strict-bound", where, "`entry(index)` hands out an entry for index == len (guard is <=) instead of panicking")
                else:
                    ctx.violated("R17.1", f, "entry-strict-bound", where, "`entry(index)` hands out an entry without the strict index < len test: out-of-range entry does not panic")
    ctx.floor("R17.1", n, 4)


def r17_2(ctx, fam, cont, entries, cont_p):
    F = ctx.facts
    n = 0
    for f in cont:
        if f.vis != "pub" or f.raw.get("impl_trait") or f.name not in ("pop_front", "pop_back", "set", "remove"):
            continue
        b = f.built
        e = strip(ret_expr(b), through_calls=False)
        n += 1
        ok = None
        if e[0] == "call":
            m = re.match(IMBL, e[1] if isinstance(e[1], str) else "")
            if m:
                ok = m.group(2) == f.name and mentions_field(e[3][0], "values")
        elif strip(e)[0] in ("param", "const") or (e[0] == "agg" and e[1] == "adt"):
            ok = False  # closed slice that does not contain the imbl call at all
        ctx.verdict(ok, "R17.2", f, "returns-imbl-result", f.loc(), "returns the result of values.%s(..)" % f.name,
                    "`%s` returns `%s`, not what the same operation on the contents returned" % (f.path, fmt(e, 4)))
    for f in entries:
        if f.name not in ("set", "remove") or f.raw.get("impl_trait"):
            continue
        b = f.built
        e = strip(ret_expr(b), through_calls=False)
        n += 1
        ok = e[0] == "call" and F.fns.get(IM + "::" + ((e[2] or e[1]) if isinstance(e[1], str) else "")) is not None and F.fns[IM + "::" + (e[2] or e[1])].name == f.name \
            and (F.fns[IM + "::" + (e[2] or e[1])].raw.get("self_ty") or "").startswith(cont_p)
        ctx.verdict(ok, "R17.2", f, "entry-returns-container-result", f.loc(), "entry.%s returns container.%s(..)" % (f.name, f.name),
                    "entry `%s` does not return the container's `%s` result (returns `%s`)" % (f.path, f.name, fmt(e, 4)))
    ctx.floor("R17.2", n, 6)


def r17_3(ctx, fam, cont, entry_fns, entries_fns, make_owned, plain_read, entry_p):
    F = ctx.facts
    # next(): entry only on index < len
    for f in entries_fns:
        if f.name != "next" or f.raw.get("impl_trait"):
            continue
        b = f.built
        ctors = [(blk, t) for blk, t in b.calls() if F.local_callee(f, t) is not None and (F.local_callee(f, t).raw.get("self_ty") or "").startswith(entry_p)]
        for blk, t in ctors:
            facts = conds.dominating_facts(b, blk)
            is_cur = lambda e: mentions_field(e, "index")
            is_len = lambda e: contains(e, lambda y: y[0] == "call" and ecall_matches(y, r"::len$"))
            lt = conds.cmp_holds(facts, "Lt", is_cur, is_len)
            # the index handed to the entry is a borrow of the cursor
            borrows = any(mentions_field(b.expr_of_op(a), "index") and b.locals[a["place"]["l"]]["ty"].startswith("&mut") for a in t["args"] if a["k"] in ("move", "copy"))
            ctx.verdict(lt and borrows, "R17.3", f, "next-bound", b.line_at((blk, 10 ** 6)), "an entry borrowing the cursor is yielded only on cursor < len",
                        "`%s` yields an entry %s" % (f.path, "without the strict cursor < len test (an entry past the end panics / traversal overruns)" if not lt else "that does not borrow the cursor (the traversal cannot advance)"))
        for loc, cls, rv in __import__("engine.rules.leaf", fromlist=["ret_sites"]).ret_sites(b):
            pass
    # Drop: +1 on Borrowed only
    for f in entry_fns:
        if f.raw.get("impl_trait") != "std::ops::Drop":
            continue
        b = inl(F, f)
        stores = []
        for loc, s in b.iter_stmts():
            if s["k"] == "assign" and s["place"]["proj"] and s["place"]["proj"][-1] == "deref" and "usize" in b.locals[0]["ty"] + "usize":
                e = b.expr_of_rv(s["rv"], 8, ())
                adds = find_all(e, lambda x: x[0] == "bin" and x[1].startswith("Add"))
                if adds:
                    stores.append((loc, adds[0]))
        where = f.loc()
        if len(stores) != 1:
            ctx.verdict(False if not stores else None, "R17.3", f, "drop-advances-by-one", where, "", "the entry's Drop does not advance a borrowed cursor: for_each/entries would visit the same element forever")
            continue
        loc, add = stores[0]
        one = is_const_int(add[3], 1)
        facts = conds.bare(conds.dominating_facts(b, loc[0]))
        borrowed = any(x[0] == "variant" and x[2] == frozenset(["Borrowed"]) for x in facts)
        # ... and *whenever* the entry borrows the cursor: every path from the Borrowed edge reaches the increment (an early
        # return - e.g. while the thread is panicking - leaves the cursor where it is and the traversal yields the same element again)
        always = True
        for sblk in sorted(b.reachable()):
            info = conds.switch_info(b, sblk)
            if not info:
                continue
            for t_, fs in info["edges"].items():
                if any(x[0] == "variant" and x[2] == frozenset(["Borrowed"]) for x in fs) and b.edge_dominates((sblk, t_), loc[0]):
                    always = b.post_dominated_by(t_, [loc[0]]) and b.must_pass(0, sblk, [sblk]) and not any(
                        b.term(x)["k"] == "return" for x in b.reachable_from(0, avoid_blocks=[sblk]))
        if one and borrowed and not always:
            ctx.violated("R17.3", f, "drop-advances-by-one", b.line_at(loc),
                         "the entry's Drop can return without advancing a borrowed cursor (a path bypasses the `+= 1`): a traversal then yields the same element again and `for_each` may never terminate")
            continue
        ctx.verdict(one and borrowed, "R17.3", f, "drop-advances-by-one", b.line_at(loc), "Drop adds exactly 1 to the cursor, only in the Borrowed state",
                    "the entry's Drop %s" % ("adds %s to the cursor instead of 1: elements are skipped" % fmt(add[3]) if not one else "advances the cursor outside the Borrowed state"))
    # remove via make_owned; set / index via plain read
    for f in entry_fns:
        if f.raw.get("impl_trait") or f.name not in ("remove", "set", "index"):
            continue
        b = f.built
        reads = [(blk, t, F.local_callee(f, t)) for blk, t in b.calls() if F.local_callee(f, t) in make_owned + plain_read]
        if not reads:
            ctx.undecided("R17.3", f, "index-read:" + f.name, f.loc(), "no EntryIndex accessor call found")
            continue
        for blk, t, c in reads:
            where = b.line_at((blk, 10 ** 6))
            if f.name == "remove":
                ctx.verdict(c in make_owned, "R17.3", f, "index-read:remove", where, "remove reads the index through `%s`, which re-tags it as owned: the drop does not advance, the successor is not skipped" % c.name,
                            "entry `remove` reads the index with `%s`; the entry stays tied to the traversal cursor, its Drop advances past the element that moved into the removed slot (the successor is skipped)" % c.name)
            else:
                ctx.verdict(c in plain_read, "R17.3", f, "index-read:" + f.name, where, "`%s` uses the plain index read" % f.name,
                            "entry `%s` re-tags the index as owned: the traversal stops advancing after it" % f.name)
    # for_each loop shape
    for f in cont:
        if f.name != "for_each" or f.raw.get("impl_trait"):
            continue
        b = f.built
        nexts = [(blk, t) for blk, t in b.calls() if F.local_callee(f, t) is not None and F.local_callee(f, t).name == "next"]
        fcalls = b.calls(CALL_CLOSURE)
        if len(nexts) != 1 or not fcalls:
            ctx.undecided("R17.3", f, "for_each-loop", f.loc(), "loop idiom not recognised")
            continue
        nblk, nt = nexts[0]
        info, sw = None, nt["target"]
        for _ in range(3):
            info = conds.switch_info(b, sw)
            if info:
                break
            sw = b.succ[sw][0] if len(b.succ[sw]) == 1 else None
            if sw is None:
                break
        some_t = [t for t, fs in (info["edges"].items() if info else []) if any(x[0] == "variant" and x[2] == frozenset(["Some"]) for x in fs)]
        if not some_t:
            ctx.undecided("R17.3", f, "for_each-loop", f.loc(), "Some edge of next() not found")
            continue
        st = some_t[0]
        fblks = [blk for blk, _ in fcalls]
        leaves = any(b.term(x)["k"] == "return" for x in b.reachable_from(st, avoid_blocks=[nblk]))
        skips = nblk in b.reachable_from(st, avoid_blocks=fblks)
        item_ok = all(contains(b.expr_of_op(t["args"][1]), lambda x: x[0] == "call" and x[4] == (nblk, len(b.blocks[nblk]["stmts"]))) for _, t in fcalls)
        ctx.verdict(not leaves and not skips and item_ok, "R17.3", f, "for_each-loop", b.line_at((nblk, 10 ** 6)), "while let Some(e) = next() { f(e) } with no other exit",
                    "for_each %s" % ("can leave the loop before next() returned None" if leaves else "can skip calling f for an entry" if skips else "does not pass the yielded entry to f"))


def r17_5(ctx):
    """the mutators panic exactly where a plain vector does (out-of-range insert / set / remove / entry): apart from those
    documented panics and imbl's own, a mutator contains no panic source of its own in any feature configuration - no
    arithmetic-overflow or bounds assertion (e.g. `len - n` in a log line for a no-op truncate). Expected count 0."""
    F = ctx.facts
    n = 0
    bad = 0
    for f in F.find(crate=IM):
        st = f.raw.get("self_ty") or ""
        if not f.built or f.raw.get("impl_trait") or not (st.startswith("vector::ObservableVector<") or st.startswith("vector::transaction::ObservableVectorTransaction<")):
            continue
        if f.vis != "pub":
            continue
        b = inl(F, f) or f.built
        n += 1
        for blk in sorted(b.reachable()):
            t = b.term(blk)
            if t["k"] == "assert":
                bad += 1
                ctx.violated("R17.5", f, "no-own-panic", b.line_at((blk, 10 ** 6)),
                             "`%s` contains a checked arithmetic / bounds assertion (%s): it can panic where the same call on a plain vector does not (e.g. a truncate to more than the current length, a pop on an empty vector)" % (f.path, str(t.get("msg", ""))[:60]))
                break
    if not bad:
        ctx.holds("R17.5", None, "no-own-panic", None, "%d public mutators / accessors of the vector and the transaction: no arithmetic or bounds assertion of their own" % n)
