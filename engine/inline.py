"""Virtual inlining of local helper functions into a caller's MIR body.

"Extract a private helper" / "turn a closure into a named function" / "merge duplicated code into one helper" are the most
common behaviour-preserving refactorings. Rules that reason about the shape of one function (dominance, post-dominance,
provenance) would otherwise see a call where they expect the code. `inlined(F, fn, keep)` returns a Body in which calls to
workspace functions are replaced by the callee's blocks (locals and blocks renumbered, arguments assigned to the callee's
parameters, `return` turned into an assignment of the destination + goto), except for callees that `keep` wants to stay calls
(the rule's own anchors), public / crate-visible API, trait-impl methods and recursive calls. Purely syntactic on the fact
files; nothing is executed.
"""
import copy
from .facts import Body

MAX_BLOCKS = 4000


def default_keep(callee):
    """stay a call: public or crate-visible API and trait-impl methods (they are anchors or contracts of their own)."""
    if callee.raw.get("impl_trait"):
        return True
    if callee.kind == "coroutine":
        return True  # the body of an async fn: reached through Future::poll, belongs to that (usually public) function
    if callee.kind == "closure":
        return False
    return callee.vis in ("pub", "crate")


def _ren_place(p, lo):
    q = {"l": p["l"] + lo, "proj": []}
    for e in p["proj"]:
        if isinstance(e, dict) and "idx" in e:
            e = dict(e)
            e["idx"] = e["idx"] + lo
        q["proj"].append(e)
    return q


def _ren_op(o, lo):
    if o["k"] in ("copy", "move"):
        o = dict(o)
        o["place"] = _ren_place(o["place"], lo)
    return o


def _ren_rv(rv, lo):
    rv = dict(rv)
    k = rv["k"]
    if k == "use":
        rv["op"] = _ren_op(rv["op"], lo)
    elif k in ("ref", "raw", "discr"):
        rv["place"] = _ren_place(rv["place"], lo)
    elif k == "bin":
        rv["l"] = _ren_op(rv["l"], lo)
        rv["r"] = _ren_op(rv["r"], lo)
    elif k in ("un", "cast", "repeat"):
        rv["x"] = _ren_op(rv["x"], lo)
    elif k == "agg":
        rv["ops"] = [_ren_op(o, lo) for o in rv["ops"]]
    return rv


def _ren_stmt(s, lo):
    s = dict(s)
    k = s["k"]
    if k == "assign":
        s["place"] = _ren_place(s["place"], lo)
        s["rv"] = _ren_rv(s["rv"], lo)
    elif k in ("set_discr", "fake_read"):
        s["place"] = _ren_place(s["place"], lo)
    elif k in ("dead", "live"):
        s["l"] = s["l"] + lo
    return s


def _ren_term(t, lo, bo):
    t = dict(t)
    k = t["k"]

    def bb(x):
        return x + bo if isinstance(x, int) else x
    if k == "goto":
        t["target"] = bb(t["target"])
    elif k == "switch":
        t["on"] = _ren_op(t["on"], lo)
        t["targets"] = [[v, bb(b)] for v, b in t["targets"]]
        t["otherwise"] = bb(t["otherwise"])
    elif k == "drop":
        t["place"] = _ren_place(t["place"], lo)
        t["target"] = bb(t["target"])
        t["unwind"] = bb(t["unwind"])
    elif k == "call":
        t["args"] = [_ren_op(a, lo) for a in t["args"]]
        t["fn_op"] = _ren_op(t["fn_op"], lo)
        t["dest"] = _ren_place(t["dest"], lo)
        t["target"] = bb(t["target"])
        t["unwind"] = bb(t["unwind"])
    elif k == "assert":
        t["cond"] = _ren_op(t["cond"], lo)
        t["target"] = bb(t["target"])
        t["unwind"] = bb(t["unwind"])
    elif k == "yield":
        t["value"] = _ren_op(t["value"], lo)
        t["resume"] = bb(t["resume"])
        t["drop"] = bb(t.get("drop"))
    elif k == "false_edge":
        t["real"] = bb(t["real"])
        t["imaginary"] = bb(t["imaginary"])
    elif k == "false_unwind":
        t["real"] = bb(t["real"])
        t["unwind"] = bb(t["unwind"])
    return t


# ---------------------------------------------------------------------------
# combinator desugaring: `opt.map(|x| ..)`, `cond.then(|| ..)`, `it.for_each(|x| ..)` ... are rewritten into the
# switch / loop they stand for, with the closure called directly (and then inlined), so that a rule sees the same
# control flow whether the code is written with `match` / `if let` / `for` or with combinators.

ENUM_VARIANTS = {
    "std::option::Option": [[0, "None"], [1, "Some"]],
    "std::result::Result": [[0, "Ok"], [1, "Err"]],
    "std::task::Poll": [[0, "Ready"], [1, "Pending"]],
}
COMBINATORS = [
    (r"^core::bool::<impl bool>::then$", "then"),
    (r"^core::bool::<impl bool>::then_some$", "then_some"),
    (r"^std::option::Option::<.*>::map$", "opt_map"),
    (r"^std::option::Option::<.*>::and_then$", "opt_and_then"),
    (r"^std::option::Option::<.*>::map_or$", "opt_map_or"),
    (r"^std::option::Option::<.*>::map_or_else$", "opt_map_or_else"),
    (r"^std::option::Option::<.*>::unwrap_or_else$", "opt_unwrap_or_else"),
    (r"^std::option::Option::<.*>::filter$", "opt_filter"),
    (r"^std::task::Poll::<.*>::map$", "poll_map"),
    (r"^std::result::Result::<.*>::map$", "res_map"),
    (r"^std::result::Result::<.*>::and_then$", "res_and_then"),
    (r"^std::iter::Iterator::for_each$", "for_each"),
]
import re as _re


class _Builder:
    def __init__(self, locals_, blocks, span):
        self.locals, self.blocks, self.span = locals_, blocks, span

    def local(self, ty="?"):
        self.locals.append({"ty": ty, "name": None, "user": False})
        return len(self.locals) - 1

    def block(self, stmts=None, term=None):
        self.blocks.append({"cleanup": False, "stmts": stmts or [], "term": term or {"k": "unreachable"}})
        return len(self.blocks) - 1

    def assign(self, place, rv):
        return {"k": "assign", "place": place, "rv": rv, "span": self.span, "synthetic": True}

    @staticmethod
    def pl(l, *proj):
        return {"l": l, "proj": list(proj)}

    @staticmethod
    def mv(place):
        return {"k": "move", "place": place}

    def payload(self, l, variant):
        return self.pl(l, {"dc": variant}, {"f": 0, "name": "0", "ty": "?"})

    def agg(self, adt, variant, ops):
        return {"k": "agg", "of": "adt", "adt": adt, "variant": variant, "fields": [str(i) for i in range(len(ops))], "ops": ops}

    def switch_enum(self, blk, local, adt, cases):
        """append `discriminant + switch` to block blk; cases: variant -> target block."""
        d = self.local("isize")
        vs = ENUM_VARIANTS[adt]
        self.blocks[blk]["stmts"].append(self.assign(self.pl(d), {"k": "discr", "place": self.pl(local), "adt": adt, "variants": vs}))
        dead = self.block()
        self.blocks[blk]["term"] = {"k": "switch", "on": self.mv(self.pl(d)), "targets": [[v, cases[n]] for v, n in vs if n in cases], "otherwise": dead, "span": self.span}

    def call_fnlike(self, blk, fop, fdef, args, dest, target, unwind):
        """terminate blk with a direct call of the closure / fn item `fop` (def path fdef when local) on `args`."""
        if fdef:
            self.blocks[blk]["term"] = {"k": "call", "callee": fdef, "resolved": fdef, "garg_defs": [], "fn_op": fop, "args": [fop] + list(args),
                                        "dest": dest, "target": target, "unwind": unwind, "span": self.span, "synthetic": True, "extra": {}}
        elif fop.get("k") == "const" and fop.get("fn"):
            self.blocks[blk]["term"] = {"k": "call", "callee": fop["fn"], "resolved": fop["fn"], "garg_defs": list(fop.get("garg_defs") or []), "fn_op": fop,
                                        "args": list(args), "dest": dest, "target": target, "unwind": unwind, "span": self.span, "synthetic": True, "extra": {}}
        else:
            tup = self.local("(?)")
            self.blocks[blk]["stmts"].append(self.assign(self.pl(tup), {"k": "agg", "of": "tuple", "ops": list(args)}))
            self.blocks[blk]["term"] = {"k": "call", "callee": "std::ops::FnOnce::call_once", "resolved": None, "garg_defs": [], "fn_op": {"k": "const", "ty": "fn", "val": "call_once"},
                                        "args": [fop, self.mv(self.pl(tup))], "dest": dest, "target": target, "unwind": unwind, "span": self.span, "synthetic": True, "extra": {}}


def _closure_def(F, fn, t, op, locals_=None):
    """def path of a local closure passed as operand `op` of call `t` (None if it is not a local closure)."""
    gds, gas = t.get("garg_defs") or [], t.get("gargs") or []
    cands = [gd for gd in gds if gd and "{closure" in gd and F.local_callee(fn, {"resolved": gd}) is not None]
    if len(cands) <= 1:
        return cands[0] if cands else None
    if locals_ is not None and op.get("k") in ("move", "copy") and not op["place"]["proj"]:
        ty = str(locals_[op["place"]["l"]].get("ty"))
        for ga, gd in zip(gas, gds):
            if gd in cands and ga == ty:
                return gd
    return None


def desugar_combinator(F, fn, locals_, blocks, i):
    """rewrite blocks[i] when it ends in a call of a known combinator; returns True if rewritten."""
    t = blocks[i]["term"]
    callee = t.get("callee") or ""
    kind = None
    for pat, k in COMBINATORS:
        if _re.search(pat, callee):
            kind = k
            break
    if kind is None or t.get("target") is None or t["dest"]["proj"]:
        return False
    B = _Builder(locals_, blocks, t.get("span"))
    args, dest, target, unwind = t["args"], t["dest"], t["target"], t.get("unwind")
    OPT, POLL, RES = "std::option::Option", "std::task::Poll", "std::result::Result"

    def recv_local():
        r = B.local(locals_[args[0]["place"]["l"]]["ty"] if args[0]["k"] in ("move", "copy") and not args[0]["place"]["proj"] else "?")
        blocks[i]["stmts"] = blocks[i]["stmts"] + [B.assign(B.pl(r), {"k": "use", "op": args[0]})]
        return r

    def fdef(op):
        return _closure_def(F, fn, t, op, locals_)

    def finish(b, rv):
        blocks[b]["stmts"].append(B.assign(dest, rv))
        blocks[b]["term"] = {"k": "goto", "target": target}

    if kind in ("then", "then_some"):
        r = recv_local()
        yes, no = B.block(), B.block()
        blocks[i]["term"] = {"k": "switch", "on": B.mv(B.pl(r)), "targets": [[0, no]], "otherwise": yes, "span": t.get("span")}
        finish(no, B.agg(OPT, "None", []))
        if kind == "then":
            v, after = B.local(), B.block()
            B.call_fnlike(yes, args[1], fdef(args[1]), [], B.pl(v), after, unwind)
            finish(after, B.agg(OPT, "Some", [B.mv(B.pl(v))]))
        else:
            finish(yes, B.agg(OPT, "Some", [args[1]]))
        return True
    if kind in ("opt_map", "opt_and_then", "opt_map_or", "opt_map_or_else", "opt_unwrap_or_else", "opt_filter", "poll_map", "res_map", "res_and_then"):
        adt = POLL if kind == "poll_map" else RES if kind.startswith("res_") else OPT
        full, empty = {OPT: ("Some", "None"), POLL: ("Ready", "Pending"), RES: ("Ok", "Err")}[adt]
        r = recv_local()
        yes, no = B.block(), B.block()
        B.switch_enum(i, r, adt, {full: yes, empty: no})
        x = B.local()
        blocks[yes]["stmts"].append(B.assign(B.pl(x), {"k": "use", "op": B.mv(B.payload(r, full))}))
        f_op = args[-1]
        if kind in ("opt_map", "poll_map", "res_map"):
            v, after = B.local(), B.block()
            B.call_fnlike(yes, f_op, fdef(f_op), [B.mv(B.pl(x))], B.pl(v), after, unwind)
            finish(after, B.agg(adt, full, [B.mv(B.pl(v))]))
            if adt == RES:
                finish(no, B.agg(adt, empty, [B.mv(B.payload(r, empty))]))
            else:
                finish(no, B.agg(adt, empty, []))
        elif kind in ("opt_and_then", "res_and_then"):
            B.call_fnlike(yes, f_op, fdef(f_op), [B.mv(B.pl(x))], dest, target, unwind)
            finish(no, B.agg(adt, empty, [B.mv(B.payload(r, empty))] if adt == RES else []))
        elif kind == "opt_map_or":
            B.call_fnlike(yes, f_op, fdef(f_op), [B.mv(B.pl(x))], dest, target, unwind)
            finish(no, {"k": "use", "op": args[1]})
        elif kind == "opt_map_or_else":
            B.call_fnlike(yes, f_op, fdef(f_op), [B.mv(B.pl(x))], dest, target, unwind)
            B.call_fnlike(no, args[1], fdef(args[1]), [], dest, target, unwind)
        elif kind == "opt_unwrap_or_else":
            finish(yes, {"k": "use", "op": B.mv(B.pl(x))})
            B.call_fnlike(no, f_op, fdef(f_op), [], dest, target, unwind)
        elif kind == "opt_filter":
            keep_, ref, yes2, no2 = B.local("bool"), B.local(), B.block(), B.block()
            blocks[yes]["stmts"].append(B.assign(B.pl(ref), {"k": "ref", "mut": False, "place": B.pl(x)}))
            sw = B.block()
            B.call_fnlike(yes, f_op, fdef(f_op), [B.mv(B.pl(ref))], B.pl(keep_), sw, unwind)
            blocks[sw]["term"] = {"k": "switch", "on": B.mv(B.pl(keep_)), "targets": [[0, no2]], "otherwise": yes2, "span": t.get("span")}
            finish(yes2, B.agg(OPT, "Some", [B.mv(B.pl(x))]))
            finish(no2, B.agg(OPT, "None", []))
            finish(no, B.agg(OPT, "None", []))
        return True
    if kind == "for_each":
        it = recv_local()
        head, sw, body_, exit_ = B.block(), B.block(), B.block(), B.block()
        blocks[i]["term"] = {"k": "goto", "target": head}
        ref, nx, x, unit = B.local(), B.local("std::option::Option<?>"), B.local(), B.local("()")
        blocks[head]["stmts"].append(B.assign(B.pl(ref), {"k": "ref", "mut": True, "place": B.pl(it)}))
        blocks[head]["term"] = {"k": "call", "callee": "std::iter::Iterator::next", "resolved": None, "garg_defs": [], "fn_op": {"k": "const", "ty": "fn", "val": "next"},
                                "args": [B.mv(B.pl(ref))], "dest": B.pl(nx), "target": sw, "unwind": unwind, "span": t.get("span"), "synthetic": True, "extra": {}}
        B.switch_enum(sw, nx, OPT, {"Some": body_, "None": exit_})
        blocks[body_]["stmts"].append(B.assign(B.pl(x), {"k": "use", "op": B.mv(B.payload(nx, "Some"))}))
        B.call_fnlike(body_, args[1], fdef(args[1]), [B.mv(B.pl(x))], B.pl(unit), head, unwind)
        finish(exit_, {"k": "agg", "of": "tuple", "ops": []})
        return True
    return False


def inline_raw(F, fn, keep, depth, stack, desugar=False):
    raw = fn.raw["built"]
    if raw is None:
        return None
    locals_ = list(raw["locals"])
    blocks = [dict(cleanup=b["cleanup"], stmts=list(b["stmts"]), term=b["term"]) for b in raw["blocks"]]
    if depth <= 0:
        return {"arg_count": raw["arg_count"], "locals": locals_, "upvars": raw.get("upvars", []), "captures": raw.get("captures", []), "blocks": blocks}
    i = 0
    while i < len(blocks) and len(blocks) < MAX_BLOCKS:
        t = blocks[i]["term"]
        if desugar and t["k"] == "call" and not blocks[i]["cleanup"] and desugar_combinator(F, fn, locals_, blocks, i):
            t = blocks[i]["term"]
        if t["k"] == "call":
            c = F.local_callee(fn, t)
            if c is not None and c.key not in stack and c.key != fn.key and c.raw.get("built") is not None and not keep(c) and t.get("target") is not None:
                craw = inline_raw(F, c, keep, depth - 1, stack | {fn.key}, desugar)
                lo, bo = len(locals_), len(blocks)
                for l in craw["locals"]:
                    locals_.append(l)
                # argument passing
                pre = []
                span = t.get("span")
                is_closure_call = c.kind == "closure" and len(t["args"]) == 2 and craw["arg_count"] != len(t["args"])
                if is_closure_call or (c.kind == "closure" and craw["arg_count"] >= 1 and len(t["args"]) == 2 and "call" in (t.get("callee") or "").split("::")[-1]):
                    pre.append({"k": "assign", "place": {"l": lo + 1, "proj": []}, "rv": {"k": "use", "op": t["args"][0]}, "span": span})
                    tup = t["args"][1]
                    for j in range(craw["arg_count"] - 1):
                        if tup["k"] in ("copy", "move"):
                            src = {"k": tup["k"], "place": {"l": tup["place"]["l"], "proj": list(tup["place"]["proj"]) + [{"f": j, "name": str(j), "ty": "?"}]}}
                        else:
                            src = tup
                        pre.append({"k": "assign", "place": {"l": lo + 2 + j, "proj": []}, "rv": {"k": "use", "op": src}, "span": span})
                else:
                    for j, a in enumerate(t["args"][:craw["arg_count"]]):
                        pre.append({"k": "assign", "place": {"l": lo + 1 + j, "proj": []}, "rv": {"k": "use", "op": a}, "span": span})
                for cb in craw["blocks"]:
                    nb = {"cleanup": cb["cleanup"], "stmts": [_ren_stmt(s, lo) for s in cb["stmts"]], "term": _ren_term(cb["term"], lo, bo)}
                    if cb["term"]["k"] == "return":
                        nb["stmts"].append({"k": "assign", "place": t["dest"], "rv": {"k": "use", "op": {"k": "move", "place": {"l": lo, "proj": []}}}, "span": cb["term"].get("span") or span,
                                            "inlined_return_of": c.path})
                        nb["term"] = {"k": "goto", "target": t["target"]}
                    elif cb["term"]["k"] == "resume" and isinstance(t.get("unwind"), int):
                        nb["term"] = {"k": "goto", "target": t["unwind"]}
                    blocks.append(nb)
                blocks[i]["stmts"] = blocks[i]["stmts"] + pre
                blocks[i]["term"] = {"k": "goto", "target": bo, "inlined_call": c.path, "span": span}
        i += 1
    return {"arg_count": raw["arg_count"], "locals": locals_, "upvars": raw.get("upvars", []), "captures": raw.get("captures", []), "blocks": blocks}


def inlined(F, fn, keep=None, depth=3, tag="default", desugar=False):
    """Body of fn with local helpers inlined (cached per (fn, tag)); desugar=True also rewrites combinator calls."""
    cache = F.__dict__.setdefault("_inline_cache", {})
    key = (fn.key, tag, desugar)
    if key in cache:
        return cache[key]
    k = keep or default_keep
    raw = inline_raw(F, fn, k, depth, frozenset(), desugar)
    body = Body(fn, raw, "built+inlined") if raw is not None else None
    cache[key] = body
    return body


def keep_also(*fns):
    """keep predicate: the defaults plus the given anchor functions."""
    keys = {f.key for f in fns if f is not None}

    def keep(c):
        return c.key in keys or default_keep(c)
    return keep
