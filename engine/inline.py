"""Virtual inlining of local helper functions into a caller's MIR body.

"Extract a private helper" / "turn a closure into a named function" / "merge duplicated code into one helper" are the most
common behaviour-preserving refactorings. Rules that reason about the shape of one function (dominance, post-dominance,
provenance) would otherwise see a call where they expect the code. `inlined(F, fn, keep)` returns a Body in which calls to
workspace functions are replaced by the callee's blocks (locals and blocks renumbered, arguments assigned to the callee's
parameters, `return` turned into an assignment of the destination + goto), except for callees that `keep` wants to stay calls
(the rule's own anchors), public / crate-visible API, trait-impl methods and recursive calls. Purely syntactic on the fact
files; nothing is executed.
"""
import copy
from .facts import Body

MAX_BLOCKS = 4000


def default_keep(callee):
    """stay a call: public or crate-visible API and trait-impl methods (they are anchors or contracts of their own)."""
    if callee.raw.get("impl_trait"):
        return True
    if callee.kind == "coroutine":
        return True  # the body of an async fn: reached through Future::poll, belongs to that (usually public) function
    if callee.kind == "closure":
        return False
    return callee.vis in ("pub", "crate")


def _ren_place(p, lo):
    q = {"l": p["l"] + lo, "proj": []}
    for e in p["proj"]:
        if isinstance(e, dict) and "idx" in e:
            e = dict(e)
            e["idx"] = e["idx"] + lo
        q["proj"].append(e)
    return q


def _ren_op(o, lo):
    if o["k"] in ("copy", "move"):
        o = dict(o)
        o["place"] = _ren_place(o["place"], lo)
    return o


def _ren_rv(rv, lo):
    rv = dict(rv)
    k = rv["k"]
    if k == "use":
        rv["op"] = _ren_op(rv["op"], lo)
    elif k in ("ref", "raw", "discr"):
        rv["place"] = _ren_place(rv["place"], lo)
    elif k == "bin":
        rv["l"] = _ren_op(rv["l"], lo)
        rv["r"] = _ren_op(rv["r"], lo)
    elif k in ("un", "cast", "repeat"):
        rv["x"] = _ren_op(rv["x"], lo)
    elif k == "agg":
        rv["ops"] = [_ren_op(o, lo) for o in rv["ops"]]
    return rv


def _ren_stmt(s, lo):
    s = dict(s)
    k = s["k"]
    if k == "assign":
        s["place"] = _ren_place(s["place"], lo)
        s["rv"] = _ren_rv(s["rv"], lo)
    elif k in ("set_discr", "fake_read"):
        s["place"] = _ren_place(s["place"], lo)
    elif k in ("dead", "live"):
        s["l"] = s["l"] + lo
    return s


def _ren_term(t, lo, bo):
    t = dict(t)
    k = t["k"]

    def bb(x):
        return x + bo if isinstance(x, int) else x
    if k == "goto":
        t["target"] = bb(t["target"])
    elif k == "switch":
        t["on"] = _ren_op(t["on"], lo)
        t["targets"] = [[v, bb(b)] for v, b in t["targets"]]
        t["otherwise"] = bb(t["otherwise"])
    elif k == "drop":
        t["place"] = _ren_place(t["place"], lo)
        t["target"] = bb(t["target"])
        t["unwind"] = bb(t["unwind"])
    elif k == "call":
        t["args"] = [_ren_op(a, lo) for a in t["args"]]
        t["fn_op"] = _ren_op(t["fn_op"], lo)
        t["dest"] = _ren_place(t["dest"], lo)
        t["target"] = bb(t["target"])
        t["unwind"] = bb(t["unwind"])
    elif k == "assert":
        t["cond"] = _ren_op(t["cond"], lo)
        t["target"] = bb(t["target"])
        t["unwind"] = bb(t["unwind"])
    elif k == "yield":
        t["value"] = _ren_op(t["value"], lo)
        t["resume"] = bb(t["resume"])
        t["drop"] = bb(t.get("drop"))
    elif k == "false_edge":
        t["real"] = bb(t["real"])
        t["imaginary"] = bb(t["imaginary"])
    elif k == "false_unwind":
        t["real"] = bb(t["real"])
        t["unwind"] = bb(t["unwind"])
    return t


def inline_raw(F, fn, keep, depth, stack):
    raw = fn.raw["built"]
    if raw is None:
        return None
    locals_ = list(raw["locals"])
    blocks = [dict(cleanup=b["cleanup"], stmts=list(b["stmts"]), term=b["term"]) for b in raw["blocks"]]
    if depth <= 0:
        return {"arg_count": raw["arg_count"], "locals": locals_, "upvars": raw.get("upvars", []), "captures": raw.get("captures", []), "blocks": blocks}
    i = 0
    while i < len(blocks) and len(blocks) < MAX_BLOCKS:
        t = blocks[i]["term"]
        if t["k"] == "call":
            c = F.local_callee(fn, t)
            if c is not None and c.key not in stack and c.key != fn.key and c.raw.get("built") is not None and not keep(c) and t.get("target") is not None:
                craw = inline_raw(F, c, keep, depth - 1, stack | {fn.key})
                lo, bo = len(locals_), len(blocks)
                for l in craw["locals"]:
                    locals_.append(l)
                # argument passing
                pre = []
                span = t.get("span")
                is_closure_call = c.kind == "closure" and len(t["args"]) == 2 and craw["arg_count"] != len(t["args"])
                if is_closure_call or (c.kind == "closure" and craw["arg_count"] >= 1 and len(t["args"]) == 2 and "call" in (t.get("callee") or "").split("::")[-1]):
                    pre.append({"k": "assign", "place": {"l": lo + 1, "proj": []}, "rv": {"k": "use", "op": t["args"][0]}, "span": span})
                    tup = t["args"][1]
                    for j in range(craw["arg_count"] - 1):
                        if tup["k"] in ("copy", "move"):
                            src = {"k": tup["k"], "place": {"l": tup["place"]["l"], "proj": list(tup["place"]["proj"]) + [{"f": j, "name": str(j), "ty": "?"}]}}
                        else:
                            src = tup
                        pre.append({"k": "assign", "place": {"l": lo + 2 + j, "proj": []}, "rv": {"k": "use", "op": src}, "span": span})
                else:
                    for j, a in enumerate(t["args"][:craw["arg_count"]]):
                        pre.append({"k": "assign", "place": {"l": lo + 1 + j, "proj": []}, "rv": {"k": "use", "op": a}, "span": span})
                for cb in craw["blocks"]:
                    nb = {"cleanup": cb["cleanup"], "stmts": [_ren_stmt(s, lo) for s in cb["stmts"]], "term": _ren_term(cb["term"], lo, bo)}
                    if cb["term"]["k"] == "return":
                        nb["stmts"].append({"k": "assign", "place": t["dest"], "rv": {"k": "use", "op": {"k": "move", "place": {"l": lo, "proj": []}}}, "span": cb["term"].get("span") or span,
                                            "inlined_return_of": c.path})
                        nb["term"] = {"k": "goto", "target": t["target"]}
                    elif cb["term"]["k"] == "resume" and isinstance(t.get("unwind"), int):
                        nb["term"] = {"k": "goto", "target": t["unwind"]}
                    blocks.append(nb)
                blocks[i]["stmts"] = blocks[i]["stmts"] + pre
                blocks[i]["term"] = {"k": "goto", "target": bo, "inlined_call": c.path, "span": span}
        i += 1
    return {"arg_count": raw["arg_count"], "locals": locals_, "upvars": raw.get("upvars", []), "captures": raw.get("captures", []), "blocks": blocks}


def inlined(F, fn, keep=None, depth=3, tag="default"):
    """Body of fn with local helpers inlined (cached per (fn, tag))."""
    cache = F.__dict__.setdefault("_inline_cache", {})
    key = (fn.key, tag)
    if key in cache:
        return cache[key]
    k = keep or default_keep
    raw = inline_raw(F, fn, k, depth, frozenset())
    body = Body(fn, raw, "built+inlined") if raw is not None else None
    cache[key] = body
    return body


def keep_also(*fns):
    """keep predicate: the defaults plus the given anchor functions."""
    keys = {f.key for f in fns if f is not None}

    def keep(c):
        return c.key in keys or default_keep(c)
    return keep
