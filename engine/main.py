"""Entry point:  python3 -m engine.main <Cxx|all> [--tier quick|thorough] [--replay file] [--repo DIR]
                 python3 -m engine.main --setup
"""
import argparse, importlib, json, os, shutil, sys, time, traceback, uuid

from . import extract, report
from .facts import load_config

VERIF = os.path.dirname(os.path.dirname(os.path.abspath(__file__)))
PROPS = ["C%02d" % i for i in range(1, 21)]


def rules_module(prop):
    try:
        return importlib.import_module("engine.rules.%s" % prop.lower())
    except ModuleNotFoundError as e:
        if ("engine.rules.%s" % prop.lower()) in str(e):
            return None
        raise


def run_property(prop, tier, seed, facts_by_config, configs, t0, evidence_dir=None, quiet=False, witness=True):
    mod = rules_module(prop)
    if mod is None:
        print("%s: no rules implemented" % prop)
        return 2, []
    ctx = report.Ctx(prop, tier, seed)
    wanted = getattr(mod, "CONFIGS", None)
    used = []
    for cfg in configs:
        if wanted and cfg not in wanted and tier == "quick":
            continue
        ctx.config = cfg
        ctx.facts = facts_by_config[cfg]
        need = getattr(mod, "CRATES", None)
        if need and not set(need) <= set(ctx.facts.crates):
            continue  # this configuration does not contain the crates the property is about
        ctx.has_async = any("lock::AsyncLock" in (f.raw.get("self_ty") or "") for f in ctx.facts.fns.values())
        if getattr(mod, "NEEDS_ASYNC", False) and not ctx.has_async:
            continue
        try:
            mod.run(ctx)
        except Exception:
            tb = traceback.format_exc()
            ctx._add(report.VIOLATED, "engine", None, "exception:" + cfg, None, tb[-1500:], reason="engine-error")
        used.append(cfg)
    extra = {}
    if witness and getattr(mod, "WITNESSES", None):
        from . import witness as W
        ctx.config = "witness"
        wres = W.run_for(prop, mod.WITNESSES, ctx)
        extra["witnesses"] = wres
    if tier == "thorough" and getattr(mod, "SELFTEST", True) and os.environ.get("VERIF_NO_SELFTEST") != "1":
        from . import selftest
        ctx.config = "selftest"
        st = selftest.run_for(prop, ctx)
        if st is not None:
            extra["selftest"] = st
    code, rs = report.finish(ctx, mod.META, used, time.time() - t0, extra, evidence_dir, quiet)
    return code, rs


def main(argv=None):
    ap = argparse.ArgumentParser()
    ap.add_argument("prop", nargs="?")
    ap.add_argument("--tier", default=os.environ.get("VERIF_TIER", "quick"))
    ap.add_argument("--replay")
    ap.add_argument("--setup", action="store_true")
    ap.add_argument("--repo", default=os.environ.get("VERIF_REPO", "/repo"))
    ap.add_argument("--facts", help="reuse an existing fact directory (debugging only)")
    ap.add_argument("--keep-facts", action="store_true")
    ap.add_argument("--evidence-dir")
    ap.add_argument("--no-witness", action="store_true")
    a = ap.parse_args(argv)
    if a.tier not in ("quick", "thorough"):
        a.tier = "quick"
    seed = int(os.environ.get("VERIF_SEED", "0") or 0)

    if a.setup:
        extract.warm(a.repo)
        from . import witness as W
        W.setup()
        print("setup ok")
        return 0

    if not a.prop:
        ap.error("property id required")
    props = PROPS if a.prop == "all" else [a.prop]
    t0 = time.time()
    configs = extract.QUICK if a.tier == "quick" else extract.THOROUGH
    if not os.path.exists(extract.DRIVER):
        extract.build_driver()
    if a.facts:
        fdir, nonce = a.facts, None
    else:
        fdir = os.path.join(extract.CACHE, "facts", "run-%d-%s" % (os.getpid(), uuid.uuid4().hex[:8]))
        nonce, _ = extract.extract(a.repo, configs, fdir)
    try:
        facts_by_config = {}
        for cfg in configs:
            facts_by_config[cfg] = load_config(fdir, cfg, nonce)
        worst = 0
        for p in props:
            tp = time.time() if a.prop == "all" else t0
            code, rs = run_property(p, a.tier, seed, facts_by_config, configs, tp, a.evidence_dir, witness=not a.no_witness)
            if a.replay:
                want = json.load(open(a.replay)).get("key")
                hit = [r for r in rs if report.violation_key(p, r) == want]
                for r in hit:
                    print("REPLAY %s: %s at %s\n  %s" % (r.verdict, want, r.where, r.detail))
                if not hit:
                    print("REPLAY: instance %s no longer present" % want)
            worst = max(worst, code)
        return worst
    finally:
        if not a.facts and not a.keep_facts:
            shutil.rmtree(fdir, ignore_errors=True)


if __name__ == "__main__":
    sys.exit(main())
