"""Rule results, known findings, evidence files."""
import json, os, time

VERIF = os.path.dirname(os.path.dirname(os.path.abspath(__file__)))

HOLDS, VIOLATED, UNDECIDED = "HOLDS", "VIOLATED", "UNDECIDED"


class Result:
    __slots__ = ("rule", "key", "verdict", "fn", "where", "detail", "config", "reason", "label")

    def __init__(self, rule, key, verdict, fn, where, detail, config, reason=None, label=None):
        self.rule, self.key, self.verdict, self.fn, self.where = rule, key, verdict, fn, where
        self.detail, self.config, self.reason = detail, config, reason
        self.label = label  # stable name of a private anchor found by role (used in known-finding keys instead of its path)

    def as_json(self):
        d = {"rule": self.rule, "instance": self.key, "verdict": self.verdict, "fn": self.fn,
             "at": self.where, "config": self.config, "justification": self.detail}
        if self.label:
            d["anchor_role"] = self.label
        if self.reason:
            d["reason"] = self.reason
        return d


class Ctx:
    """Collects rule instances for one property across configurations."""

    def __init__(self, prop, tier, seed):
        self.prop = prop
        self.tier = tier
        self.seed = seed
        self.results = []
        self.facts = None  # current Facts
        self.config = None
        self.fns_analysed = set()
        self.call_sites = 0
        self.edges = 0
        self.floors = []  # (rule, counted, minimum)
        self.notes = []
        self.has_async = False
        self.roles = {}  # fn key -> role label of private anchors (renaming / splitting them must not change a finding's key)

    def role(self, fn, label):
        if fn is not None:
            self.roles[fn.key] = label

    # -- recording ---------------------------------------------------------
    def _fnkey(self, fn):
        if fn is None:
            return "-"
        if isinstance(fn, str):
            return fn
        self.fns_analysed.add(fn.key)
        return fn.key

    def _add(self, verdict, rule, fn, key, where, detail, reason=None):
        fk = self._fnkey(fn)
        self.results.append(Result(rule, key, verdict, fk, where, detail, self.config, reason, self.roles.get(fk)))

    def holds(self, rule, fn, key, where=None, detail=""):
        self._add(HOLDS, rule, fn, key, where or (fn.loc() if hasattr(fn, "loc") else None), detail)

    def violated(self, rule, fn, key, where=None, detail="", reason=None):
        self._add(VIOLATED, rule, fn, key, where or (fn.loc() if hasattr(fn, "loc") else None), detail, reason)

    def undecided(self, rule, fn, key, where=None, detail=""):
        self._add(UNDECIDED, rule, fn, key, where or (fn.loc() if hasattr(fn, "loc") else None), detail)

    def verdict(self, ok, rule, fn, key, where=None, detail="", bad_detail=None):
        if ok is None:
            self.undecided(rule, fn, key, where, detail)
        elif ok:
            self.holds(rule, fn, key, where, detail)
        else:
            self.violated(rule, fn, key, where, bad_detail or detail)

    def missing(self, rule, what):
        """A role or public anchor the rule needs does not exist: fail closed."""
        self._add(VIOLATED, rule, None, "anchor:" + what, None, "anchor not found: " + what, reason="anchor-missing")

    def floor(self, rule, counted, minimum):
        self.floors.append((rule, counted, minimum, self.config))
        if counted < minimum:
            self._add(VIOLATED, rule, None, "floor", None,
                      "rule matched %d instance(s) in config %s, fewer than the %d confirmed by hand" % (counted, self.config, minimum),
                      reason="below-floor")

    def touch(self, fn):
        if fn is not None:
            self.fns_analysed.add(fn.key)

    def note(self, s):
        self.notes.append(s)


def violation_key(prop, r):
    return "%s|%s|%s|%s" % (prop, r.rule, getattr(r, "label", None) or r.fn, r.key)


def load_known(path=None):
    path = path or os.path.join(VERIF, "known_findings.json")
    if not os.path.exists(path):
        return {"findings": [], "fixed": []}
    return json.load(open(path))


def finish(ctx, prop_meta, configs, wall_s, extra_cov=None, evidence_dir=None, quiet=False):
    """Dedupe across configs, apply known findings, print lines, write evidence. Returns exit code."""
    known = load_known()
    known_keys = {f["key"]: f for f in known.get("findings", []) if f.get("property") == ctx.prop}
    evidence_dir = evidence_dir or os.path.join(VERIF, "evidence")
    os.makedirs(evidence_dir, exist_ok=True)
    os.makedirs(os.path.join(evidence_dir, "replay"), exist_ok=True)

    # de-duplicate by (rule, fn, key): worst verdict wins across configs
    rank = {HOLDS: 0, UNDECIDED: 1, VIOLATED: 2}
    merged = {}
    for r in ctx.results:
        k = (r.rule, r.fn, r.key)
        if k not in merged or rank[r.verdict] > rank[merged[k].verdict]:
            if k in merged:
                r.config = merged[k].config + "," + r.config if r.config not in merged[k].config.split(",") else merged[k].config
            merged[k] = r
        else:
            if r.config not in merged[k].config.split(","):
                merged[k].config += "," + r.config
    rs = list(merged.values())
    viol = [r for r in rs if r.verdict == VIOLATED]
    new_viol, known_hit = [], []
    for r in viol:
        k = violation_key(ctx.prop, r)
        if k in known_keys:
            known_hit.append((r, known_keys[k]))
        else:
            new_viol.append(r)
    lines = []
    for r, kf in known_hit:
        lines.append("KNOWN-FINDING: property=%s %s [%s at %s]" % (ctx.prop, kf.get("what", r.detail), r.rule, r.where))
    replay_paths = []
    for i, r in enumerate(new_viol):
        path = os.path.join(evidence_dir, "replay", "%s-%d.json" % (ctx.prop, i))
        with open(path, "w") as f:
            json.dump({"property": ctx.prop, "key": violation_key(ctx.prop, r), **r.as_json()}, f, indent=1)
        replay_paths.append(path)
        lines.append("VIOLATION property=%s replay=%s" % (ctx.prop, path))
        lines.append("  rule=%s fn=%s at=%s instance=%s%s\n  %s" % (
            r.rule, r.fn, r.where, r.key, (" reason=" + r.reason) if r.reason else "", r.detail))
    n_h = sum(1 for r in rs if r.verdict == HOLDS)
    n_u = sum(1 for r in rs if r.verdict == UNDECIDED)

    per_rule = {}
    for r in rs:
        d = per_rule.setdefault(r.rule, {"instances": 0, "holds": 0, "violated": 0, "undecided": 0})
        d["instances"] += 1
        d[{"HOLDS": "holds", "VIOLATED": "violated", "UNDECIDED": "undecided"}[r.verdict]] += 1

    samples = []
    seen_rules = set()
    for r in rs:  # one sample per rule first, then violations/undecided
        if r.rule not in seen_rules:
            seen_rules.add(r.rule)
            samples.append(r.as_json())
    for r in rs:
        if r.verdict != HOLDS and r.as_json() not in samples:
            samples.append(r.as_json())
    samples = samples[:60]

    cov = {
        "explanation": prop_meta["explanation"],
        "obligations": len(rs),
        "discharged": n_h,
        "undecided": n_u,
        "known_findings": len(known_hit),
        "new_violations": len(new_viol),
        "rules": per_rule,
        "rule_instance_floors": [{"rule": a, "counted": b, "floor": c, "config": d} for a, b, c, d in ctx.floors],
        "functions_analysed": len(ctx.fns_analysed),
        "call_sites_examined": ctx.call_sites,
        "configs": configs,
        "checker_cmd": "./check %s --tier %s" % (ctx.prop, ctx.tier),
        "trusted_base": prop_meta.get("trusted_base", []),
        "samples": samples,
        "exhaustive": False,
        "notes": ctx.notes,
    }
    if extra_cov:
        cov.update(extra_cov)
    ev = {
        "property_id": ctx.prop,
        "tier": ctx.tier,
        "seed": ctx.seed,
        "level": "other",
        "coverage": cov,
        "assumptions": prop_meta.get("assumptions", []),
        "wall_s": round(wall_s, 2),
        "violations": len(new_viol),
    }
    with open(os.path.join(evidence_dir, ctx.prop + ".json"), "w") as f:
        json.dump(ev, f, indent=1)
    if not quiet:
        print("%s: %d rule instances, %d hold, %d undecided, %d known finding(s), %d new violation(s) [%s; %.1fs]" % (
            ctx.prop, len(rs), n_h, n_u, len(known_hit), len(new_viol), ",".join(configs), wall_s))
        for l in lines:
            print(l)
    return (1 if new_viol else 0), rs
