"""Run the fact-extraction driver over a checkout of the repository."""
import fcntl, glob, os, shutil, subprocess, sys, time, uuid

VERIF = os.path.dirname(os.path.dirname(os.path.abspath(__file__)))
CACHE = os.path.join(VERIF, ".cache")
DRIVER = os.path.join(VERIF, "driver", "target", "release", "eyeball-facts")

# config -> (cargo args, crates that must produce a fact file)
CONFIGS = {
    "default": (["--workspace"], ["eyeball", "eyeball_im", "eyeball_im_util"]),
    "all": (["--workspace", "--all-features"], ["eyeball", "eyeball_im", "eyeball_im_util"]),
    "eyeball-async": (["-p", "eyeball", "--features", "async-lock"], ["eyeball"]),
    "eyeball-tracing": (["-p", "eyeball", "--features", "tracing"], ["eyeball"]),
    "im-serde": (["-p", "eyeball-im", "--features", "serde"], ["eyeball_im"]),
    "im-tracing": (["-p", "eyeball-im", "--features", "tracing"], ["eyeball_im"]),
}
QUICK = ["default", "all"]
THOROUGH = ["default", "all", "eyeball-async", "eyeball-tracing", "im-serde", "im-tracing"]


def sysroot():
    return subprocess.check_output(["rustc", "+nightly", "--print", "sysroot"], text=True).strip()


def base_env():
    env = dict(os.environ)
    env["LD_LIBRARY_PATH"] = os.path.join(sysroot(), "lib") + (":" + env["LD_LIBRARY_PATH"] if env.get("LD_LIBRARY_PATH") else "")
    env["RUSTFLAGS"] = "-Zmir-opt-level=0 -Awarnings"
    env["RUSTC_WORKSPACE_WRAPPER"] = DRIVER
    env["CARGO_NET_OFFLINE"] = "true"
    env.pop("RUSTC_WRAPPER", None)
    return env


def build_driver():
    r = subprocess.run(["cargo", "build", "--release", "--offline"], cwd=os.path.join(VERIF, "driver"),
                       stdout=subprocess.PIPE, stderr=subprocess.STDOUT, text=True)
    if r.returncode != 0 or not os.path.exists(DRIVER):
        sys.stderr.write(r.stdout)
        raise RuntimeError("driver build failed")


def extract_one(repo, config, out_dir, nonce, target_dir=None, timeout=900):
    args, crates = CONFIGS[config]
    tdir = target_dir or os.path.join(CACHE, "target", config)
    os.makedirs(tdir, exist_ok=True)
    os.makedirs(out_dir, exist_ok=True)
    env = base_env()
    env["CARGO_TARGET_DIR"] = tdir
    env["EYEBALL_FACTS_DIR"] = out_dir
    env["EYEBALL_FACTS_CONFIG"] = config
    env["EYEBALL_FACTS_NONCE"] = nonce
    lock = open(os.path.join(tdir, ".verif-lock"), "w")
    fcntl.flock(lock, fcntl.LOCK_EX)
    try:
        # cargo's freshness cache would skip the wrapper: forget the workspace members
        for d in glob.glob(os.path.join(tdir, "debug", ".fingerprint", "eyeball*")):
            shutil.rmtree(d, ignore_errors=True)
        cmd = ["cargo", "+nightly", "check", "--offline"] + args
        r = subprocess.run(cmd, cwd=repo, env=env, stdout=subprocess.PIPE, stderr=subprocess.STDOUT, text=True, timeout=timeout)
    finally:
        fcntl.flock(lock, fcntl.LOCK_UN)
        lock.close()
    if r.returncode != 0:
        raise RuntimeError("cargo check failed for config %s:\n%s" % (config, r.stdout[-4000:]))
    missing = [c for c in crates if not os.path.exists(os.path.join(out_dir, "%s.%s.json" % (c, config)))]
    if missing:
        raise RuntimeError("no fact file written for %s in config %s (driver skipped?)\n%s" % (missing, config, r.stdout[-2000:]))
    return crates


def extract(repo, configs, out_dir, nonce=None, target_root=None):
    nonce = nonce or uuid.uuid4().hex
    from concurrent.futures import ThreadPoolExecutor
    t0 = time.time()

    def one(cfg):
        td = os.path.join(target_root, cfg) if target_root else None
        return extract_one(repo, cfg, out_dir, nonce, td)

    with ThreadPoolExecutor(max_workers=len(configs)) as ex:
        list(ex.map(one, configs))
    return nonce, time.time() - t0


def warm(repo):
    """setup: build the driver and compile all dependencies once per config."""
    build_driver()
    tmp = os.path.join(CACHE, "facts", "warm")
    shutil.rmtree(tmp, ignore_errors=True)
    extract(repo, THOROUGH, tmp)
    shutil.rmtree(tmp, ignore_errors=True)
