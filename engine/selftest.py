"""Self-validation of the rules ("test the checker both ways").

Mutants (must fire) and benign refactors (must stay silent) are applied to scratch copies of /repo's
*current working tree* under /verif/.cache/selftest and analysed STATICALLY ONLY (fact extraction +
rules); nothing is executed. Definitions live in /verif/selftest/mutants.json (text replacements) and
/verif/selftest/patches/*.diff + /verif/seeded/*/patch.diff (patches).
"""
import json, os, shutil, subprocess, sys, time, uuid
from concurrent.futures import ThreadPoolExecutor

from . import extract, report
from .facts import load_config

VERIF = os.path.dirname(os.path.dirname(os.path.abspath(__file__)))
ROOT = os.path.join(extract.CACHE, "selftest", "p%d" % os.getpid())  # per process: several self-tests may run at once


def load_mutants():
    out = []
    p = os.path.join(VERIF, "selftest", "mutants.json")
    if os.path.exists(p):
        for m in json.load(open(p))["mutants"]:
            out.append(m)
    sd = os.path.join(VERIF, "seeded")
    if os.path.isdir(sd):
        for d in sorted(os.listdir(sd)):
            meta = os.path.join(sd, d, "meta.json")
            patch = os.path.join(sd, d, "patch.diff")
            if os.path.exists(meta) and os.path.exists(patch):
                mj = json.load(open(meta))
                out.append({"id": "seed-" + d, "property": mj["property"], "patch": patch, "desc": mj.get("summary", ""),
                            "expect": mj.get("expect", "fire"), "rules": [r.split("[")[0] for r in mj.get("caught_by", [])], "benign": mj.get("expect") == "silent"})
    return out


def copy_tree(repo, dst):
    shutil.rmtree(dst, ignore_errors=True)
    os.makedirs(dst)
    files = subprocess.check_output(["git", "-C", repo, "ls-files"], text=True).split("\n")
    for f in files:
        if not f:
            continue
        src = os.path.join(repo, f)
        if not os.path.exists(src):
            continue
        d = os.path.join(dst, f)
        os.makedirs(os.path.dirname(d), exist_ok=True)
        shutil.copy2(src, d)


def apply_mutant(m, tree):
    """returns None on success or a reason string when the mutant does not apply to this tree."""
    if m.get("patch"):
        patch = m["patch"] if os.path.isabs(m["patch"]) else os.path.join(VERIF, m["patch"])
        r = subprocess.run(["git", "apply", "--unsafe-paths", "--directory", tree, patch] if False else ["patch", "-p1", "-s", "-f", "-d", tree, "-i", patch],
                           stdout=subprocess.PIPE, stderr=subprocess.STDOUT, text=True)
        if r.returncode != 0:
            return "patch does not apply: " + r.stdout[-300:]
        return None
    edits = m.get("edits") or [{"file": m["file"], "old": m["old"], "new": m["new"]}]
    for e in edits:
        p = os.path.join(tree, e["file"])
        if not os.path.exists(p):
            return "file missing: " + e["file"]
        s = open(p).read()
        if s.count(e["old"]) < 1:
            return "old text not found in " + e["file"]
        if e.get("all"):
            s = s.replace(e["old"], e["new"])
        else:
            if s.count(e["old"]) != 1 and not e.get("first"):
                return "old text ambiguous (%d matches) in %s" % (s.count(e["old"]), e["file"])
            s = s.replace(e["old"], e["new"], 1)
        open(p, "w").write(s)
    return None


def analyse_tree(tree, props, worker, configs=None, tier="quick"):
    """extract facts from `tree` and run the rules of `props`; returns {prop: (code, [Result])} or raises."""
    from .main import run_property
    configs = configs or extract.QUICK
    wdir = os.path.join(ROOT, "w%d" % worker)
    troot = os.path.join(wdir, "target")
    for cfg in configs:
        td = os.path.join(troot, cfg)
        if not os.path.isdir(td):
            src = os.path.join(extract.CACHE, "target", cfg)
            if os.path.isdir(src):
                shutil.copytree(src, td, symlinks=True)
    fdir = os.path.join(wdir, "facts-" + uuid.uuid4().hex[:8])
    try:
        nonce, _ = extract.extract(tree, configs, fdir, target_root=troot)
        fb = {cfg: load_config(fdir, cfg, nonce) for cfg in configs}
        out = {}
        evd = os.path.join(wdir, "evidence")
        for p in props:
            code, rs = run_property(p, "quick", 0, fb, configs, time.time(), evidence_dir=evd, quiet=True, witness=False)
            out[p] = (code, rs)
        return out
    finally:
        shutil.rmtree(fdir, ignore_errors=True)


def run_mutant(m, repo, worker, only_prop=None):
    tree = os.path.join(ROOT, "w%d" % worker, "repo")
    copy_tree(repo, tree)
    why = apply_mutant(m, tree)
    if why:
        return {"id": m["id"], "status": "not-applicable", "why": why}
    try:
        props = ["C%02d" % i for i in range(1, 21)] if m["property"] == "*" else [m["property"]] + list(m.get("also", []))
        if only_prop == "*":
            props = ["C%02d" % i for i in range(1, 21)]
        elif only_prop:
            props = [only_prop]
        res = analyse_tree(tree, props, worker)
    except RuntimeError as e:
        return {"id": m["id"], "status": "build-failed", "why": str(e)[-400:]}
    known = {f["key"] for f in report.load_known().get("findings", [])}
    fired = []
    for p, (code, rs) in res.items():
        for r in rs:
            if r.verdict == report.VIOLATED and report.violation_key(p, r) not in known:
                fired.append({"property": p, "rule": r.rule, "fn": r.fn, "instance": r.key, "at": r.where, "why": r.detail[:300], "reason": r.reason})
    benign = m.get("benign") or m.get("expect") == "silent"
    if benign:
        status = "silent-ok" if not fired else "FALSE-ALARM"
    else:
        real = [x for x in fired if x["reason"] not in ("engine-error",)]
        status = "caught" if real else "MISSED"
        if not real and m.get("expect") == "miss":
            status = "missed-as-documented"   # a confirmed change no structural clause decides (kept for honesty, see DESIGN 9.9)
        if real and m.get("rules"):
            want = set(m["rules"])
            if not any(x["rule"] in want or x["rule"].rstrip("abcdef") in want for x in real):
                status = "caught-by-other-rule"
    return {"id": m["id"], "property": m["property"], "status": status, "fired": fired[:40], "desc": m.get("desc", "")}


def _job(args):
    m, repo, only_prop = args
    import multiprocessing
    ident = multiprocessing.current_process()._identity
    w = (ident[0] - 1) if ident else 0
    t0 = time.time()
    try:
        r = run_mutant(m, repo, w, only_prop)
        if os.environ.get("VERIF_SELFTEST_PROGRESS"):
            sys.stderr.write("done %s %.1fs %s\n" % (m["id"], time.time() - t0, r.get("status")))
        return r
    except Exception:
        import traceback
        return {"id": m["id"], "status": "error", "why": traceback.format_exc()[-600:]}


def run_all(mutants, repo="/repo", workers=8, only_prop=None):
    """one process per worker (the rule evaluation is CPU-bound Python; threads would serialise on the GIL)."""
    os.makedirs(ROOT, exist_ok=True)
    import multiprocessing
    ctxm = multiprocessing.get_context("fork")
    with ctxm.Pool(processes=max(1, workers)) as pool:
        res = pool.map(_job, [(m, repo, only_prop) for m in mutants], chunksize=1)
    return res


def cleanup():
    shutil.rmtree(ROOT, ignore_errors=True)


def run_for(prop, ctx, repo=None):
    repo = repo or os.environ.get("VERIF_REPO", "/repo")
    ms = [m for m in load_mutants() if m["property"] == prop or (m["property"] == "*" and prop in m.get("relevant", [prop]))]
    if not ms:
        return None
    try:
        res = run_all(ms, repo, workers=min(12, len(ms)), only_prop=prop)
    finally:
        cleanup()
    summ = {"mutants": len(res)}
    for r in res:
        summ[r["status"]] = summ.get(r["status"], 0) + 1
    summ["results"] = [{k: v for k, v in r.items() if k != "fired"} | ({"fired": [x["rule"] + ":" + x["instance"] for x in r.get("fired", [])]}) for r in res]
    bad = [r for r in res if r["status"] in ("MISSED", "FALSE-ALARM", "error")]
    for r in bad:
        print("SELFTEST-%s: %s %s" % (r["status"], r["id"], r.get("desc", r.get("why", ""))))
    return summ


if __name__ == "__main__":
    import argparse
    ap = argparse.ArgumentParser()
    ap.add_argument("ids", nargs="*")
    ap.add_argument("--prop")
    ap.add_argument("--workers", type=int, default=8)
    ap.add_argument("--keep", action="store_true")
    ap.add_argument("--all-props", action="store_true", help="evaluate every property's rules on each mutant (which property sees it?)")
    ap.add_argument("--json")
    a = ap.parse_args()
    ms = load_mutants()
    if a.prop:
        ms = [m for m in ms if m["property"] in a.prop.split(",")]
    if a.ids:
        ms = [m for m in ms if m["id"] in a.ids]
    t0 = time.time()
    res = run_all(ms, workers=a.workers, only_prop="*" if a.all_props else None)
    for r in res:
        print("%-8s %-22s %s" % (r["id"], r["status"], r.get("why", "") or "; ".join(sorted({"%s%s[%s]" % ((x["property"] + ":") if a.all_props else "", x["rule"], x["instance"]) for x in r.get("fired", [])}))))
    print("%.1fs" % (time.time() - t0))
    if a.json:
        json.dump(res, open(a.json, "w"), indent=1)
    if not a.keep:
        cleanup()
